"""Trigonometric normalisation of verification conditions.

sin/cos are uninterpreted for the solver.  Before an obligation is handed to
it, every application sin(t)/cos(t) is rewritten: the argument t is put in
polynomial normal form, each monomial m gets a base angle b_m = u_m * m where
u_m is the gcd of the rational coefficients with which m occurs anywhere in the
obligation, so that every argument is an integer combination sum n_m b_m (+ a
multiple of pi/2); the application is then expanded with the angle-addition
formulas into a polynomial in S_m = sin(b_m), C_m = cos(b_m), and the
hypothesis S_m^2 + C_m^2 = 1 is added for every base.  What is assumed about
sin/cos is therefore exactly: Pythagoras, the addition formulas, and
sin(pi/2)=1, cos(pi/2)=0 — all theorems.
"""
from fractions import Fraction
from math import gcd

import z3

from .lib import f_sin, f_cos, PI


def _q(v):
    return Fraction(v.numerator_as_long(), v.denominator_as_long())


INV_PI = 1 / PI


def _cancel(m):
    a, b = PI.get_id(), INV_PI.get_id()
    if a in m and b in m:
        lst = list(m)
        while a in lst and b in lst:
            lst.remove(a)
            lst.remove(b)
        return tuple(lst)
    return m


class Poly:
    """polynomial with Fraction coefficients over opaque atoms (z3 terms)"""

    def __init__(self, terms=None, atoms=None):
        self.terms = terms or {}      # monomial (tuple of sorted atom ids) -> Fraction
        self.atoms = atoms or {}      # id -> z3 term

    @staticmethod
    def const(c):
        return Poly({(): Fraction(c)} if c != 0 else {})

    @staticmethod
    def atom(t):
        i = t.get_id()
        return Poly({(i,): Fraction(1)}, {i: t})

    def _merge_atoms(self, o):
        a = dict(self.atoms)
        a.update(o.atoms)
        return a

    def __add__(self, o):
        t = dict(self.terms)
        for m, c in o.terms.items():
            t[m] = t.get(m, 0) + c
            if t[m] == 0:
                del t[m]
        return Poly(t, self._merge_atoms(o))

    def scale(self, k):
        if k == 0:
            return Poly()
        return Poly({m: c * k for m, c in self.terms.items()}, self.atoms)

    def __mul__(self, o):
        t = {}
        for m1, c1 in self.terms.items():
            for m2, c2 in o.terms.items():
                m = _cancel(tuple(sorted(m1 + m2)))
                t[m] = t.get(m, 0) + c1 * c2
                if t[m] == 0:
                    del t[m]
        return Poly(t, self._merge_atoms(o))

    def is_const(self):
        return all(m == () for m in self.terms)

    def const_value(self):
        return self.terms.get((), Fraction(0))


def to_poly(e):
    if z3.is_rational_value(e) or z3.is_int_value(e):
        return Poly.const(_q(e) if z3.is_rational_value(e) else Fraction(e.as_long()))
    k = e.decl().kind()
    ch = e.children()
    if k == z3.Z3_OP_ADD:
        r = Poly()
        for c in ch:
            r = r + to_poly(c)
        return r
    if k == z3.Z3_OP_SUB:
        r = to_poly(ch[0])
        for c in ch[1:]:
            r = r + to_poly(c).scale(-1)
        return r
    if k == z3.Z3_OP_UMINUS:
        return to_poly(ch[0]).scale(-1)
    if k == z3.Z3_OP_MUL:
        r = Poly.const(1)
        for c in ch:
            r = r * to_poly(c)
        return r
    if k == z3.Z3_OP_DIV:
        d = to_poly(ch[1])
        if d.is_const() and d.const_value() != 0:
            return to_poly(ch[0]).scale(1 / d.const_value())
        pid = PI.get_id()
        if list(d.terms.keys()) == [(pid,)]:
            # division by c*pi: multiply by the atom 1/pi (pi * 1/pi cancels in __mul__)
            return (to_poly(ch[0]) * Poly.atom(INV_PI)).scale(1 / d.terms[(pid,)])
        return Poly.atom(e)
    if k == z3.Z3_OP_TO_REAL:
        return to_poly(ch[0])
    return Poly.atom(e)


def _collect(e, out, seen):
    i = e.get_id()
    if i in seen:
        return
    seen.add(i)
    if z3.is_app(e):
        d = e.decl()
        if d.eq(f_sin) or d.eq(f_cos):
            out.append(e)
        for c in e.children():
            _collect(c, out, seen)
    elif z3.is_quantifier(e):
        _collect(e.body(), out, seen)


class TrigNormalizer:
    def __init__(self):
        self.base = {}        # monomial -> (unit Fraction, S var, C var, z3 term of the base angle)
        self.memo = {}

    def normalise(self, hyps, goal):
        apps = []
        seen = set()
        for h in list(hyps) + [goal]:
            _collect(h, apps, seen)
        if not apps:
            return hyps, goal
        pi_id = PI.get_id()
        polys = {}
        coeffs = {}
        atoms = {}
        for a in apps:
            p = to_poly(a.arg(0))
            polys[a.get_id()] = p
            atoms.update(p.atoms)
            for m, c in p.terms.items():
                if m == () or m == (pi_id,):
                    continue
                coeffs.setdefault(m, []).append(c)
        if () in [m for p in polys.values() for m in p.terms]:
            # plain rational constants inside sin/cos: not a multiple of pi -> leave those apps alone
            pass
        extra = []
        for m, cs in coeffs.items():
            num = 0
            den = 1
            for c in cs:
                den = den * c.denominator // gcd(den, c.denominator)
            for c in cs:
                num = gcd(num, int(c * den))
            unit = Fraction(num, den)
            term = z3.RealVal(1)
            for i in m:
                t = atoms[i]
                term = term * (z3.ToReal(t) if z3.is_int(t) else t)
            key = "_".join(str(i) for i in m)
            S = z3.Real("S!%s" % key)
            C = z3.Real("C!%s" % key)
            self.base[m] = (unit, S, C)
            extra.append(S * S + C * C == 1)
            # tie the base back to the uninterpreted functions so that other
            # hypotheses about sin/cos of exactly this angle stay connected
        subs = []
        for a in apps:
            p = polys[a.get_id()]
            ok = True
            combo = []
            quarter = 0
            for m, c in p.terms.items():
                if m == ():
                    ok = False
                    break
                if m == (pi_id,):
                    q = c * 2
                    if q.denominator != 1:
                        ok = False
                        break
                    quarter = int(q)
                    continue
                unit, S, C = self.base[m]
                n = c / unit
                assert n.denominator == 1
                combo.append((int(n), S, C))
            if not ok:
                continue
            s, c = self.expand(combo, quarter)
            subs.append((a, s if a.decl().eq(f_sin) else c))
        if not subs:
            return hyps, goal
        hyps2 = [z3.substitute(h, *subs) for h in hyps] + extra
        goal2 = z3.substitute(goal, *subs)
        return hyps2, goal2

    def expand(self, combo, quarter):
        """(sin, cos) of sum n_i b_i + quarter*pi/2 as z3 terms"""
        s, c = z3.RealVal(0), z3.RealVal(1)
        for n, S, C in combo:
            sn, cn = self.multiple(abs(n), S, C)
            if n < 0:
                sn = -sn
            s, c = s * cn + c * sn, c * cn - s * sn
        q = quarter % 4
        for _ in range(q):
            s, c = c, -s          # add pi/2: sin(x+pi/2)=cos x, cos(x+pi/2)=-sin x
        return z3.simplify(s), z3.simplify(c)

    def multiple(self, n, S, C):
        s, c = z3.RealVal(0), z3.RealVal(1)
        for _ in range(n):
            s, c = s * C + c * S, c * C - s * S
        return s, c


def abstract_exp(hyps, goal):
    """replace every application u_exp(t) by a fresh positive real (generalisation: sound)"""
    from .lib import f_exp
    apps = {}

    def walk(e, seen):
        if e.get_id() in seen:
            return
        seen.add(e.get_id())
        if z3.is_app(e):
            if e.decl().eq(f_exp):
                apps[e.get_id()] = e
            for c in e.children():
                walk(c, seen)
    seen = set()
    for h in list(hyps) + [goal]:
        walk(h, seen)
    if not apps:
        return hyps, goal
    subs, extra = [], []
    for i, a in apps.items():
        v = z3.Real("E!%d" % i)
        subs.append((a, v))
        extra.append(v > 0)
    return [z3.substitute(h, *subs) for h in hyps] + extra, z3.substitute(goal, *subs)


def normalise(hyps, goal):
    hyps, goal = TrigNormalizer().normalise(hyps, goal)
    return abstract_exp(hyps, goal)
