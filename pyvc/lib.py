"""Assumed contracts of the dependencies (numpy / math scalars), as models.

Transcendental functions are uninterpreted z3 functions over the reals.  Each
application instantiates the axioms listed next to it (DESIGN §2.3); nothing else
is known about them.  Every model used is recorded in session.trusted.
"""
import math
from fractions import Fraction

import z3

from .values import (Sym, Opaque, NaN, NaNType, Undecided, ite, And, Or, Not,
                     floor, ceil, to_real, smin, smax, realval)
from .engine import Model, Namespace, PyObj, PyRaise, ExcValue

R = z3.RealSort()
f_sin = z3.Function('u_sin', R, R)
f_cos = z3.Function('u_cos', R, R)
f_exp = z3.Function('u_exp', R, R)
f_log = z3.Function('u_log', R, R)
f_sqrt = z3.Function('u_sqrt', R, R)
f_asin = z3.Function('u_arcsin', R, R)
f_atan2 = z3.Function('u_arctan2', R, R, R)
PI = z3.Real('pi_c')

PI_AXIOM = z3.And(PI > z3.RealVal("3.1415926"), PI < z3.RealVal("3.1415927"))


def _real(ctx, x, fname):
    if isinstance(x, (int, float, Fraction)) and not isinstance(x, bool):
        return realval(x)
    if isinstance(x, Sym):
        e = Sym.num(x)
        return z3.ToReal(e) if z3.is_int(e) else e
    raise Undecided("%s of %r" % (fname, type(x).__name__))


def _lifted(fname):
    """decorator: propagate NaN / Opaque, map over modelled arrays"""
    def deco(fn):
        def model(ctx, x, *rest, **kw):
            if isinstance(x, (NaNType, Opaque)):
                return x
            if isinstance(x, PyObj) and hasattr(x, 'map_'):
                return x.map_(ctx, lambda v: model(ctx, v, *rest, **kw))
            for r in rest:
                if isinstance(r, (NaNType, Opaque)):
                    return r
            ctx.session.trust("numpy/math %s: real function (axioms in pyvc/lib.py)" % fname)
            return fn(ctx, x, *rest, **kw)
        model.__name__ = fname
        return model
    return deco


@_lifted('sin')
def m_sin(ctx, x):
    if isinstance(x, (int, float)) and x == 0:
        return 0.0
    t = _real(ctx, x, 'sin')
    s, c = f_sin(t), f_cos(t)
    ctx.assume(s * s + c * c == 1)
    return Sym(s, True)


@_lifted('cos')
def m_cos(ctx, x):
    if isinstance(x, (int, float)) and x == 0:
        return 1.0
    t = _real(ctx, x, 'cos')
    s, c = f_sin(t), f_cos(t)
    ctx.assume(s * s + c * c == 1)
    return Sym(c, True)


@_lifted('radians')
def m_radians(ctx, x):
    if isinstance(x, (int, float)) and x == 0:
        return 0.0
    ctx.axiom_once('pi', PI_AXIOM)
    return Sym(_real(ctx, x, 'radians') * PI / 180, True)


@_lifted('degrees')
def m_degrees(ctx, x):
    if isinstance(x, (int, float)) and x == 0:
        return 0.0
    ctx.axiom_once('pi', PI_AXIOM)
    return Sym(_real(ctx, x, 'degrees') * 180 / PI, True)


@_lifted('exp')
def m_exp(ctx, x):
    t = _real(ctx, x, 'exp')
    e = f_exp(t)
    ctx.assume(e > 0)
    return Sym(e, True)


@_lifted('log')
def m_log(ctx, x):
    t = _real(ctx, x, 'log')
    return Sym(f_log(t), True)


@_lifted('sqrt')
def m_sqrt(ctx, x):
    if isinstance(x, (int, float)) and not isinstance(x, bool) and x >= 0 and math.isqrt(int(x)) ** 2 == x:
        return float(math.isqrt(int(x)))
    t = _real(ctx, x, 'sqrt')
    r = f_sqrt(t)
    # numpy: sqrt of a negative is NaN (warning); the contract that needs that
    # case must branch before calling.  Axiom is conditional on t >= 0.
    ctx.assume(z3.Implies(t >= 0, z3.And(r >= 0, r * r == t)))
    return Sym(r, True)


@_lifted('arcsin')
def m_arcsin(ctx, x):
    ctx.axiom_once('pi', PI_AXIOM)
    t = _real(ctx, x, 'arcsin')
    r = f_asin(t)
    ctx.assume(z3.Implies(z3.And(t >= -1, t <= 1),
                          z3.And(r >= -PI / 2, r <= PI / 2, f_sin(r) == t, f_cos(r) >= 0,
                                 (r >= 0) == (t >= 0), (r == 0) == (t == 0),
                                 (r == PI / 2) == (t == 1), (r == -PI / 2) == (t == -1),
                                 f_sin(r) * f_sin(r) + f_cos(r) * f_cos(r) == 1)))
    return Sym(r, True)


@_lifted('arctan2')
def m_arctan2(ctx, y, x):
    ctx.axiom_once('pi', PI_AXIOM)
    a = _real(ctx, y, 'arctan2')
    b = _real(ctx, x, 'arctan2')
    r = f_atan2(a, b)
    h = z3.Real(ctx._fresh('hyp'))
    # r in (-pi, pi];  (b, a) = h (cos r, sin r) with h = hypot >= 0
    ctx.assume(z3.And(r > -PI, r <= PI, h >= 0, h * h == a * a + b * b,
                      b == h * f_cos(r), a == h * f_sin(r),
                      z3.Implies(a > 0, z3.And(r > 0, r < PI)), z3.Implies(a < 0, r < 0),
                      z3.Implies(z3.And(a == 0, b >= 0), r == 0), z3.Implies(z3.And(a == 0, b < 0), r == PI),
                      z3.Implies(b > 0, z3.And(r > -PI / 2, r < PI / 2)),
                      z3.Implies(b < 0, z3.Or(r > PI / 2, r < -PI / 2)),
                      f_sin(r) * f_sin(r) + f_cos(r) * f_cos(r) == 1))
    return Sym(r, True)


@_lifted('hypot')
def m_hypot(ctx, x, y):
    a = _real(ctx, x, 'hypot')
    b = _real(ctx, y, 'hypot')
    h = z3.Real(ctx._fresh('hyp'))
    ctx.assume(z3.And(h >= 0, h * h == a * a + b * b))
    return Sym(h, True)


def m_isfinite(ctx, x):
    if isinstance(x, NaNType):
        return False
    if isinstance(x, Opaque):
        return Opaque("isfinite of unmodelled value")
    if isinstance(x, PyObj) and hasattr(x, 'map_'):
        return x.map_(ctx, lambda v: m_isfinite(ctx, v))
    if isinstance(x, (int, float, Fraction)):
        return math.isfinite(x)
    if isinstance(x, Sym):
        return True       # Real-sorted terms are finite
    if isinstance(x, (list, tuple)):
        return [m_isfinite(ctx, v) for v in x]
    raise Undecided("isfinite of %s" % type(x).__name__)


def m_isnan(ctx, x):
    r = m_isfinite(ctx, x)
    if isinstance(r, bool):
        return not r
    return r


def m_floor(ctx, x):
    if isinstance(x, (NaNType, Opaque)):
        if isinstance(x, NaNType):
            raise PyRaise(ExcValue('ValueError', ('cannot convert float NaN to integer',)))
        return x
    return floor(x)


def m_ceil(ctx, x):
    if isinstance(x, NaNType):
        raise PyRaise(ExcValue('ValueError', ('cannot convert float NaN to integer',)))
    if isinstance(x, Opaque):
        return x
    return ceil(x)


def np_floor(ctx, x):
    if isinstance(x, (NaNType, Opaque)):
        return x
    r = floor(x)
    return to_real(r) if isinstance(r, Sym) else float(r)


def np_ceil(ctx, x):
    if isinstance(x, (NaNType, Opaque)):
        return x
    r = ceil(x)
    return to_real(r) if isinstance(r, Sym) else float(r)


def m_minimum(ctx, a, b):
    if isinstance(a, PyObj) and hasattr(a, 'map_'):
        return a.map_(ctx, lambda v: m_minimum(ctx, v, b))
    if isinstance(b, PyObj) and hasattr(b, 'map_'):
        return b.map_(ctx, lambda v: m_minimum(ctx, a, v))
    if isinstance(a, (NaNType, Opaque)):
        return a
    if isinstance(b, (NaNType, Opaque)):
        return b
    return smin(a, b)


def m_maximum(ctx, a, b):
    if isinstance(a, PyObj) and hasattr(a, 'map_'):
        return a.map_(ctx, lambda v: m_maximum(ctx, v, b))
    if isinstance(b, PyObj) and hasattr(b, 'map_'):
        return b.map_(ctx, lambda v: m_maximum(ctx, a, v))
    if isinstance(a, (NaNType, Opaque)):
        return a
    if isinstance(b, (NaNType, Opaque)):
        return b
    return smax(a, b)


def m_abs(ctx, x):
    if isinstance(x, PyObj) and hasattr(x, 'map_'):
        return x.map_(ctx, lambda v: abs(v))
    return abs(x)


def m_clip(ctx, x, lo, hi):
    if isinstance(x, (NaNType, Opaque)):
        return x
    return smin(smax(x, lo), hi)


def std_math():
    return Namespace('math',
                     floor=Model(m_floor, 'math.floor'), ceil=Model(m_ceil, 'math.ceil'),
                     sin=Model(m_sin, 'math.sin'), cos=Model(m_cos, 'math.cos'),
                     sqrt=Model(m_sqrt, 'math.sqrt'), radians=Model(m_radians, 'math.radians'),
                     degrees=Model(m_degrees, 'math.degrees'), exp=Model(m_exp), log=Model(m_log),
                     isfinite=Model(m_isfinite), isnan=Model(m_isnan),
                     pi=Sym(PI, True), hypot=Model(m_hypot), atan2=Model(m_arctan2), asin=Model(m_arcsin),
                     fabs=Model(m_abs))


def std_np(**extra):
    ns = Namespace('np',
                   sin=Model(m_sin, 'np.sin'), cos=Model(m_cos, 'np.cos'),
                   radians=Model(m_radians, 'np.radians'), degrees=Model(m_degrees, 'np.degrees'),
                   exp=Model(m_exp, 'np.exp'), log=Model(m_log, 'np.log'), sqrt=Model(m_sqrt, 'np.sqrt'),
                   arcsin=Model(m_arcsin, 'np.arcsin'), arctan2=Model(m_arctan2, 'np.arctan2'),
                   hypot=Model(m_hypot, 'np.hypot'),
                   isfinite=Model(m_isfinite, 'np.isfinite'), isnan=Model(m_isnan, 'np.isnan'),
                   floor=Model(np_floor, 'np.floor'), ceil=Model(np_ceil, 'np.ceil'),
                   minimum=Model(m_minimum, 'np.minimum'), maximum=Model(m_maximum, 'np.maximum'),
                   abs=Model(m_abs, 'np.abs'), fabs=Model(m_abs, 'np.fabs'), clip=Model(m_clip, 'np.clip'),
                   pi=Sym(PI, True), nan=NaN, NaN=None, inf=None, float32=Model(lambda c, x=0: x, 'np.float32'),
                   float64=Model(lambda c, x=0: x, 'np.float64'))
    del ns.members['NaN']     # removed from numpy 2: resolving it is an AttributeError
    del ns.members['inf']
    ns.members.update(extra)
    return ns
