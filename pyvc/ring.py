"""Ring normaliser: decides equalities between rational functions over the reals
modulo the circle relations S!b^2 + C!b^2 = 1 introduced by pyvc/trig.py.

lhs == rhs  is rewritten to   N == 0 /\ (every denominator factor != 0)
where N = num(lhs)*den(rhs) - num(rhs)*den(lhs).  N is expanded to a sum of
monomials with rational coefficients and reduced with S^2 -> 1 - C^2 (a
Groebner basis of the product-of-circles ideal), so N reduces to the zero
polynomial iff the identity holds on all points satisfying the circle
relations.  When it does, the equality is replaced by the conjunction of the
denominator side conditions (left to the SMT solver); otherwise the goal is
left untouched for the solver (which may find a counterexample).
"""
from fractions import Fraction

import z3

from .trig import Poly, _q


class RatFun:
    def __init__(self, num, den=None, den_factors=None):
        self.num = num
        self.den = den if den is not None else Poly.const(1)
        self.den_factors = den_factors or []    # z3 terms that must be non-zero

    def __add__(self, o):
        if _same(self.den, o.den):
            return RatFun(self.num + o.num, self.den, self.den_factors + o.den_factors)
        return RatFun(self.num * o.den + o.num * self.den, self.den * o.den, self.den_factors + o.den_factors)

    def neg(self):
        return RatFun(self.num.scale(-1), self.den, self.den_factors)

    def __mul__(self, o):
        return RatFun(self.num * o.num, self.den * o.den, self.den_factors + o.den_factors)

    def inv(self, term):
        return RatFun(self.den, self.num, self.den_factors + [term])


def _same(a, b):
    return a.terms == b.terms


def to_rat(e, depth=0):
    if z3.is_rational_value(e) or z3.is_int_value(e):
        return RatFun(Poly.const(_q(e) if z3.is_rational_value(e) else Fraction(e.as_long())))
    k = e.decl().kind()
    ch = e.children()
    if k == z3.Z3_OP_ADD:
        r = to_rat(ch[0])
        for c in ch[1:]:
            r = r + to_rat(c)
        return r
    if k == z3.Z3_OP_SUB:
        r = to_rat(ch[0])
        for c in ch[1:]:
            r = r + to_rat(c).neg()
        return r
    if k == z3.Z3_OP_UMINUS:
        return to_rat(ch[0]).neg()
    if k == z3.Z3_OP_MUL:
        r = to_rat(ch[0])
        for c in ch[1:]:
            r = r * to_rat(c)
        return r
    if k == z3.Z3_OP_DIV:
        a, b = to_rat(ch[0]), to_rat(ch[1])
        if b.num.is_const() and not b.num.terms:
            raise ValueError("division by literal zero")
        return a * b.inv(ch[1])
    if k == z3.Z3_OP_TO_REAL:
        return to_rat(ch[0])
    if k == z3.Z3_OP_POWER and z3.is_int_value(ch[1]) and 0 <= ch[1].as_long() <= 8:
        r = RatFun(Poly.const(1))
        b = to_rat(ch[0])
        for _ in range(ch[1].as_long()):
            r = r * b
        return r
    return RatFun(Poly.atom(e))


def reduce_circle(p):
    """rewrite S!b^2 -> 1 - C!b^2 until no monomial contains a squared S!b"""
    names = {}
    for i, t in p.atoms.items():
        if z3.is_const(t):
            names[i] = t.decl().name()
    s_ids = {i: n[2:] for i, n in names.items() if n.startswith('S!')}
    c_by_base = {n[2:]: i for i, n in names.items() if n.startswith('C!')}
    terms = dict(p.terms)
    changed = True
    guard = 0
    while changed:
        changed = False
        guard += 1
        if guard > 10000:
            raise ValueError("reduction does not terminate")
        for m in list(terms):
            hit = None
            for i in set(m):
                if i in s_ids and m.count(i) >= 2 and s_ids[i] in c_by_base:
                    hit = i
                    break
            if hit is None:
                continue
            c = terms.pop(m)
            rest = list(m)
            rest.remove(hit)
            rest.remove(hit)
            cid = c_by_base[s_ids[hit]]
            m1 = tuple(sorted(rest))
            m2 = tuple(sorted(rest + [cid, cid]))
            for mm, cc in ((m1, c), (m2, -c)):
                terms[mm] = terms.get(mm, 0) + cc
                if terms[mm] == 0:
                    del terms[mm]
            changed = True
    return terms


def equality_sides(goal):
    if z3.is_eq(goal) and z3.is_arith(goal.arg(0)):
        return goal.arg(0), goal.arg(1)
    return None


def prove_equalities(goal, max_terms=200000):
    """returns (new_goal, proved_count): equalities proved by normalisation are replaced by their
    denominator side conditions; anything else is kept."""
    if z3.is_and(goal):
        parts = [prove_equalities(c, max_terms) for c in goal.children()]
        return z3.And(*[p[0] for p in parts]), sum(p[1] for p in parts)
    if z3.is_implies(goal):
        g, n = prove_equalities(goal.arg(1), max_terms)
        return z3.Implies(goal.arg(0), g), n
    sides = equality_sides(goal)
    if sides is None:
        return goal, 0
    try:
        l, r = to_rat(sides[0]), to_rat(sides[1])
        n = l.num * r.den + (r.num * l.den).scale(-1)
        if len(n.terms) > max_terms:
            return goal, 0
        red = reduce_circle(n)
    except (ValueError, AssertionError):
        return goal, 0
    if red:
        return goal, 0
    conds = [f != 0 for f in l.den_factors + r.den_factors]
    return (z3.And(*conds) if conds else z3.BoolVal(True)), 1
