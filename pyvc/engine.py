"""pyvc engine: forward symbolic execution of real Python source with contracts.

* `Session`  : one property check; collects targets, obligations, abstractions.
* `Ctx`      : one target (function or region) explored path by path.  Paths are
               enumerated by *re-execution under a decision script*: each time
               the interpreter (or a model) needs the truth value of a symbolic
               condition it calls `ctx.branch(cond)`, which consults the script
               and schedules the other side if it is feasible.
* `Interp`   : the AST interpreter.  Loops over symbolic ranges are cut at the
               invariants given by the contract; calls are resolved to models
               (assumed library contracts / verified repo contracts) or, when
               the contract marks a repo helper `inline`, to the helper's body.

An obligation is `(name, hypotheses, goal)`; hypotheses are the path condition
and every assumption made so far on that path.  Nothing here decides an
obligation: that is solve.py's job.
"""
import ast
import hashlib
import itertools
import os
import time
from fractions import Fraction

import z3

from .values import (Sym, Opaque, NaN, NaNType, Undecided, ite, And, Or, Not,
                     Implies, to_int_trunc, floor, ceil, to_real, smin, smax,
                     realval)

REPO = os.environ.get("PYVC_REPO", "/repo")


# ---------------------------------------------------------------------------
# source handling
# ---------------------------------------------------------------------------

_SRC_CACHE = {}


def load_module_ast(relpath):
    path = os.path.join(REPO, relpath)
    key = path
    if key not in _SRC_CACHE:
        with open(path) as f:
            src = f.read()
        _SRC_CACHE[key] = (src, ast.parse(src, filename=path))
    return _SRC_CACHE[key]


def find_function(relpath, qualname):
    """Return the FunctionDef for `qualname` ('f', 'Class.method', 'f.inner')."""
    src, tree = load_module_ast(relpath)
    node = tree
    for part in qualname.split('.'):
        found = None
        for child in ast.walk(node) if isinstance(node, ast.FunctionDef) else node.body:
            if isinstance(child, (ast.FunctionDef, ast.ClassDef)) and child.name == part and child is not node:
                found = child
                break
        if found is None:
            raise Undecided("function %s not found in %s" % (qualname, relpath))
        node = found
    return node


def segment(relpath, node):
    src, _ = load_module_ast(relpath)
    return ast.get_source_segment(src, node) or ""


def sha_of(text):
    return hashlib.sha256(text.encode()).hexdigest()


def module_constant(relpath, name):
    """Value expression node of a module-level `name = <expr>` assignment."""
    _, tree = load_module_ast(relpath)
    for st in tree.body:
        if isinstance(st, ast.Assign):
            for t in st.targets:
                if isinstance(t, ast.Name) and t.id == name:
                    return st.value
    raise Undecided("module constant %s not found in %s" % (name, relpath))


def module_imports(relpath):
    """names bound by import statements at module level -> True"""
    _, tree = load_module_ast(relpath)
    out = set()
    for st in tree.body:
        if isinstance(st, ast.Import):
            for a in st.names:
                out.add(a.asname or a.name.split('.')[0])
        elif isinstance(st, ast.ImportFrom):
            for a in st.names:
                out.add(a.asname or a.name)
    return out


def external_names(relpath, node):
    """dotted names rooted at an imported module/object that the function evaluates"""
    roots = module_imports(relpath)
    local = set()
    for n in ast.walk(node):
        if isinstance(n, ast.Name) and isinstance(n.ctx, ast.Store):
            local.add(n.id)
        elif isinstance(n, ast.arg):
            local.add(n.arg)
    out = set()

    def chain(n):
        parts = []
        while isinstance(n, ast.Attribute):
            parts.append(n.attr)
            n = n.value
        if isinstance(n, ast.Name) and n.id in roots and n.id not in local:
            return ".".join([n.id] + parts[::-1])
        return None
    seen_inner = set()
    for n in ast.walk(node):
        if isinstance(n, ast.Attribute) and id(n) not in seen_inner:
            c = chain(n)
            if c:
                out.add(c)
            v = n.value
            while isinstance(v, ast.Attribute):
                seen_inner.add(id(v))
                v = v.value
    return sorted(out)


def find_nodes(root, pred):
    return [n for n in ast.walk(root) if pred(n)]


def unparse(n):
    return ast.unparse(n)


# ---------------------------------------------------------------------------
# control flow signals
# ---------------------------------------------------------------------------

class _Return(Exception):
    def __init__(self, value):
        self.value = value


class _Break(Exception):
    pass


class _Continue(Exception):
    pass


class PathEnd(Exception):
    """stop this path (infeasible, or cut after an inv-preserve check)"""


class ExcValue:
    def __init__(self, tname, args=()):
        self.tname = tname
        self.args = tuple(args)

    def __repr__(self):
        return "%s%r" % (self.tname, self.args)


class PyRaise(Exception):
    def __init__(self, exc):
        self.exc = exc


EXC_PARENTS = {
    'AegeanError': 'Exception', 'AegeanNaNModelError': 'AegeanError',
    'ValueError': 'Exception', 'TypeError': 'Exception', 'KeyError': 'LookupError',
    'IndexError': 'LookupError', 'LookupError': 'Exception',
    'AttributeError': 'Exception', 'AssertionError': 'Exception',
    'ZeroDivisionError': 'ArithmeticError', 'ArithmeticError': 'Exception',
    'LinAlgError': 'ValueError', 'UnboundLocalError': 'NameError',
    'NameError': 'Exception', 'Exception': 'BaseException',
    'BrokenBarrierError': 'RuntimeError', 'RuntimeError': 'Exception',
    'OSError': 'Exception', 'IOError': 'OSError', 'FileNotFoundError': 'OSError',
    'NotImplementedError': 'RuntimeError', 'StopIteration': 'Exception',
    'KeyboardInterrupt': 'BaseException',
}


def exc_isa(t, parent):
    while t is not None:
        if t == parent:
            return True
        t = EXC_PARENTS.get(t)
    return False


# ---------------------------------------------------------------------------
# model object protocol
# ---------------------------------------------------------------------------

class PyObj:
    """Base of model objects.  Subclasses override the hooks they support."""

    def getattr_(self, ctx, name):
        raise Undecided("%s has no modelled attribute %s" % (type(self).__name__, name))

    def setattr_(self, ctx, name, value):
        raise Undecided("%s: attribute assignment %s not modelled" % (type(self).__name__, name))

    def getitem_(self, ctx, key):
        raise Undecided("%s: subscript not modelled" % type(self).__name__)

    def setitem_(self, ctx, key, value):
        raise Undecided("%s: subscript assignment not modelled" % type(self).__name__)

    def delitem_(self, ctx, key):
        raise Undecided("%s: del subscript not modelled" % type(self).__name__)

    def call_(self, ctx, args, kwargs):
        raise Undecided("%s is not callable" % type(self).__name__)

    def iter_(self, ctx):
        raise Undecided("%s is not iterable (concretely)" % type(self).__name__)

    def contains_(self, ctx, item):
        raise Undecided("%s: 'in' not modelled" % type(self).__name__)

    def len_(self, ctx):
        raise Undecided("%s: len not modelled" % type(self).__name__)

    def truth_(self, ctx):
        return True

    def binop_(self, ctx, op, other, swapped):
        return NotImplemented

    def havoc_(self, ctx):
        pass


class Obj(PyObj):
    """plain object with a field dictionary"""

    def __init__(self, cls='object', **fields):
        self.cls = cls
        self.fields = dict(fields)
        self.havocked = False
        self.methods = {}

    def __repr__(self):
        return "<%s %s>" % (self.cls, sorted(self.fields))

    def getattr_(self, ctx, name):
        if name in self.fields:
            return self.fields[name]
        if name in self.methods:
            m = self.methods[name]
            return Model(lambda c, *a, **k: m(c, self, *a, **k), "%s.%s" % (self.cls, name))
        if self.havocked:
            v = ctx.opaque("field %s of havocked %s" % (name, self.cls))
            self.fields[name] = v
            return v
        raise PyRaise(ExcValue('AttributeError', ("%s.%s" % (self.cls, name),)))

    def setattr_(self, ctx, name, value):
        self.fields[name] = value

    def havoc_(self, ctx):
        self.fields.clear()
        self.havocked = True


class Namespace(PyObj):
    def __init__(self, name, **members):
        self.name = name
        self.members = dict(members)

    def __repr__(self):
        return "<ns %s>" % self.name

    def getattr_(self, ctx, name):
        if name in self.members:
            return self.members[name]
        ctx.session.note_unmodelled("%s.%s" % (self.name, name))
        return UnknownCallable("%s.%s" % (self.name, name))

    def setattr_(self, ctx, name, value):
        self.members[name] = value


class Model(PyObj):
    """callable model: fn(ctx, *args, **kwargs) -> value"""

    def __init__(self, fn, name=None):
        self.fn = fn
        self.name = name or getattr(fn, '__name__', 'model')

    def __repr__(self):
        return "<model %s>" % self.name

    def call_(self, ctx, args, kwargs):
        return self.fn(ctx, *args, **kwargs)


class UnknownCallable(PyObj):
    """A dependency name without a model: calling it havocs."""

    def __init__(self, name):
        self.name = name

    def getattr_(self, ctx, name):
        return UnknownCallable(self.name + "." + name)

    def setattr_(self, ctx, name, value):
        ctx.abstracted("attribute assignment on unmodelled object %s.%s" % (self.name, name))

    def call_(self, ctx, args, kwargs):
        ctx.abstracted("call %s(...)" % self.name)
        for a in list(args) + list(kwargs.values()):
            ctx.havoc_value(a)
        return ctx.opaque("result of " + self.name)


class ExcClass(PyObj):
    def __init__(self, tname):
        self.tname = tname

    def call_(self, ctx, args, kwargs):
        return ExcValue(self.tname, args)

    def __repr__(self):
        return "<exc %s>" % self.tname


class Closure(PyObj):
    """a repo function definition + defining environment"""

    def __init__(self, node, env, relpath, qualname):
        self.node = node
        self.env = env
        self.relpath = relpath
        self.qualname = qualname

    def call_(self, ctx, args, kwargs):
        return ctx.interp.call_closure(self, args, kwargs)

    def __repr__(self):
        return "<closure %s>" % self.qualname


class ClassModel(PyObj):
    """a repo class: methods are the real FunctionDefs of the ClassDef"""

    def __init__(self, relpath, name, env):
        self.relpath, self.name, self.env = relpath, name, env
        node = find_function(relpath, name)
        if not isinstance(node, ast.ClassDef):
            raise Undecided("%s is not a class" % name)
        self.node = node
        self.methods = {}
        self.kinds = {}
        for st in node.body:
            if isinstance(st, ast.FunctionDef):
                kind = 'method'
                for d in st.decorator_list:
                    dn = d.id if isinstance(d, ast.Name) else getattr(d, 'attr', '')
                    if dn in ('staticmethod', 'classmethod'):
                        kind = dn
                self.methods[st.name] = Closure(st, env, relpath, "%s.%s" % (name, st.name))
                self.kinds[st.name] = kind

    def lookup(self, inst, name):
        if name not in self.methods:
            return None
        clo, kind = self.methods[name], self.kinds[name]
        if kind == 'staticmethod':
            return clo
        if kind == 'classmethod':
            return BoundMethod(self, clo)
        return BoundMethod(inst, clo)

    def getattr_(self, ctx, name):
        m = self.lookup(None, name)
        if m is None:
            raise PyRaise(ExcValue('AttributeError', (name,)))
        if self.kinds[name] == 'method':
            return self.methods[name]
        return m

    def call_(self, ctx, args, kwargs):
        inst = Instance(self)
        if '__init__' in self.methods:
            self.methods['__init__'].call_(ctx, [inst] + list(args), kwargs)
        return inst


class Instance(Obj):
    def __init__(self, cls, **fields):
        Obj.__init__(self, cls.name, **fields)
        self.klass = cls

    def getattr_(self, ctx, name):
        if name in self.fields:
            return self.fields[name]
        m = self.klass.lookup(self, name)
        if m is not None:
            return m
        return Obj.getattr_(self, ctx, name)


class BoundMethod(PyObj):
    def __init__(self, selfv, closure):
        self.selfv = selfv
        self.closure = closure

    def call_(self, ctx, args, kwargs):
        return self.closure.call_(ctx, [self.selfv] + list(args), kwargs)


class SymDict(PyObj):
    """Mapping with concrete (string) keys whose presence may be symbolic.
    Models FITS headers and plain dicts.  `present[k]` is True/False/Sym-bool."""

    def __init__(self, name, items=None, maybe=None, strict=True):
        self.name = name
        self.vals = dict(items or {})
        self.present = {k: True for k in self.vals}
        for k, (p, v) in (maybe or {}).items():
            self.vals[k] = v
            self.present[k] = p
        self.strict = strict
        self.history = []

    def _key(self, ctx, key):
        if not isinstance(key, (str, int)):
            raise Undecided("SymDict %s: symbolic key %r" % (self.name, key))
        return key

    def contains_(self, ctx, key):
        key = self._key(ctx, key)
        if key not in self.present:
            if self.strict:
                return False
            p = ctx.fresh_bool("has_%s_%s" % (self.name, key))
            self.present[key] = p
            self.vals[key] = ctx.opaque("%s[%r]" % (self.name, key))
        return self.present[key]

    def getitem_(self, ctx, key):
        key = self._key(ctx, key)
        p = self.contains_(ctx, key)
        if not ctx.truth(p):
            raise PyRaise(ExcValue('KeyError', (key,)))
        return self.vals[key]

    def setitem_(self, ctx, key, value):
        key = self._key(ctx, key)
        if isinstance(value, tuple) and len(value) == 2 and isinstance(value[1], str):
            value = value[0]          # FITS (value, comment) card
        self.vals[key] = value
        self.present[key] = True
        self.history.append(('set', key))

    def delitem_(self, ctx, key):
        key = self._key(ctx, key)
        p = self.contains_(ctx, key)
        if not ctx.truth(p):
            raise PyRaise(ExcValue('KeyError', (key,)))
        self.present[key] = False
        self.history.append(('del', key))

    def getattr_(self, ctx, name):
        if name == 'get':
            def get(c, key, default=None):
                if c.truth(self.contains_(c, key)):
                    return self.vals[key]
                return default
            return Model(get, 'dict.get')
        if name == 'keys':
            def keys(c):
                out = []
                for k, p in self.present.items():
                    if c.truth(p):
                        out.append(k)
                return out
            return Model(keys, 'dict.keys')
        if name in ('copy',):
            return Model(lambda c: self.clone(), 'dict.copy')
        raise Undecided("SymDict.%s not modelled" % name)

    def clone(self):
        d = SymDict(self.name + "'", strict=self.strict)
        d.vals = dict(self.vals)
        d.present = dict(self.present)
        return d

    def havoc_(self, ctx):
        for k in list(self.vals):
            self.vals[k] = ctx.opaque("%s[%r] after unknown call" % (self.name, k))

    def fingerprint_(self):
        return ('symdict', len(self.history)), []


# ---------------------------------------------------------------------------
# Session / Ctx
# ---------------------------------------------------------------------------

class Obligation:
    __slots__ = ("name", "kind", "label", "hyps", "goal", "target", "path", "line", "expect", "meta")

    def __init__(self, name, kind, label, hyps, goal, target, path, line, expect, meta=None):
        self.name, self.kind, self.label = name, kind, label
        self.hyps, self.goal, self.target = hyps, goal, target
        self.path, self.line, self.expect = path, line, expect
        self.meta = meta or {}


class Session:
    def __init__(self, prop):
        self.prop = prop
        self.obligations = []
        self.functions = {}      # qualname -> info dict
        self.unmodelled = set()
        self.assumptions = []    # free text (trusted base, semantic assumptions)
        self.trusted = []
        self.undecided = []      # structural problems
        self.notes = []
        self.t0 = time.time()
        self.npaths = 0

    def note_unmodelled(self, name):
        self.unmodelled.add(name)

    def assume_text(self, text):
        if text not in self.assumptions:
            self.assumptions.append(text)

    def trust(self, text):
        if text not in self.trusted:
            self.trusted.append(text)

    def register_function(self, relpath, qualname, node, mode="whole", dropped=None):
        text = segment(relpath, node)
        key = "%s:%s" % (relpath, qualname)
        info = self.functions.setdefault(key, {
            "file": relpath, "qualname": qualname, "mode": mode,
            "lines": [node.lineno, getattr(node, 'end_lineno', node.lineno)],
            "sha256": sha_of(text), "dropped": [], "abstracted": [], "inlined": [],
            "external_names": external_names(relpath, node),
        })
        return info


def term_symbols(e, acc=None, seen=None):
    """uninterpreted constants and applications (by term) occurring in e"""
    acc = set() if acc is None else acc
    seen = set() if seen is None else seen
    stack = [e]
    while stack:
        t = stack.pop()
        i = t.get_id()
        if i in seen:
            continue
        seen.add(i)
        if z3.is_quantifier(t):
            stack.append(t.body())
            continue
        if z3.is_app(t):
            if t.decl().kind() == z3.Z3_OP_UNINTERPRETED:
                if not (t.num_args() == 0 and t.decl().name() == 'pi_c'):
                    acc.add(t.get_id() if t.num_args() else t.decl().name())
            stack.extend(t.children())
    return acc


def focus_hyps(hyps, goal, level):
    """level 1: hypotheses all of whose symbols occur in the goal;
    level n>1: n-1 rounds of adding hypotheses that share a symbol with the growing set"""
    syms = term_symbols(goal)
    hs = [(h, term_symbols(h)) for h in hyps]
    if level == 1:
        return [h for h, ss in hs if ss <= syms]
    chosen = [False] * len(hs)
    for _ in range(level - 1):
        new = set()
        for i, (h, ss) in enumerate(hs):
            if not chosen[i] and (ss & syms or not ss):
                chosen[i] = True
                new |= ss
        if not new - syms:
            break
        syms |= new
    return [h for (h, _), c in zip(hs, chosen) if c]


class Ctx:
    """One target exploration.  See module docstring."""

    def __init__(self, session, target, feasibility_timeout_ms=2000):
        self.session = session
        self.target = target
        self.interp = Interp(self)
        self.worklist = [[]]
        self.script = []
        self.pos = 0
        self.pc = []
        self.counter = {}
        self.path_id = 0
        self.cur_line = 0
        self.info = None
        self.fz = feasibility_timeout_ms
        self._solver = None
        self.axioms = []       # global hypotheses for every obligation of this ctx
        self._seen = set()
        self._axkeys = set()
        self.max_paths = 4000
        self.ghost = {}
        self.ufacts = []       # closures term -> formula: universally valid facts, instantiated by oblige(at=...)

    # ---- path enumeration ------------------------------------------------
    def explore(self, fn):
        """Run fn(ctx) once per feasible path."""
        n = 0
        while self.worklist:
            self.script = self.worklist.pop()
            self.pos = 0
            self.pc = []
            self.counter = {}
            self.ghost = {}
            self.ufacts = []
            self.path_id = n
            n += 1
            if n > self.max_paths:
                raise Undecided("%s: more than %d paths" % (self.target, self.max_paths))
            try:
                fn(self)
            except PathEnd:
                pass
            except (Undecided, PyRaise, _Return, _Break, _Continue):
                raise
            except (TypeError, AttributeError, ValueError, KeyError, IndexError, z3.Z3Exception, RecursionError) as e:
                # the code under contract produced a value shape the contract did not anticipate
                import traceback
                tb = traceback.extract_tb(e.__traceback__)
                where = "%s:%d" % (tb[-1].filename.split('/')[-1], tb[-1].lineno) if tb else "?"
                raise Undecided("contract does not apply to the code shape (%s: %s at %s)" % (type(e).__name__, e, where))
        self.session.npaths += n
        return n

    def _feasible(self, extra):
        s = z3.Solver()
        s.set("timeout", self.fz)
        for a in self.axioms:
            s.add(a)
        for p in self.pc:
            s.add(p)
        s.add(extra)
        r = s.check()
        return r != z3.unsat

    def branch(self, cond):
        """truth value of `cond` on this path"""
        if isinstance(cond, bool):
            return cond
        if isinstance(cond, Sym):
            e = cond.e
            if not z3.is_bool(e):
                e = (e != 0)
        elif z3.is_expr(cond):
            e = cond
        else:
            raise Undecided("branch on %r" % (cond,))
        e = z3.simplify(e)
        if z3.is_true(e):
            return True
        if z3.is_false(e):
            return False
        if self.pos < len(self.script):
            d = self.script[self.pos]
        else:
            ft = self._feasible(e)
            ff = self._feasible(z3.Not(e))
            if ft and ff:
                self.worklist.append(self.script[:self.pos] + [False])
                d = True
            elif ft:
                d = True
            elif ff:
                d = False
            else:
                raise PathEnd()
            self.script = self.script[:self.pos] + [d]
        self.pos += 1
        self.pc.append(e if d else z3.Not(e))
        return d

    def choice(self, n, what=""):
        """free n-way choice (used at loop heads); returns 0..n-1"""
        k = 0
        while k < n - 1:
            b = self.free_branch()
            if b:
                return k
            k += 1
        return k

    def free_branch(self):
        if self.pos < len(self.script):
            d = self.script[self.pos]
        else:
            self.worklist.append(self.script[:self.pos] + [False])
            d = True
            self.script = self.script[:self.pos] + [d]
        self.pos += 1
        return d

    def truth(self, v):
        """Python truthiness of a value on this path."""
        if isinstance(v, bool):
            return v
        if v is None:
            return False
        if isinstance(v, NaNType):
            return True
        if isinstance(v, (int, float, str, tuple, list, dict, Fraction, set, frozenset)):
            return bool(v)
        if isinstance(v, Sym):
            return self.branch(v)
        if isinstance(v, Opaque):
            self.abstracted("branch on unmodelled value (%s)" % v.why)
            return self.free_branch()
        if isinstance(v, PyObj):
            r = v.truth_(self)
            if isinstance(r, bool):
                return r
            return self.truth(r)
        return bool(v)

    # ---- symbols -----------------------------------------------------------
    def _fresh(self, base):
        k = self.counter.get(base, 0)
        self.counter[base] = k + 1
        return base if k == 0 else "%s!%d" % (base, k)

    def fresh_int(self, base):
        return Sym(z3.Int(self._fresh(base)))

    def fresh_real(self, base):
        return Sym(z3.Real(self._fresh(base)), True)

    def fresh_bool(self, base):
        return Sym(z3.Bool(self._fresh(base)))

    def opaque(self, why):
        self.abstracted("value: " + why)
        return Opaque(why)

    def abstracted(self, what):
        if self.info is not None:
            item = [self.cur_line, what]
            if item not in self.info["abstracted"]:
                self.info["abstracted"].append(item)

    def havoc_value(self, v, _depth=0):
        if isinstance(v, PyObj):
            v.havoc_(self)
        elif isinstance(v, list):
            for i in range(len(v)):
                if isinstance(v[i], (PyObj, list, dict)):
                    self.havoc_value(v[i], _depth + 1)
                else:
                    v[i] = Opaque("element after unknown call")
        elif isinstance(v, dict):
            for k in v:
                v[k] = Opaque("item after unknown call")

    # ---- hypotheses & obligations -------------------------------------------
    def axiom_once(self, key, f):
        if key not in self._axkeys:
            self._axkeys.add(key)
            self.axioms.append(f)

    def assume(self, f):
        if f is True:
            return
        if f is False:
            raise PathEnd()
        e = Sym.lift(f)
        self.pc.append(e)

    def oblige(self, kind, label, goal, expect="valid", meta=None, trig=None, focus=None, timeout_ms=None,
               nohyps=False, ring=False, at=None):
        """record obligation `<target>.<kind>.<label>`: hyps => goal

        trig : expand sin/cos applications (pyvc/trig.py) in hypotheses and goal
        focus: keep only hypotheses connected to the goal through shared symbols
               within `focus` steps (dropping hypotheses is always sound)"""
        name = "%s.%s.%s" % (self.target, kind, label)
        if goal is True:
            g = z3.BoolVal(True)
        elif goal is False:
            g = z3.BoolVal(False)
        else:
            g = Sym.lift(goal)
        hyps = [] if nohyps else list(self.axioms) + list(self.pc)
        if at and not nohyps:
            for fact in self.ufacts:
                for t in at:
                    inst = fact(t)
                    if inst is True:
                        continue
                    hyps.append(Sym.lift(inst))
        if focus:
            hyps = focus_hyps(hyps, g, focus)
        if (self.trig if trig is None else trig):
            from . import trig as _trig
            hyps, g = _trig.normalise(hyps, g)
        meta = dict(meta or {})
        if ring:
            from . import ring as _ring
            g2, nproved = _ring.prove_equalities(g)
            if nproved:
                meta['ring_proved_equalities'] = nproved
                g = g2
        if timeout_ms:
            meta['timeout_ms'] = timeout_ms
        key = (name, tuple(h.get_id() for h in hyps), g.get_id(), expect)
        if key in self._seen:
            return
        self._seen.add(key)
        self.session.obligations.append(
            Obligation(name, kind, label, hyps, g, self.target, self.path_id,
                       self.cur_line, expect, meta))

    def lemma(self, label, formula):
        """arithmetic lemma: proved on its own (no hypotheses), then available as a hypothesis"""
        self.oblige("lemma", label, formula, nohyps=True)
        self.assume(formula)

    def cover(self, label, extra=True):
        """reachability guard: hyps ∧ extra must be satisfiable"""
        self.oblige("cover", label, Not(extra) if extra is not True else False, expect="sat")


# ---------------------------------------------------------------------------
# Interpreter
# ---------------------------------------------------------------------------

def heap_fingerprint(env, extra_roots=()):
    """identity/version summary of every mutable object reachable from the local variables:
    used to check that a cut loop body writes only what its contract declares"""
    out = {}
    keep = []
    stack = list(env.vars.values()) + list(extra_roots)
    while stack:
        o = stack.pop()
        i = id(o)
        if i in out:
            continue
        if isinstance(o, dict):
            out[i] = ('dict', tuple(sorted((repr(k), id(v)) for k, v in o.items())))
            stack.extend(o.values())
        elif isinstance(o, list):
            out[i] = ('list', tuple(id(v) for v in o))
            stack.extend(o)
        elif isinstance(o, tuple):
            stack.extend(o)
            continue
        elif isinstance(o, Obj):
            out[i] = ('obj', tuple(sorted((k, id(v)) for k, v in o.fields.items())), o.havocked)
            stack.extend(o.fields.values())
        elif isinstance(o, PyObj) and hasattr(o, 'fingerprint_'):
            fp, children = o.fingerprint_()
            out[i] = fp
            stack.extend(children)
        else:
            continue
        keep.append(o)
    return out, keep


def frame_violations(before, after, allowed):
    ok_ids = set(id(o) for o in allowed)
    bad = []
    for i, fp in before[0].items():
        if i in ok_ids:
            continue
        if i in after[0] and after[0][i] != fp:
            bad.append(i)
    return bad


class LoopSpec:
    """Contract of a loop.

    inv(ctx, env, k) -> list of (label, formula): must hold before iteration k
       (k = number of completed iterations; for `for x in range(a,b,s)` the loop
        variable at iteration k is a+k*s).
    havoc(ctx, env)  -> havoc everything the body may modify (locals assigned in
       the body are havocked automatically with `fresh(name)` given by
       `types[name]` in {'int','real','bool', callable}).
    """

    def __init__(self, inv, types=None, havoc=None, decreases=None, label=None, facts=None, modifies=None):
        self.modifies = modifies    # modifies(ctx, env) -> heap objects the body may write (frame obligation)
        self.after_body = None      # after_body(ctx, env, k): extra obligations at the end of the generic iteration
        self.before_body = None     # before_body(ctx, env, k): ghost set-up at the start of the generic iteration
        self.inv = inv
        self.facts = facts      # facts(ctx, env, k) -> ghost-definition instances assumed at iteration k / exit
        self.types = types or {}
        self.havoc = havoc
        self.decreases = decreases
        self.label = label


def _inv3(items):
    """invariant items are (label, formula) or (label, formula, oblige-options)"""
    return [(it[0], it[1], it[2] if len(it) > 2 else {}) for it in items]


def assigned_names(stmts):
    out = []

    def tgt(t):
        if isinstance(t, ast.Name):
            if t.id not in out:
                out.append(t.id)
        elif isinstance(t, (ast.Tuple, ast.List)):
            for e in t.elts:
                tgt(e)
        elif isinstance(t, ast.Starred):
            tgt(t.value)

    for st in stmts:
        for n in ast.walk(st):
            if isinstance(n, ast.Assign):
                for t in n.targets:
                    tgt(t)
            elif isinstance(n, (ast.AugAssign, ast.AnnAssign)):
                tgt(n.target)
            elif isinstance(n, (ast.For, ast.comprehension)):
                tgt(n.target)
            elif isinstance(n, ast.With):
                for it in n.items:
                    if it.optional_vars is not None:
                        tgt(it.optional_vars)
            elif isinstance(n, ast.NamedExpr):
                tgt(n.target)
    return out


class Env:
    def __init__(self, vars=None, parent=None):
        self.vars = vars if vars is not None else {}
        self.parent = parent

    def lookup(self, name):
        e = self
        while e is not None:
            if name in e.vars:
                return e.vars[name]
            e = e.parent
        raise KeyError(name)

    def has(self, name):
        e = self
        while e is not None:
            if name in e.vars:
                return True
            e = e.parent
        return False


LOG_NAMES = ('log', 'logging', 'logger')


def is_dropped_stmt(st):
    """statements the extraction drops (reported): docstrings, logging calls,
    del of plain names, print."""
    if isinstance(st, ast.Expr):
        v = st.value
        if isinstance(v, ast.Constant) and isinstance(v.value, str):
            return "docstring"
        if isinstance(v, ast.Call):
            f = v.func
            chain = []
            while isinstance(f, ast.Attribute):
                chain.append(f.attr)
                f = f.value
            if isinstance(f, ast.Name):
                chain.append(f.id)
            chain = chain[::-1]
            if chain and (chain[0] in LOG_NAMES or (len(chain) > 2 and chain[0] == 'self' and chain[1] in LOG_NAMES)
                          or (len(chain) > 1 and chain[0] == 'self' and chain[1] == 'log')):
                if chain[-1] in ('debug', 'info', 'warning', 'warn', 'error', 'critical', 'exception', 'log'):
                    return "logging call"
            if chain == ['print'] and not any(kw.arg == 'file' for kw in v.keywords):
                return "print"
    if isinstance(st, ast.Delete):
        if all(isinstance(t, ast.Name) for t in st.targets):
            return "del of local name"
    return None


class Interp:
    def __init__(self, ctx):
        self.ctx = ctx
        self.loops = {}         # locator text -> LoopSpec
        self.contracts = {}     # qualname -> Model   (calls to repo functions)
        self.inline = set()     # qualnames allowed to be inlined
        self.relpath = None
        self.module_env = None
        self.depth = 0
        self.stmt_hook = None   # fn(ctx, stmt, env) called before each statement

    # ---- statements ------------------------------------------------------------
    def exec_block(self, stmts, env):
        for st in stmts:
            self.exec_stmt(st, env)

    def exec_stmt(self, st, env):
        ctx = self.ctx
        ctx.cur_line = getattr(st, 'lineno', ctx.cur_line)
        why = is_dropped_stmt(st)
        if why:
            if ctx.info is not None:
                item = [st.lineno, why]
                if item not in ctx.info["dropped"]:
                    ctx.info["dropped"].append(item)
            return
        if self.stmt_hook is not None:
            self.stmt_hook(ctx, st, env)
        m = getattr(self, 'st_' + type(st).__name__, None)
        if m is None:
            raise Undecided("statement %s at line %d outside subset" % (type(st).__name__, st.lineno))
        m(st, env)

    def st_Expr(self, st, env):
        self.eval(st.value, env)

    def st_Pass(self, st, env):
        pass

    def st_Import(self, st, env):
        for a in st.names:
            nm = a.asname or a.name.split('.')[0]
            if not env.has(nm):
                env.vars[nm] = Namespace(nm)

    def st_ImportFrom(self, st, env):
        for a in st.names:
            nm = a.asname or a.name
            if not env.has(nm):
                env.vars[nm] = UnknownCallable(nm)

    def st_Global(self, st, env):
        pass

    def st_Assert(self, st, env):
        v = self.eval(st.test, env)
        if not self.ctx.truth(v):
            raise PyRaise(ExcValue('AssertionError'))

    def st_Delete(self, st, env):
        for t in st.targets:
            if isinstance(t, ast.Subscript):
                o = self.eval(t.value, env)
                k = self.eval_index(t.slice, env)
                self.delitem(o, k)
            elif isinstance(t, ast.Name):
                env.vars.pop(t.id, None)
            else:
                raise Undecided("del target")

    def st_Return(self, st, env):
        raise _Return(self.eval(st.value, env) if st.value is not None else None)

    def st_Break(self, st, env):
        raise _Break()

    def st_Continue(self, st, env):
        raise _Continue()

    def st_Raise(self, st, env):
        if st.exc is None:
            exc = env.lookup('__current_exc__') if env.has('__current_exc__') else ExcValue('Exception')
            raise PyRaise(exc)
        v = self.eval(st.exc, env)
        if isinstance(v, ExcClass):
            v = ExcValue(v.tname)
        if not isinstance(v, ExcValue):
            v = ExcValue('Exception', (v,))
        raise PyRaise(v)

    def st_FunctionDef(self, st, env):
        clo = Closure(st, env, self.relpath, st.name)
        clo.local = True          # nested function: part of the enclosing function's body
        env.vars[st.name] = clo

    def st_Assign(self, st, env):
        v = self.eval(st.value, env)
        for t in st.targets:
            self.assign(t, v, env)

    def st_AnnAssign(self, st, env):
        if st.value is not None:
            self.assign(st.target, self.eval(st.value, env), env)

    def st_AugAssign(self, st, env):
        t = st.target
        if isinstance(t, ast.Name):
            cur = self.eval(t, env)
            new = self.binop(st.op, cur, self.eval(st.value, env), inplace=True)
            env_set(env, t.id, new)
        elif isinstance(t, ast.Attribute):
            o = self.eval(t.value, env)
            cur = self.getattr(o, t.attr)
            new = self.binop(st.op, cur, self.eval(st.value, env), inplace=True)
            self.setattr(o, t.attr, new)
        elif isinstance(t, ast.Subscript):
            o = self.eval(t.value, env)
            k = self.eval_index(t.slice, env)
            cur = self.getitem(o, k)
            new = self.binop(st.op, cur, self.eval(st.value, env), inplace=True)
            self.setitem(o, k, new)
        else:
            raise Undecided("augassign target")

    def assign(self, t, v, env):
        if isinstance(t, ast.Name):
            env_set(env, t.id, v)
        elif isinstance(t, (ast.Tuple, ast.List)):
            if isinstance(v, Opaque):
                for tt in t.elts:
                    self.assign(tt, Opaque(v.why + "[i]"), env)
                return
            items = self.iterate(v)
            if len(items) != len(t.elts):
                raise PyRaise(ExcValue('ValueError', ('unpack',)))
            for tt, vv in zip(t.elts, items):
                self.assign(tt, vv, env)
        elif isinstance(t, ast.Attribute):
            self.setattr(self.eval(t.value, env), t.attr, v)
        elif isinstance(t, ast.Subscript):
            o = self.eval(t.value, env)
            k = self.eval_index(t.slice, env)
            self.setitem(o, k, v)
        else:
            raise Undecided("assignment target %s" % type(t).__name__)

    def st_If(self, st, env):
        c = self.eval(st.test, env)
        if self.ctx.truth(c):
            self.exec_block(st.body, env)
        else:
            self.exec_block(st.orelse, env)

    def st_With(self, st, env):
        for it in st.items:
            v = self.eval(it.context_expr, env)
            if isinstance(v, PyObj) and hasattr(v, 'enter_'):
                v = v.enter_(self.ctx)
            if it.optional_vars is not None:
                self.assign(it.optional_vars, v, env)
        self.exec_block(st.body, env)

    def st_Try(self, st, env):
        def run_finally():
            if st.finalbody:
                self.exec_block(st.finalbody, env)
        try:
            try:
                self.exec_block(st.body, env)
            except PyRaise as pr:
                handled = False
                for h in st.handlers:
                    if self.handler_matches(h, pr.exc, env):
                        handled = True
                        if h.name:
                            env.vars[h.name] = pr.exc
                        env.vars['__current_exc__'] = pr.exc
                        self.exec_block(h.body, env)
                        break
                if not handled:
                    raise
            else:
                self.exec_block(st.orelse, env)
        except (PyRaise, _Return, _Break, _Continue):
            run_finally()
            raise
        run_finally()

    def handler_matches(self, h, exc, env):
        if h.type is None:
            return True
        types = h.type.elts if isinstance(h.type, ast.Tuple) else [h.type]
        for t in types:
            name = t.attr if isinstance(t, ast.Attribute) else getattr(t, 'id', None)
            if name is None:
                raise Undecided("except clause type")
            if exc_isa(exc.tname, name):
                return True
            if exc.tname == '*unknown*':
                # exception of unknown type from an abstracted call: may or may not match
                if self.ctx.free_branch():
                    return True
        return False

    # loops -------------------------------------------------------------------
    def loop_key(self, st):
        if isinstance(st, ast.For):
            return "for %s in %s" % (unparse(st.target), unparse(st.iter))
        return "while %s" % unparse(st.test)

    def find_loopspec(self, st):
        k = self.loop_key(st)
        if k in self.loops:
            return self.loops[k]
        for pat, spec in self.loops.items():
            if pat.endswith('*') and k.startswith(pat[:-1]):
                return spec
        return None

    def st_For(self, st, env):
        ctx = self.ctx
        itv = self.eval(st.iter, env)
        spec = self.find_loopspec(st)
        if isinstance(itv, SymRange):
            if spec is None:
                conc = itv.concrete()
                if conc is None:
                    raise Undecided("loop '%s' (line %d) over a symbolic range needs an invariant"
                                    % (self.loop_key(st), st.lineno))
                items = conc
            else:
                return self.cut_loop_range(st, env, itv, spec)
        elif isinstance(itv, PyObj) and hasattr(itv, 'cut_loop_'):
            if spec is None:
                raise Undecided("loop '%s' (line %d) over %s needs an invariant"
                                % (self.loop_key(st), st.lineno, type(itv).__name__))
            return itv.cut_loop_(self, st, env, spec)
        else:
            items = self.iterate(itv)
        broke = False
        for it in items:
            self.assign(st.target, it, env)
            try:
                self.exec_block(st.body, env)
            except _Break:
                broke = True
                break
            except _Continue:
                continue
        if not broke:
            self.exec_block(st.orelse, env)

    def cut_loop_range(self, st, env, rng, spec):
        """Hoare rule for `for v in range(start, stop, step)` with symbolic bounds."""
        ctx = self.ctx
        label = spec.label or "L%d" % st.lineno
        n = rng.count(ctx)          # Sym/int number of iterations (>= 0)
        # 1. invariant holds on entry
        for lab, f, iopts in _inv3(spec.inv(ctx, env, 0)):
            ctx.oblige("inv-init", "%s.%s" % (label, lab), f, **iopts)
        mode = ctx.choice(2, "loop")
        body_names = assigned_names(st.body) + assigned_names([ast.Assign(targets=[st.target], value=ast.Constant(0))])
        self.havoc_locals(env, body_names, spec)
        if spec.havoc:
            spec.havoc(ctx, env)
        if mode == 0:
            # arbitrary iteration k
            k = ctx.fresh_int("k_" + label)
            ctx.assume(And(k >= 0, k < n))
            if spec.facts:
                for f in spec.facts(ctx, env, k):
                    ctx.assume(f)
            for lab, f, iopts in _inv3(spec.inv(ctx, env, k)):
                ctx.assume(f)
            self.assign(st.target, rng.item(k), env)
            if spec.before_body:
                spec.before_body(ctx, env, k)
            fp0 = heap_fingerprint(env)
            try:
                self.exec_block(st.body, env)
            except _Continue:
                pass
            except _Break:
                # leaves the loop from iteration k: continue after the loop
                return
            if spec.after_body:
                spec.after_body(ctx, env, k)
            allowed = spec.modifies(ctx, env) if spec.modifies else []
            ctx.oblige("frame", "%s.body_writes_only_declared_objects" % label,
                       not frame_violations(fp0, heap_fingerprint(env), allowed))
            for lab, f, iopts in _inv3(spec.inv(ctx, env, k + 1)):
                ctx.oblige("inv-preserve", "%s.%s" % (label, lab), f, **iopts)
            raise PathEnd()
        else:
            if spec.facts:
                for f in spec.facts(ctx, env, n):
                    ctx.assume(f)
            for lab, f, iopts in _inv3(spec.inv(ctx, env, n)):
                ctx.assume(f)
            # python leaves the loop variable at its last value (if any iteration ran)
            if isinstance(n, int) and n == 0:
                pass
            else:
                last = rng.item(n - 1)
                if ctx.branch(n > 0) if isinstance(n, Sym) else n > 0:
                    self.assign(st.target, last, env)
                else:
                    # no iteration: target keeps previous binding (or is unbound)
                    if isinstance(st.target, ast.Name):
                        prev = spec.types.get('__pre_' + st.target.id)
                        env.vars.pop(st.target.id, None) if prev is None else None
            self.exec_block(st.orelse, env)

    def havoc_locals(self, env, names, spec):
        ctx = self.ctx
        for nm in names:
            ty = spec.types.get(nm)
            if ty is None:
                if env.has(nm):
                    cur = env.lookup(nm)
                    if isinstance(cur, Sym):
                        ty = 'int' if cur.is_int else ('bool' if cur.is_bool else 'real')
                    elif isinstance(cur, bool):
                        ty = 'bool'
                    elif isinstance(cur, int):
                        ty = 'int'
                    elif isinstance(cur, float):
                        ty = 'real'
            if ty == 'int':
                env_set(env, nm, ctx.fresh_int(nm))
            elif ty == 'real':
                env_set(env, nm, ctx.fresh_real(nm))
            elif ty == 'bool':
                env_set(env, nm, ctx.fresh_bool(nm))
            elif ty == 'keep':
                pass
            elif callable(ty):
                env_set(env, nm, ty(ctx, env))
            else:
                env_set(env, nm, Opaque("local %s havocked at loop head" % nm))

    def st_While(self, st, env):
        ctx = self.ctx
        spec = self.find_loopspec(st)
        if spec is None:
            # try bounded concrete execution (only terminates if guards become concrete)
            for _ in range(10000):
                c = self.eval(st.test, env)
                if isinstance(c, (Sym, Opaque)):
                    raise Undecided("while loop at line %d needs an invariant" % st.lineno)
                if not ctx.truth(c):
                    break
                try:
                    self.exec_block(st.body, env)
                except _Break:
                    return
                except _Continue:
                    continue
            else:
                raise Undecided("while loop did not terminate concretely")
            self.exec_block(st.orelse, env)
            return
        label = spec.label or "L%d" % st.lineno
        for lab, f, iopts in _inv3(spec.inv(ctx, env, None)):
            ctx.oblige("inv-init", "%s.%s" % (label, lab), f, **iopts)
        mode = ctx.choice(2, "loop")
        self.havoc_locals(env, assigned_names(st.body), spec)
        if spec.havoc:
            spec.havoc(ctx, env)
        for lab, f, iopts in _inv3(spec.inv(ctx, env, None)):
            ctx.assume(f)
        c = self.eval(st.test, env)
        if mode == 0:
            if not ctx.truth(c):
                raise PathEnd()
            v0 = spec.decreases(ctx, env) if spec.decreases else None
            try:
                self.exec_block(st.body, env)
            except _Continue:
                pass
            except _Break:
                return
            for lab, f, iopts in _inv3(spec.inv(ctx, env, None)):
                ctx.oblige("inv-preserve", "%s.%s" % (label, lab), f, **iopts)
            if v0 is not None:
                v1 = spec.decreases(ctx, env)
                ctx.oblige("term", "%s.variant_decreases" % label, And(v0 >= 0, v1 < v0))
            raise PathEnd()
        else:
            if ctx.truth(c):
                raise PathEnd()
            self.exec_block(st.orelse, env)

    # ---- expressions -------------------------------------------------------------
    def eval(self, n, env):
        m = getattr(self, 'ev_' + type(n).__name__, None)
        if m is None:
            raise Undecided("expression %s outside subset (line %d)" % (type(n).__name__, getattr(n, 'lineno', 0)))
        return m(n, env)

    def ev_Constant(self, n, env):
        return n.value

    def ev_Name(self, n, env):
        try:
            return env.lookup(n.id)
        except KeyError:
            if n.id in BUILTINS:
                return BUILTINS[n.id]
            if n.id in EXC_PARENTS or n.id == 'BaseException':
                return ExcClass(n.id)
            if getattr(self, '_assigned_locally', None) is not None and n.id in self._assigned_locally \
                    and not (self.module_env is not None and self.module_env.has(n.id)):
                raise PyRaise(ExcValue('UnboundLocalError', (n.id,)))
            self.ctx.session.note_unmodelled(n.id)
            return UnknownCallable(n.id)

    def ev_Tuple(self, n, env):
        return tuple(self.eval_elts(n.elts, env))

    def ev_List(self, n, env):
        return list(self.eval_elts(n.elts, env))

    def eval_elts(self, elts, env):
        out = []
        for e in elts:
            if isinstance(e, ast.Starred):
                out.extend(self.iterate(self.eval(e.value, env)))
            else:
                out.append(self.eval(e, env))
        return out

    def ev_Set(self, n, env):
        raise Undecided("set display")

    def ev_Dict(self, n, env):
        d = {}
        for k, v in zip(n.keys, n.values):
            kk = self.eval(k, env)
            d[kk] = self.eval(v, env)
        return d

    def ev_JoinedStr(self, n, env):
        parts = []
        for v in n.values:
            if isinstance(v, ast.Constant):
                parts.append(str(v.value))
            else:
                x = self.eval(v.value, env)
                parts.append(x)
        if all(isinstance(p, str) for p in parts):
            return "".join(parts)
        return StrFormat("{}" * len(parts), parts, {})

    def ev_Attribute(self, n, env):
        o = self.eval(n.value, env)
        return self.getattr(o, n.attr)

    def ev_Subscript(self, n, env):
        o = self.eval(n.value, env)
        k = self.eval_index(n.slice, env)
        return self.getitem(o, k)

    def eval_index(self, s, env):
        if isinstance(s, ast.Slice):
            return slice(self.eval(s.lower, env) if s.lower else None,
                         self.eval(s.upper, env) if s.upper else None,
                         self.eval(s.step, env) if s.step else None)
        if isinstance(s, ast.Tuple):
            return tuple(self.eval_index(e, env) for e in s.elts)
        return self.eval(s, env)

    def ev_Slice(self, n, env):
        return self.eval_index(n, env)

    def ev_UnaryOp(self, n, env):
        v = self.eval(n.operand, env)
        if isinstance(n.op, ast.Not):
            if isinstance(v, Sym):
                return Not(v) if v.is_bool else (v == 0)
            return not self.ctx.truth(v)
        if isinstance(n.op, ast.USub):
            if isinstance(v, PyObj):
                r = v.binop_(self.ctx, 'neg', None, False)
                if r is not NotImplemented:
                    return r
            return -v
        if isinstance(n.op, ast.UAdd):
            return v
        if isinstance(n.op, ast.Invert):
            if isinstance(v, PyObj):
                r = v.binop_(self.ctx, 'invert', None, False)
                if r is not NotImplemented:
                    return r
            return ~v
        raise Undecided("unary op")

    def ev_BinOp(self, n, env):
        a = self.eval(n.left, env)
        b = self.eval(n.right, env)
        return self.binop(n.op, a, b)

    OPS = {ast.Add: 'add', ast.Sub: 'sub', ast.Mult: 'mul', ast.Div: 'truediv',
           ast.FloorDiv: 'floordiv', ast.Mod: 'mod', ast.Pow: 'pow',
           ast.BitAnd: 'and', ast.BitOr: 'or', ast.BitXor: 'xor',
           ast.LShift: 'lshift', ast.RShift: 'rshift', ast.MatMult: 'matmul'}

    def binop(self, op, a, b, inplace=False):
        import operator
        name = self.OPS[type(op)]
        ctx = self.ctx
        if isinstance(a, PyObj):
            r = a.binop_(ctx, ('i' if inplace else '') + name, b, False)
            if r is not NotImplemented:
                return r
        if isinstance(b, PyObj):
            r = b.binop_(ctx, name, a, True)
            if r is not NotImplemented:
                return r
        if isinstance(a, PyObj) or isinstance(b, PyObj):
            if isinstance(a, StrFormat) or isinstance(b, StrFormat):
                return StrFormat("{}{}", [a, b], {})
            raise Undecided("binary %s on %s, %s" % (name, type(a).__name__, type(b).__name__))
        if name == 'mod' and isinstance(a, str):
            if isinstance(b, tuple):
                args = list(b)
            else:
                args = [b]
            if all(isinstance(x, (int, float, str)) for x in args):
                return a % tuple(args)
            return StrFormat(a, args, {}, percent=True)
        if name == 'mul' and isinstance(a, list) and isinstance(b, Sym) and b.is_int and len(a) == 1:
            el = a[0]
            nn = ite(b > 0, b, 0)
            return SymList("repeat", nn, lambda j: el)
        if name == 'add' and isinstance(a, str) and not isinstance(b, str):
            return StrFormat("{}{}", [a, b], {})
        if name == 'add' and isinstance(b, str) and not isinstance(a, str):
            return StrFormat("{}{}", [a, b], {})
        if name in ('truediv', 'floordiv', 'mod'):
            if ctx.check_div:
                ctx.oblige("safe", "divisor_nonzero.L%d" % ctx.cur_line, (b != 0) if isinstance(b, Sym) else (b != 0))
            if not isinstance(b, (Sym, Opaque, NaNType)) and b == 0:
                if isinstance(a, (int,)) and isinstance(b, int) or name != 'truediv':
                    raise PyRaise(ExcValue('ZeroDivisionError'))
                raise PyRaise(ExcValue('ZeroDivisionError'))
        if name == 'truediv' and isinstance(a, int) and isinstance(b, int):
            return Fraction(int(a), int(b))
        if name == 'pow' and isinstance(b, (float, Fraction)) and b == 0.5 and isinstance(a, Sym):
            return MODELS_SQRT(ctx, a)
        if isinstance(a, float) and isinstance(b, (Sym,)):
            a = Fraction(repr(a))
        if isinstance(b, float) and isinstance(a, (Sym,)):
            b = Fraction(repr(b))
        if isinstance(a, Fraction) and isinstance(b, float):
            b = Fraction(repr(b))
        if isinstance(b, Fraction) and isinstance(a, float):
            a = Fraction(repr(a))
        f = getattr(operator, {'and': 'and_', 'or': 'or_'}.get(name, name))
        try:
            return f(a, b)
        except ZeroDivisionError:
            raise PyRaise(ExcValue('ZeroDivisionError'))
        except TypeError as e:
            raise PyRaise(ExcValue('TypeError', (str(e),)))

    def ev_BoolOp(self, n, env):
        # short-circuit evaluation; symbolic operands decided by branching only
        # when the result is used as a value of non-bool kind, otherwise merged.
        is_and = isinstance(n.op, ast.And)
        vals = []
        for i, e in enumerate(n.values):
            if vals and any(isinstance(x, ast.Subscript) and
                            not any(isinstance(c_, ast.Constant) and isinstance(c_.value, str) for c_ in ast.walk(x.slice))
                            for x in ast.walk(e)):
                # a partial operation (indexing) guarded by the earlier operands: decide them by branching, so that the
                # operand is evaluated -- and its index obligations generated -- only where python would evaluate it
                prev = And(*vals) if is_and else Or(*vals)
                if self.ctx.truth(prev) != is_and:
                    return not is_and
                vals = []
            v = self.eval(e, env)
            last = (i == len(n.values) - 1)
            if isinstance(v, Sym) and v.is_bool:
                vals.append(v)
                continue
            if last and not vals:
                return v
            t = self.ctx.truth(v)
            if is_and and not t:
                if vals:
                    # (sym and ... and False-ish)  -> falsy value
                    return v if not vals else (False if isinstance(v, bool) else v)
                return v
            if (not is_and) and t:
                if vals:
                    # earlier symbolic operands may already be true
                    return Or(*(vals + [True])) if isinstance(v, bool) else self._merge_or(vals, v)
                return v
            if last:
                if vals:
                    if isinstance(v, bool):
                        vals.append(v)
                    else:
                        raise Undecided("mixed symbolic/non-bool operands in and/or")
        if not vals:
            return v
        return And(*vals) if is_and else Or(*vals)

    def _merge_or(self, vals, v):
        raise Undecided("or with symbolic and non-bool operands")

    def ev_Compare(self, n, env):
        left = self.eval(n.left, env)
        res = []
        for op, rn in zip(n.ops, n.comparators):
            right = self.eval(rn, env)
            res.append(self.compare(op, left, right))
            left = right
        if len(res) == 1:
            return res[0]
        return And(*res) if all(isinstance(r, (bool, Sym)) for r in res) else Opaque("chained compare")

    def compare(self, op, a, b):
        ctx = self.ctx
        if isinstance(op, (ast.Is, ast.IsNot)):
            if b is None or a is None:
                r = (a is None) == (b is None) and (a is None)
                if isinstance(a, Opaque) or isinstance(b, Opaque):
                    return Opaque("is None on unmodelled value")
                r = (a is None and b is None)
            elif isinstance(a, bool) or isinstance(b, bool):
                if isinstance(a, Sym) or isinstance(b, Sym):
                    r = (a == b)
                else:
                    r = a is b
            elif (isinstance(a, Opaque) or isinstance(b, Opaque)) and a is not b:
                # an unmodelled value may or may not be this very object
                return Opaque("identity of an unmodelled value")
            else:
                r = a is b
            if isinstance(op, ast.IsNot):
                return Not(r) if isinstance(r, Sym) else (not r)
            return r
        if isinstance(op, (ast.In, ast.NotIn)):
            r = self.contains(b, a)
            if isinstance(op, ast.NotIn):
                return Not(r) if isinstance(r, Sym) else (r if isinstance(r, Opaque) else not r)
            return r
        if isinstance(a, PyObj):
            r = a.binop_(ctx, type(op).__name__, b, False)
            if r is not NotImplemented:
                return r
        if isinstance(b, PyObj):
            r = b.binop_(ctx, type(op).__name__, a, True)
            if r is not NotImplemented:
                return r
        if isinstance(a, float) and isinstance(b, Sym):
            a = Fraction(repr(a))
        if isinstance(b, float) and isinstance(a, Sym):
            b = Fraction(repr(b))
        if isinstance(op, ast.Eq):
            return a == b
        if isinstance(op, ast.NotEq):
            return a != b
        try:
            if isinstance(op, ast.Lt):
                return a < b
            if isinstance(op, ast.LtE):
                return a <= b
            if isinstance(op, ast.Gt):
                return a > b
            if isinstance(op, ast.GtE):
                return a >= b
        except TypeError as e:
            raise PyRaise(ExcValue('TypeError', (str(e),)))
        raise Undecided("comparison")

    def contains(self, container, item):
        ctx = self.ctx
        if isinstance(container, PyObj):
            return container.contains_(ctx, item)
        if isinstance(container, Opaque):
            return Opaque("membership in unmodelled container")
        if isinstance(container, (list, tuple)):
            res = []
            for x in container:
                if isinstance(x, (Sym,)) or isinstance(item, Sym):
                    r = (x == item)
                    if isinstance(r, bool):
                        if r:
                            return True
                        continue
                    res.append(r)
                else:
                    if x == item:
                        return True if not res else Or(*(res + [True]))
            return Or(*res) if res else False
        if isinstance(container, (dict, str, set, frozenset)):
            if isinstance(item, (Sym, Opaque)):
                raise Undecided("symbolic key membership in concrete dict")
            return item in container
        raise Undecided("membership in %r" % type(container).__name__)

    def ev_IfExp(self, n, env):
        c = self.eval(n.test, env)
        if self.ctx.truth(c):
            return self.eval(n.body, env)
        return self.eval(n.orelse, env)

    def ev_Lambda(self, n, env):
        fd = ast.FunctionDef(name='<lambda>', args=n.args, body=[ast.Return(value=n.body)],
                             decorator_list=[], lineno=n.lineno, col_offset=0)
        ast.fix_missing_locations(fd)
        return Closure(fd, env, self.relpath, '<lambda>')

    def ev_ListComp(self, n, env):
        return self.comprehension(n, env)

    def ev_GeneratorExp(self, n, env):
        return self.comprehension(n, env)

    def comprehension(self, n, env):
        out = []
        local = Env({}, env)
        if len(n.generators) == 1 and not n.generators[0].ifs and isinstance(n.generators[0].target, ast.Name):
            itv = self.eval(n.generators[0].iter, local)
            if isinstance(itv, SymRange) and itv.concrete() is None:
                return LazyList(self, n.elt, n.generators[0].target.id, itv, env)
            if isinstance(itv, SeqList) and not itv.tail:
                var = n.generators[0].target.id
                interp, elt = self, n.elt
                # python builds the list now: freeze the variables the element expression reads
                snap = {}
                for nd in ast.walk(elt):
                    if isinstance(nd, ast.Name) and nd.id != var and nd.id not in snap and local.has(nd.id):
                        try:
                            snap[nd.id] = local.lookup(nd.id)
                        except Exception:
                            pass

                def item(k, itv=itv, snap=snap):
                    return interp.eval(elt, Env(dict(snap, **{var: itv.at(k)}), env))
                return SeqList(self.ctx, itv.n, item)

        def rec(gi):
            if gi == len(n.generators):
                out.append(self.eval(n.elt, local))
                return
            g = n.generators[gi]
            for it in self.iterate(self.eval(g.iter, local)):
                self.assign(g.target, it, local)
                ok = True
                for cond in g.ifs:
                    if not self.ctx.truth(self.eval(cond, local)):
                        ok = False
                        break
                if ok:
                    rec(gi + 1)
        rec(0)
        return out

    def ev_Call(self, n, env):
        f = self.eval(n.func, env)
        args = self.eval_elts(n.args, env)
        kwargs = {}
        for kw in n.keywords:
            if kw.arg is None:
                d = self.eval(kw.value, env)
                if isinstance(d, dict):
                    kwargs.update(d)
                else:
                    raise Undecided("**kwargs of non-dict")
            else:
                kwargs[kw.arg] = self.eval(kw.value, env)
        self.ctx.cur_line = n.lineno
        return self.call(f, args, kwargs)

    def call(self, f, args, kwargs):
        ctx = self.ctx
        if isinstance(f, PyObj):
            return f.call_(ctx, args, kwargs)
        if isinstance(f, Opaque):
            ctx.abstracted("call of unmodelled value (%s)" % f.why)
            for a in list(args) + list(kwargs.values()):
                ctx.havoc_value(a)
            return Opaque("result of " + f.why)
        if callable(f):
            return f(ctx, *args, **kwargs)
        raise PyRaise(ExcValue('TypeError', ('not callable',)))

    def call_closure(self, clo, args, kwargs):
        ctx = self.ctx
        qn = clo.qualname
        if qn in self.contracts:
            return self.contracts[qn].call_(ctx, args, kwargs)
        if qn not in self.inline and clo.node.name != '<lambda>' and not getattr(clo, 'local', False):
            raise Undecided("call to repo function %s without contract or inline permission" % qn)
        if ctx.info is not None and qn != '<lambda>' and qn not in ctx.info["inlined"]:
            ctx.info["inlined"].append(qn)
        saved_info = ctx.info
        if qn != '<lambda>' and clo.relpath and not getattr(clo, 'local', False):
            try:
                ctx.info = ctx.session.register_function(clo.relpath, qn, clo.node)
            except Undecided:
                pass
        self.depth += 1
        if self.depth > 40:
            raise Undecided("recursion too deep")
        saved_locals = getattr(self, '_assigned_locally', None)
        try:
            env = Env({}, clo.env)
            self.bind_args(clo.node, env, args, kwargs)
            self._assigned_locally = set(assigned_names(clo.node.body))
            try:
                self.exec_block(clo.node.body, env)
            except _Return as r:
                return r.value
            return None
        finally:
            self.depth -= 1
            self._assigned_locally = saved_locals
            ctx.info = saved_info

    def bind_args(self, fd, env, args, kwargs, defaults_env=None):
        a = fd.args
        params = [p.arg for p in a.posonlyargs + a.args]
        defaults = a.defaults
        nd = len(defaults)
        args = list(args)
        kwargs = dict(kwargs)
        for i, p in enumerate(params):
            if i < len(args):
                env.vars[p] = args[i]
            elif p in kwargs:
                env.vars[p] = kwargs.pop(p)
            else:
                di = i - (len(params) - nd)
                if di >= 0:
                    env.vars[p] = self.eval(defaults[di], defaults_env or env.parent or env)
                else:
                    raise PyRaise(ExcValue('TypeError', ('missing argument %s' % p,)))
        extra = args[len(params):]
        if a.vararg:
            env.vars[a.vararg.arg] = tuple(extra)
        elif extra:
            raise PyRaise(ExcValue('TypeError', ('too many arguments',)))
        for p, d in zip(a.kwonlyargs, a.kw_defaults):
            if p.arg in kwargs:
                env.vars[p.arg] = kwargs.pop(p.arg)
            elif d is not None:
                env.vars[p.arg] = self.eval(d, defaults_env or env.parent or env)
        if a.kwarg:
            env.vars[a.kwarg.arg] = kwargs
        elif kwargs:
            raise PyRaise(ExcValue('TypeError', ('unexpected keyword %s' % list(kwargs),)))

    # ---- object protocol ---------------------------------------------------------
    def getattr(self, o, name):
        ctx = self.ctx
        if isinstance(o, PyObj):
            return o.getattr_(ctx, name)
        if isinstance(o, Opaque):
            return Opaque(o.why + "." + name)
        if isinstance(o, list):
            return list_method(o, name)
        if isinstance(o, str):
            return str_method(o, name)
        if isinstance(o, dict):
            return dict_method(o, name)
        if isinstance(o, ExcValue):
            if name == 'args':
                return o.args
        if isinstance(o, Sym):
            if name == 'value':     # numpy scalar / lmfit like access is not implied
                pass
            if name in ('real',):
                return o
        if isinstance(o, tuple) and name in ('count', 'index'):
            return Model(lambda c, *a: getattr(o, name)(*a))
        raise PyRaise(ExcValue('AttributeError', ('%s on %s' % (name, type(o).__name__),)))

    def setattr(self, o, name, v):
        if isinstance(o, PyObj):
            return o.setattr_(self.ctx, name, v)
        if isinstance(o, Opaque):
            return
        raise Undecided("setattr on %s" % type(o).__name__)

    def norm_index(self, k, n):
        if isinstance(k, Sym):
            return k
        if isinstance(k, int):
            if k < 0:
                k += n
            if not (0 <= k < n):
                raise PyRaise(ExcValue('IndexError', (k,)))
            return k
        raise Undecided("index %r" % (k,))

    def getitem(self, o, k):
        ctx = self.ctx
        if isinstance(o, PyObj):
            return o.getitem_(ctx, k)
        if isinstance(o, Opaque):
            return Opaque(o.why + "[...]")
        if isinstance(o, (list, tuple, str)):
            if isinstance(k, slice):
                if any(isinstance(x, (Sym, Opaque)) for x in (k.start, k.stop, k.step)):
                    raise Undecided("symbolic slice of concrete sequence")
                return o[k]
            if isinstance(k, Sym):
                # symbolic index into concrete sequence: case split
                if not o:
                    raise PyRaise(ExcValue('IndexError'))
                for i in range(len(o)):
                    if ctx.branch(Or(k == i, k == i - len(o))):
                        return o[i]
                raise PyRaise(ExcValue('IndexError'))
            if isinstance(k, Opaque):
                return Opaque("element at unmodelled index")
            return o[self.norm_index(k, len(o))]
        if isinstance(o, dict):
            if isinstance(k, (Sym, Opaque)):
                raise Undecided("symbolic key in concrete dict")
            if k not in o:
                raise PyRaise(ExcValue('KeyError', (k,)))
            return o[k]
        raise PyRaise(ExcValue('TypeError', ('%s not subscriptable' % type(o).__name__,)))

    def setitem(self, o, k, v):
        ctx = self.ctx
        if isinstance(o, PyObj):
            return o.setitem_(ctx, k, v)
        if isinstance(o, Opaque):
            return
        if isinstance(o, list):
            if isinstance(k, slice):
                raise Undecided("slice assignment to list")
            o[self.norm_index(k, len(o))] = v
            return
        if isinstance(o, dict):
            if isinstance(k, (Sym, Opaque)):
                raise Undecided("symbolic key in concrete dict")
            o[k] = v
            return
        raise PyRaise(ExcValue('TypeError', ('item assignment',)))

    def delitem(self, o, k):
        if isinstance(o, PyObj):
            return o.delitem_(self.ctx, k)
        if isinstance(o, (list, dict)):
            try:
                del o[k]
            except (KeyError, IndexError):
                raise PyRaise(ExcValue('KeyError', (k,)))
            return
        raise Undecided("del item on %s" % type(o).__name__)

    def iterate(self, v):
        """concrete iteration -> python list of items"""
        if isinstance(v, (list, tuple)):
            return list(v)
        if isinstance(v, str):
            return list(v)
        if isinstance(v, dict):
            return list(v.keys())
        if isinstance(v, SymRange):
            c = v.concrete()
            if c is None:
                raise Undecided("iteration over symbolic range without loop contract")
            return c
        if isinstance(v, PyObj):
            return v.iter_(self.ctx)
        if isinstance(v, (set, frozenset)):
            return sorted(v)
        raise Undecided("iteration over %s" % type(v).__name__)


def env_set(env, name, v):
    env.vars[name] = v


# ---------------------------------------------------------------------------
# ranges, strings, builtin models
# ---------------------------------------------------------------------------

class SymRange(PyObj):
    def __init__(self, start, stop, step=1):
        self.start, self.stop, self.step = start, stop, step

    def concrete(self):
        if all(isinstance(x, int) for x in (self.start, self.stop, self.step)):
            return list(range(self.start, self.stop, self.step))
        return None

    def count(self, ctx=None):
        c = self.concrete()
        if c is not None:
            return len(c)
        if isinstance(self.step, Sym):
            if getattr(self, '_n', None) is not None:
                return self._n
            if ctx is None:
                raise Undecided("range with a symbolic step outside a modelled context")
            # CPython: step == 0 raises ValueError; negative steps are not modelled
            ctx.oblige("safe", "range_step_positive.L%d" % ctx.cur_line, self.step > 0)
            ctx.assume(self.step > 0)
            n = ctx.fresh_int("range_len")
            d = self.stop - self.start
            ctx.assume(And(n >= 0, Implies(d <= 0, n == 0),
                           Implies(d > 0, And((n - 1) * self.step < d, d <= n * self.step, n >= 1))))
            self._n = n
            return n
        if not isinstance(self.step, int) or self.step <= 0:
            raise Undecided("range with non-positive step")
        d = self.stop - self.start
        if self.step == 1:
            n = d
        else:
            n = (d + (self.step - 1)) // self.step
        return ite(n > 0, n, 0)

    def item(self, k):
        return self.start + k * self.step

    def len_(self, ctx):
        return self.count(ctx)

    def tolist_(self, ctx):
        c = self.concrete()
        if c is not None:
            return c
        return SeqList(ctx, self.count(ctx), lambda k: self.item(k))

    def iter_(self, ctx):
        c = self.concrete()
        if c is None:
            raise Undecided("iteration over symbolic range")
        return c


class SeqList(PyObj):
    """list of symbolic length given by an index function, with appended concrete tail; supports zip / enumerate loops"""

    def __init__(self, ctx, n, item, tail=None):
        self.n, self.item, self.tail = n, item, list(tail or [])

    def len_(self, ctx):
        return self.n + len(self.tail)

    def at(self, k):
        v = None
        for j in range(len(self.tail) - 1, -1, -1):
            v = self.tail[j] if v is None else ite(k == self.n + j, self.tail[j], v)
        base = self.item(k)
        if v is None:
            return base
        return ite(k < self.n, base, v)

    def getattr_(self, ctx, name):
        if name == 'append':
            return Model(lambda c, x: self.tail.append(x), 'list.append')
        raise Undecided("list.%s on a symbolic-length list" % name)

    def getitem_(self, ctx, k):
        L = self.len_(ctx)
        if isinstance(k, int) and k < 0:
            k = L + k
        ctx.oblige("safe", "list_index_in_range.L%d" % ctx.cur_line, And(k >= 0, k < L))
        return self.at(k)

    def fingerprint_(self):
        return ('seqlist', len(self.tail)), []

    def binop_(self, ctx, op, other, swapped):
        if op == 'add' and isinstance(other, list) and not swapped:
            return SeqList(ctx, self.n, self.item, self.tail + list(other))
        return NotImplemented

    def setitem_(self, ctx, k, v):
        # element assignment: recorded (the contract inspects `sets`); reads of other positions are unaffected
        ctx.oblige("safe", "list_index_in_range.L%d" % ctx.cur_line, And(k >= 0, k < self.len_(ctx)))
        if not hasattr(self, 'sets'):
            self.sets = []
        self.sets.append((k, v))

    def max_(self, ctx, largest=True):
        """max / min of the list: a fresh value bounded by every element and equal to one of them"""
        sample = self.tail[0] if self.tail else self.item(0)
        m = ctx.fresh_int("max" if largest else "min") if isinstance(sample, int) or (isinstance(sample, Sym) and sample.is_int) \
            else ctx.fresh_real("max" if largest else "min")
        ge = (lambda a, b: a >= b) if largest else (lambda a, b: a <= b)
        for t in self.tail:
            ctx.assume(ge(m, t))
        n, item = self.n, self.item
        ctx.ufacts.append(lambda t: Implies(And(t[0] >= 0, t[0] < n), ge(m, item(t[0]))))
        k0 = ctx.fresh_int("argmax")
        ctx.assume(Or(And(k0 >= 0, k0 < n, m == item(k0)), *[m == t for t in self.tail]))
        ctx.assume(Implies(And(k0 >= 0, k0 < n), ge(m, item(k0))))
        return m

    def zip_(self, ctx, xs):
        if all(isinstance(x, SeqList) for x in xs):
            lens = [x.len_(ctx) for x in xs]
            n = lens[0]
            for l in lens[1:]:
                n = smin(n, l)
            return SeqList(ctx, n, lambda k: tuple(x.at(k) for x in xs))
        raise Undecided("zip of symbolic-length lists with other iterables")

    def enumerate_(self, ctx, start=0):
        return SeqList(ctx, self.len_(ctx), lambda k: (start + k, self.at(k)))

    def cut_loop_(self, interp, st, env, spec):
        return interp.cut_loop_range(st, env, _IdxRange(self.len_(interp.ctx), self.at), spec)


class _IdxRange:
    def __init__(self, n, item):
        self.n, self._item = n, item

    def count(self, ctx=None):
        return self.n

    def item(self, k):
        return self._item(k)


class SymList(PyObj):
    """python list of symbolic length with append"""

    def __init__(self, name, length, elem):
        self.name, self.length, self.elem = name, length, elem
        self.writes = []

    @staticmethod
    def fresh(ctx, name, sort='real'):
        n = ctx.fresh_int("len_" + name)
        ctx.assume(n >= 0)
        f = z3.Function(ctx._fresh("el_" + name), z3.IntSort(), z3.RealSort() if sort == 'real' else z3.IntSort())
        return SymList(name, n, lambda j: Sym(f(Sym.lift(j))))

    def at(self, j):
        v = self.elem(j)
        for wj, wv in self.writes:
            c = (j == wj) if isinstance(j, Sym) or isinstance(wj, Sym) else (j == wj)
            if c is True:
                v = wv
            elif c is False:
                continue
            else:
                v = ite(c, wv, v)
        return v

    def getattr_(self, ctx, name):
        if name == 'append':
            def app(c, v):
                self.writes.append((self.length, v))
                self.length = self.length + 1
            return Model(app, 'list.append')
        raise Undecided("list.%s on symbolic list" % name)

    def len_(self, ctx):
        return self.length

    def setitem_(self, ctx, k, v):
        ctx.oblige("safe", "list_index_in_range.L%d" % ctx.cur_line, And(k >= 0, k < self.length))
        self.writes.append((k, v))

    def fingerprint_(self):
        return ('symlist', len(self.writes)), []

    def getitem_(self, ctx, k):
        if isinstance(k, slice):
            raise Undecided("slice of symbolic list")
        ctx.oblige("safe", "list_index_in_range.L%d" % ctx.cur_line, And(k >= 0, k < self.length))
        return self.at(k)


def seq_len(v):
    if isinstance(v, SymList):
        return v.length
    return len(v)


def seq_at(v, j):
    """element j (Sym or int) of a python list or SymList, as a term"""
    if isinstance(v, SymList):
        return v.at(j)
    if isinstance(j, int):
        return v[j]
    r = None
    for k in range(len(v) - 1, -1, -1):
        r = v[k] if r is None else ite(j == k, v[k], r)
    return r


class LazyList(PyObj):
    """[elt for v in range(symbolic)]: element k is `elt` evaluated with v = range item k (pure expressions only)"""

    def __init__(self, interp, elt, var, rng, env):
        self.interp, self.elt, self.var, self.rng, self.env = interp, elt, var, rng, env

    def len_(self, ctx):
        return self.rng.count()

    def at(self, k):
        local = Env({self.var: self.rng.item(k)}, self.env)
        return self.interp.eval(self.elt, local)


class StrFormat(PyObj):
    """a formatted string kept as (template, args): the contract inspects fields"""

    def __init__(self, template, args, kwargs, percent=False):
        self.template, self.args, self.kwargs, self.percent = template, list(args), dict(kwargs), percent

    def __repr__(self):
        return "StrFormat(%r, %r)" % (self.template, self.args)

    def getattr_(self, ctx, name):
        if name == 'format':
            return Model(lambda c, *a, **k: self)
        raise Undecided("method %s on symbolic string" % name)

    def binop_(self, ctx, op, other, swapped):
        if op in ('add', 'iadd'):
            return StrFormat("{}{}", [other, self] if swapped else [self, other], {})
        if op in ('Eq', 'NotEq'):
            return Opaque("comparison of symbolic strings")
        return NotImplemented


def str_method(s, name):
    if name == 'format':
        def fmt(ctx, *a, **k):
            if all(isinstance(x, (int, float, str, bool, type(None))) for x in list(a) + list(k.values())):
                return s.format(*a, **k)
            return StrFormat(s, a, k)
        return Model(fmt, 'str.format')
    if name in ('replace', 'split', 'startswith', 'endswith', 'strip', 'lower', 'upper', 'join',
                'rstrip', 'lstrip', 'find', 'isdigit', 'rsplit', 'count', 'index', 'title'):
        def meth(ctx, *a, **k):
            if name == 'join':
                items = ctx.interp.iterate(a[0])
                if all(isinstance(x, str) for x in items):
                    return s.join(items)
                return StrFormat("{}" * len(items), items, {})
            if all(isinstance(x, (int, str, tuple, type(None))) for x in a):
                return getattr(s, name)(*a, **k)
            raise Undecided("str.%s with symbolic argument" % name)
        return Model(meth, 'str.' + name)
    raise Undecided("str.%s" % name)


def list_method(lst, name):
    if name == 'append':
        return Model(lambda ctx, x: lst.append(x), 'list.append')
    if name == 'extend':
        def extend(ctx, xs):
            if isinstance(xs, PyObj) and hasattr(xs, 'extend_into_'):
                return xs.extend_into_(ctx, lst)
            lst.extend(ctx.interp.iterate(xs))
        return Model(extend, 'list.extend')
    if name == 'pop':
        def pop(ctx, *a):
            try:
                return lst.pop(*a)
            except IndexError:
                raise PyRaise(ExcValue('IndexError'))
        return Model(pop, 'list.pop')
    if name == 'insert':
        return Model(lambda ctx, i, x: lst.insert(i, x), 'list.insert')
    if name == 'copy':
        return Model(lambda ctx: list(lst), 'list.copy')
    if name == '__getitem__':
        return Model(lambda ctx, k: ctx.interp.getitem(lst, k), 'list.__getitem__')
    if name == 'index':
        def index(ctx, x):
            for i, y in enumerate(lst):
                if ctx.truth(y == x):
                    return i
            raise PyRaise(ExcValue('ValueError'))
        return Model(index, 'list.index')
    if name == 'sort' or name == 'reverse':
        raise Undecided("list.%s in place" % name)
    raise Undecided("list.%s" % name)


def dict_method(d, name):
    if name == 'keys':
        return Model(lambda ctx: list(d.keys()), 'dict.keys')
    if name == 'values':
        return Model(lambda ctx: list(d.values()), 'dict.values')
    if name == 'items':
        return Model(lambda ctx: [(k, v) for k, v in d.items()], 'dict.items')
    if name == 'get':
        return Model(lambda ctx, k, default=None: d.get(k, default), 'dict.get')
    if name == 'copy':
        return Model(lambda ctx: dict(d), 'dict.copy')
    if name == 'update':
        return Model(lambda ctx, o: d.update(o), 'dict.update')
    if name == 'pop':
        return Model(lambda ctx, k, *a: d.pop(k, *a), 'dict.pop')
    raise Undecided("dict.%s" % name)


def b_int(ctx, x=0, *a):
    if isinstance(x, NaNType):
        raise PyRaise(ExcValue('ValueError', ('cannot convert float NaN to integer',)))
    if isinstance(x, Opaque):
        return Opaque("int of unmodelled value")
    if isinstance(x, str):
        try:
            return int(x, *a)
        except ValueError:
            raise PyRaise(ExcValue('ValueError'))
    if isinstance(x, Sym) and x.is_real and ctx.float_rounding is not None:
        x = ctx.float_rounding(ctx, x)
    if isinstance(x, PyObj):
        if hasattr(x, 'int_'):
            return x.int_(ctx)
        raise Undecided("int() of %s" % type(x).__name__)
    return to_int_trunc(x)


def b_float(ctx, x=0.0):
    if isinstance(x, (NaNType, Opaque)):
        return x
    if isinstance(x, str):
        try:
            f = float(x)
        except ValueError:
            raise PyRaise(ExcValue('ValueError'))
        if f != f:
            return NaN
        return f
    if isinstance(x, (int, float)) and not isinstance(x, bool):
        return float(x) if abs(x) < 2**53 else Fraction(x)
    if isinstance(x, PyObj):
        if hasattr(x, 'float_'):
            return x.float_(ctx)
        raise Undecided("float() of %s" % type(x).__name__)
    return to_real(x)


def b_len(ctx, x):
    if isinstance(x, PyObj):
        return x.len_(ctx)
    if isinstance(x, Opaque):
        return Opaque("len of unmodelled value")
    return len(x)


def b_range(ctx, *a):
    if len(a) == 1:
        r = SymRange(0, a[0], 1)
    elif len(a) == 2:
        r = SymRange(a[0], a[1], 1)
    else:
        r = SymRange(a[0], a[1], a[2])
    for v in (r.start, r.stop, r.step):
        if isinstance(v, Sym) and not v.is_int:
            # range(float) raises TypeError in CPython
            raise PyRaise(ExcValue('TypeError', ("'float' object cannot be interpreted as an integer",)))
        if isinstance(v, (float, Fraction)):
            raise PyRaise(ExcValue('TypeError', ("'float' object cannot be interpreted as an integer",)))
        if isinstance(v, Opaque):
            raise Undecided("range over unmodelled value")
    return r


def b_abs(ctx, x):
    if isinstance(x, PyObj) and hasattr(x, 'map_'):
        return x.map_(ctx, lambda v: abs(v))
    return abs(x)


def _fold(ctx, f, a, kw):
    if len(a) == 1 and isinstance(a[0], SeqList):
        return a[0].max_(ctx, largest=(f is smax))
    if len(a) == 1:
        items = ctx.interp.iterate(a[0])
    else:
        items = list(a)
    if not items:
        if 'default' in kw:
            return kw['default']
        raise PyRaise(ExcValue('ValueError', ('empty sequence',)))
    r = items[0]
    for x in items[1:]:
        if isinstance(r, NaNType) or isinstance(x, NaNType):
            # python min/max with NaN: comparisons are False, keeps first
            continue
        if isinstance(r, Opaque) or isinstance(x, Opaque):
            r = Opaque("min/max with unmodelled operand")
            continue
        if isinstance(r, float) and isinstance(x, Sym):
            r = Fraction(repr(r))
        if isinstance(x, float) and isinstance(r, Sym):
            x = Fraction(repr(x))
        r = f(r, x)
    return r


def b_min(ctx, *a, **kw):
    return _fold(ctx, smin, a, kw)


def b_max(ctx, *a, **kw):
    return _fold(ctx, smax, a, kw)


def b_round(ctx, x, nd=None):
    if isinstance(x, (NaNType,)):
        if nd is None:
            raise PyRaise(ExcValue('ValueError', ('cannot convert float NaN to integer',)))
        return x
    if isinstance(x, Opaque):
        return x
    if nd is not None:
        if isinstance(x, (int, float)):
            return round(x, nd)
        if isinstance(nd, int) and isinstance(x, Sym):
            scale = 10 ** nd if nd >= 0 else Fraction(1, 10 ** (-nd))
            r = b_round(ctx, x * scale)
            return to_real(r) / scale
        raise Undecided("round(x, ndigits) symbolic")
    if isinstance(x, (int, float, Fraction)):
        return round(x)
    e = Sym.num(x)
    if z3.is_int(e):
        return Sym(e)
    fl = z3.ToInt(e)
    frac = e - z3.ToReal(fl)
    half = z3.RealVal(1) / 2
    # round half to even
    r = z3.If(frac < half, fl, z3.If(frac > half, fl + 1, z3.If(fl % 2 == 0, fl, fl + 1)))
    return Sym(r)


def b_isinstance(ctx, x, t):
    names = []

    def tn(tt):
        if isinstance(tt, tuple):
            for q in tt:
                tn(q)
        elif isinstance(tt, Model):
            names.append(tt.name)
        elif isinstance(tt, ExcClass):
            names.append(tt.tname)
        elif isinstance(tt, PyObj) and hasattr(tt, 'typename'):
            names.append(tt.typename)
        elif isinstance(tt, (UnknownCallable, Namespace)):
            names.append(tt.name)
        else:
            names.append(str(tt))
    tn(t)
    res = False
    for nme in names:
        base = nme.split('.')[-1]
        if base == 'int':
            if isinstance(x, bool) or (isinstance(x, int)) or (isinstance(x, Sym) and x.is_int):
                res = True
        elif base == 'float':
            if isinstance(x, (float, Fraction, NaNType)) or (isinstance(x, Sym) and x.is_real):
                res = True
        elif base == 'bool':
            if isinstance(x, bool) or (isinstance(x, Sym) and x.is_bool):
                res = True
        elif base == 'str':
            if isinstance(x, (str, StrFormat)) or (isinstance(x, PyObj) and getattr(x, 'typename', None) == 'str'):
                res = True
        elif base in ('list',):
            if isinstance(x, list):
                res = True
        elif base in ('tuple',):
            if isinstance(x, tuple):
                res = True
        elif base == 'dict':
            if isinstance(x, (dict, SymDict)):
                res = True
        else:
            if isinstance(x, Opaque):
                return Opaque("isinstance of unmodelled value")
            if isinstance(x, Obj):
                if x.cls == base or base in getattr(x, 'bases', ()):
                    res = True
            elif isinstance(x, PyObj) and getattr(x, 'typename', None) == base:
                res = True
            elif isinstance(x, ExcValue) and exc_isa(x.tname, base):
                res = True
    return res


def b_enumerate(ctx, xs, start=0):
    if isinstance(xs, PyObj) and hasattr(xs, 'enumerate_'):
        return xs.enumerate_(ctx, start)
    return [(start + i, x) for i, x in enumerate(ctx.interp.iterate(xs))]


def b_zip(ctx, *xs):
    for x in xs:
        if isinstance(x, (Sym, int, float, Fraction, NaNType)) and not isinstance(x, bool):
            raise PyRaise(ExcValue('TypeError', ("'float' object is not iterable",)))
    if any(isinstance(x, PyObj) and hasattr(x, 'zip_') for x in xs):
        for x in xs:
            if hasattr(x, 'zip_'):
                return x.zip_(ctx, xs)
    return [tuple(t) for t in zip(*[ctx.interp.iterate(x) for x in xs])]


def b_sum(ctx, xs, start=0):
    r = start
    for x in ctx.interp.iterate(xs):
        r = r + x
    return r


def b_all(ctx, xs):
    items = ctx.interp.iterate(xs)
    res = []
    for x in items:
        if isinstance(x, Sym):
            res.append(x)
        elif not ctx.truth(x):
            return False
    return And(*res)


def b_any(ctx, xs):
    items = ctx.interp.iterate(xs)
    res = []
    for x in items:
        if isinstance(x, Sym):
            res.append(x)
        elif ctx.truth(x):
            return True
    return Or(*res)


def b_bool(ctx, x=False):
    if isinstance(x, Sym):
        return x if x.is_bool else (x != 0)
    return ctx.truth(x)


def b_list(ctx, x=()):
    if isinstance(x, SeqList):
        return SeqList(ctx, x.n, x.item, x.tail)
    if isinstance(x, PyObj) and hasattr(x, 'tolist_'):
        return x.tolist_(ctx)
    return list(ctx.interp.iterate(x))


def b_tuple(ctx, x=()):
    return tuple(ctx.interp.iterate(x))


def b_str(ctx, x=''):
    if isinstance(x, (int, float, str, bool)) or x is None:
        return str(x)
    return StrFormat("{}", [x], {})


def b_sorted(ctx, xs, key=None, reverse=False):
    """stable sort; symbolic keys are ordered by branching on the comparisons (small lists only)"""
    items = ctx.interp.iterate(xs)
    if key is None and all(isinstance(x, (int, float, str)) for x in items):
        return sorted(items, reverse=reverse)
    if len(items) > 6:
        raise Undecided("sorted() of more than 6 symbolic items")
    keys = [ctx.interp.call(key, [x], {}) if key is not None else x for x in items]
    out = []        # list of (key, item), kept sorted; stable: a new element goes after equal keys
    for k, it in zip(keys, items):
        pos = len(out)
        while pos > 0:
            prev = out[pos - 1][0]
            before = (k > prev) if reverse else (k < prev)
            if ctx.truth(before):
                pos -= 1
            else:
                break
        out.insert(pos, (k, it))
    return [it for _, it in out]


def b_hasattr(ctx, o, name):
    try:
        ctx.interp.getattr(o, name)
        return True
    except PyRaise:
        return False


def b_getattr(ctx, o, name, *default):
    try:
        return ctx.interp.getattr(o, name)
    except PyRaise:
        if default:
            return default[0]
        raise


def b_dict(ctx, *a, **k):
    d = {}
    if a:
        src = a[0]
        if isinstance(src, dict):
            d.update(src)
        else:
            for kk, vv in ctx.interp.iterate(src):
                d[kk] = vv
    d.update(k)
    return d


def b_type(ctx, x):
    return Opaque("type()")


def b_id(ctx, x):
    return id(x)


def b_map(ctx, f, *xs):
    if len(xs) == 1 and isinstance(xs[0], PyObj) and hasattr(xs[0], 'map_obj_'):
        return xs[0].map_obj_(ctx, f)
    if len(xs) == 1 and isinstance(xs[0], SeqList) and not xs[0].tail:
        src = xs[0]
        return SeqList(ctx, src.n, lambda k: ctx.interp.call(f, [src.at(k)], {}))
    cols = [ctx.interp.iterate(x) for x in xs]
    return [ctx.interp.call(f, list(t), {}) for t in zip(*cols)]


def b_divmod(ctx, a, b):
    if isinstance(a, (Opaque, NaNType)) or isinstance(b, (Opaque, NaNType)):
        return (Opaque("divmod"), Opaque("divmod"))
    if not isinstance(b, Sym) and b == 0:
        raise PyRaise(ExcValue('ZeroDivisionError'))
    if isinstance(a, float) and isinstance(b, Sym):
        a = Fraction(repr(a))
    if isinstance(b, float) and isinstance(a, Sym):
        b = Fraction(repr(b))
    return (a // b, a % b)


def b_reversed(ctx, xs):
    return list(reversed(ctx.interp.iterate(xs)))


BUILTINS = {
    'int': Model(b_int, 'int'), 'float': Model(b_float, 'float'), 'len': Model(b_len, 'len'),
    'range': Model(b_range, 'range'), 'abs': Model(b_abs, 'abs'), 'min': Model(b_min, 'min'),
    'max': Model(b_max, 'max'), 'round': Model(b_round, 'round'),
    'isinstance': Model(b_isinstance, 'isinstance'), 'enumerate': Model(b_enumerate, 'enumerate'),
    'zip': Model(b_zip, 'zip'), 'sum': Model(b_sum, 'sum'), 'all': Model(b_all, 'all'),
    'any': Model(b_any, 'any'), 'bool': Model(b_bool, 'bool'), 'list': Model(b_list, 'list'),
    'tuple': Model(b_tuple, 'tuple'), 'str': Model(b_str, 'str'), 'sorted': Model(b_sorted, 'sorted'),
    'hasattr': Model(b_hasattr, 'hasattr'), 'getattr': Model(b_getattr, 'getattr'),
    'dict': Model(b_dict, 'dict'), 'type': Model(b_type, 'type'), 'id': Model(b_id, 'id'),
    'map': Model(b_map, 'map'), 'reversed': Model(b_reversed, 'reversed'), 'divmod': Model(b_divmod, 'divmod'),
    'slice': Model(lambda ctx, *a: slice(*a), 'slice'),
    'setattr': Model(lambda ctx, o, name, v: ctx.interp.setattr(o, name, v), 'setattr'),
    'True': True, 'False': False, 'None': None,
}


def MODELS_SQRT(ctx, x):
    from .lib import m_sqrt
    return m_sqrt(ctx, x)


# defaults on Ctx used by interp
Ctx.check_div = False
Ctx.trig = False
Ctx.float_rounding = None


# ---------------------------------------------------------------------------
# running functions / regions
# ---------------------------------------------------------------------------

class Outcome:
    def __init__(self, kind, value=None, env=None):
        self.kind = kind      # 'return' | 'raise' | 'fallthrough'
        self.value = value
        self.env = env

    def __repr__(self):
        return "Outcome(%s, %r)" % (self.kind, self.value)


def run_function(ctx, relpath, qualname, args, kwargs=None, globals_=None, selfv=None):
    """Execute the real body of `qualname` on this path. Returns Outcome."""
    node = find_function(relpath, qualname)
    ctx.info = ctx.session.register_function(relpath, qualname, node)
    it = ctx.interp
    it.relpath = relpath
    menv = Env(dict(globals_ or {}))
    it.module_env = menv
    env = Env({}, menv)
    try:
        it.bind_args(node, env, args, kwargs or {}, defaults_env=menv)
        it._assigned_locally = set(assigned_names(node.body))
        it.exec_block(node.body, env)
    except _Return as r:
        return Outcome('return', r.value, env)
    except PyRaise as pr:
        return Outcome('raise', pr.exc, env)
    return Outcome('return', None, env)


def run_stmts(ctx, relpath, qualname, stmts, env_vars, globals_=None, mode="region", region_desc=""):
    """Execute a contiguous statement list of `qualname` (a region)."""
    node = find_function(relpath, qualname)
    ctx.info = ctx.session.register_function(relpath, qualname, node, mode=mode)
    if region_desc:
        ctx.info.setdefault("regions", [])
        rd = {"desc": region_desc, "lines": [stmts[0].lineno, stmts[-1].end_lineno]}
        if rd not in ctx.info["regions"]:
            ctx.info["regions"].append(rd)
    it = ctx.interp
    it.relpath = relpath
    menv = Env(dict(globals_ or {}))
    it.module_env = menv
    env = Env(env_vars, menv)
    it._assigned_locally = set(assigned_names(node.body))
    try:
        it.exec_block(stmts, env)
    except _Return as r:
        return Outcome('return', r.value, env)
    except PyRaise as pr:
        return Outcome('raise', pr.exc, env)
    except _Break:
        return Outcome('break', None, env)
    except _Continue:
        return Outcome('continue', None, env)
    return Outcome('fallthrough', None, env)
