import sys
import threading
from .driver import main

# symbolic membership predicates nest one python closure per set operation: deep for Region depth 4
sys.setrecursionlimit(100000)
threading.stack_size(512 * 1024 * 1024)
_rc = []
_t = threading.Thread(target=lambda: _rc.append(main()))
_t.start()
_t.join()
sys.exit(_rc[0] if _rc else 3)
