import sys
from .driver import main
sys.exit(main())
