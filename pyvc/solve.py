"""Discharge obligations: z3 (python API) first, cvc5 CLI on `unknown`.

Every obligation is serialised to SMT-LIB2 text and decided in a worker
process (16-process pool).  Verdicts:

  valid     hyps ∧ ¬goal unsat
  invalid   hyps ∧ ¬goal sat (model attached)
  unknown   neither back end decided within the budget
"""
import multiprocessing as mp
import os
import re
import subprocess
import tempfile
import time

import z3

CVC5 = "/usr/bin/cvc5"


def to_smt2(hyps, goal, negate=True):
    s = z3.Solver()
    for h in hyps:
        s.add(h)
    s.add(z3.Not(goal) if negate else goal)
    return s.to_smt2()


def _model_dict(m):
    out = {}
    for d in m.decls():
        if d.arity() == 0:
            v = m[d]
            try:
                out[d.name()] = v.as_string() if hasattr(v, 'as_string') else str(v)
            except Exception:
                out[d.name()] = str(v)
    return out


def _z3_check(text, timeout_ms, tactic=None):
    t0 = time.time()
    try:
        if tactic:
            g = z3.Goal()
            g.add(z3.parse_smt2_string(text))
            s = z3.Tactic(tactic).solver()
            s.add(g.as_expr())
        else:
            s = z3.Solver()
            s.from_string(text)
        s.set("timeout", int(timeout_ms))
        r = s.check()
        model = None
        if r == z3.sat:
            model = _model_dict(s.model())
        reason = s.reason_unknown() if r == z3.unknown else ""
        return str(r), model, time.time() - t0, reason
    except z3.Z3Exception as e:
        return "unknown", None, time.time() - t0, "z3 exception: %s" % e


def _cvc5_check(text, timeout_s):
    t0 = time.time()
    txt = text
    if "(set-logic" not in txt:
        txt = "(set-logic ALL)\n" + txt
    txt = txt.replace("(check-sat)", "(check-sat)\n")
    with tempfile.NamedTemporaryFile("w", suffix=".smt2", delete=False, dir=os.environ.get("PYVC_TMP")) as f:
        f.write(txt)
        path = f.name
    try:
        p = subprocess.run([CVC5, "--tlimit=%d" % int(timeout_s * 1000), "--nl-ext-tplanes", path],
                           capture_output=True, text=True, timeout=timeout_s + 5)
        out = (p.stdout or "").strip().splitlines()
        r = out[0].strip() if out else "unknown"
        if r not in ("sat", "unsat", "unknown"):
            r = "unknown"
        return r, None, time.time() - t0, (p.stderr or "")[:200]
    except subprocess.TimeoutExpired:
        return "unknown", None, time.time() - t0, "cvc5 timeout"
    finally:
        try:
            os.unlink(path)
        except OSError:
            pass


def _refute_by_sampling(text, timeout_ms=8000, tries=4):
    """last resort for `unknown`: find a model of the hypotheses alone (the last
    assertion is the negated goal by construction) and evaluate the goal in it."""
    t0 = time.time()
    try:
        asserts = z3.parse_smt2_string(text)
        if len(asserts) < 1:
            return "unknown", None, 0.0, ""
        neg_goal = asserts[-1]
        hyps = list(asserts)[:-1]
        import random
        rnd = random.Random(12345)
        consts = {}

        def walk(e, seen):
            if e.get_id() in seen:
                return
            seen.add(e.get_id())
            if z3.is_const(e) and e.decl().kind() == z3.Z3_OP_UNINTERPRETED and z3.is_real(e):
                consts[e.decl().name()] = e
            elif z3.is_app(e) and e.num_args() > 0 and e.decl().kind() == z3.Z3_OP_UNINTERPRETED and z3.is_real(e):
                consts["app!%d" % e.get_id()] = e
            for c in e.children():
                walk(c, seen)
        seen = set()
        for a in asserts:
            walk(a, seen)
        free = [c for n, c in sorted(consts.items()) if not n.startswith(('S!', 'C!', 'pi_c'))]
        # stage 1: pure numeric sampling (no solver): random rationals, unit-circle points for S!/C! pairs
        bases = sorted(n[2:] for n in consts if n.startswith('S!'))
        for k in range(300):
            sub = []
            for c in free:
                sub.append((c, z3.RealVal(rnd.randint(-40, 40)) / z3.RealVal(rnd.choice([1, 2, 3, 7]))))
            for b in bases:
                t = rnd.randint(-12, 12)
                q = rnd.choice([1, 2, 3, 5])
                tt = z3.Q(t, q)
                S_, C_ = consts.get('S!' + b), consts.get('C!' + b)
                if S_ is not None:
                    sub.append((S_, z3.simplify(2 * tt / (1 + tt * tt))))
                if C_ is not None:
                    sub.append((C_, z3.simplify((1 - tt * tt) / (1 + tt * tt))))
            if 'pi_c' in consts:
                sub.append((consts['pi_c'], z3.RealVal("3.14159265")))
            ok = True
            for h in hyps:
                v = z3.simplify(z3.substitute(h, *sub))
                if not z3.is_true(v):
                    ok = False
                    break
            if not ok:
                continue
            v = z3.simplify(z3.substitute(neg_goal, *sub))
            if z3.is_true(v):
                return "sat", {str(a): str(b) for a, b in sub}, time.time() - t0, "numeric sample falsifies the goal"
        for k in range(tries):
            for tac in ('qfnra-nlsat', None):
                sl = z3.Tactic(tac).solver() if tac else z3.Solver()
                sl.set("timeout", int(timeout_ms))
                for h in hyps:
                    sl.add(h)
                if k > 0:
                    for c in rnd.sample(free, max(0, len(free) // 2)):
                        sl.add(c == z3.RealVal(rnd.randint(-50, 50)) / 7)
                if sl.check() == z3.sat:
                    m = sl.model()
                    v = m.eval(neg_goal, model_completion=True)
                    if z3.is_true(v):
                        return "sat", _model_dict(m), time.time() - t0, "hypotheses-only model falsifies the goal"
                    break
        return "unknown", None, time.time() - t0, "sampling found no falsifying model"
    except z3.Z3Exception as e:
        return "unknown", None, time.time() - t0, "z3 exception: %s" % e


def decide(job):
    """job = (index, smt2 text, timeout_ms, use_cvc5, tactics) -> result dict"""
    idx, text, timeout_ms, use_cvc5, tactics = job[:5]
    cross = job[5] if len(job) > 5 else False
    attempts = []
    model = None
    backend = "z3"
    r = "unknown"

    def attempt(name, fn):
        nonlocal r, model, backend
        if r != "unknown":
            return
        r1, m1, secs, reason = fn()
        attempts.append((name, r1, round(secs, 3), reason))
        if r1 != "unknown":
            r, model, backend = r1, m1, name
    attempt("z3", lambda: _z3_check(text, min(timeout_ms, 8000)))
    for tac in tactics or ():
        attempt("z3:" + tac, lambda: _z3_check(text, min(timeout_ms, 10000), tac))
    if timeout_ms > 3000:
        attempt("z3:sampling", lambda: _refute_by_sampling(text))
        for tac in tactics or ():
            if timeout_ms > 10000:
                attempt("z3:" + tac, lambda: _z3_check(text, timeout_ms, tac))
        attempt("z3", lambda: _z3_check(text, timeout_ms))
    if use_cvc5:
        attempt("cvc5", lambda: _cvc5_check(text, timeout_ms / 1000.0))
    if timeout_ms <= 3000:
        attempt("z3:sampling", lambda: _refute_by_sampling(text))
    if cross and r == "unsat" and backend.startswith("z3"):
        # thorough tier: the other back end must not contradict a proof
        r2, m2, secs, reason = _cvc5_check(text, 15.0)
        attempts.append(("cvc5(cross-check)", r2, round(secs, 3), reason))
        if r2 == "sat":
            r, model, backend = "disagree", m2, "z3 vs cvc5"
    return {"idx": idx, "result": r, "model": model, "backend": backend, "attempts": attempts,
            "seconds": round(sum(a[2] for a in attempts), 3)}


def discharge(obligations, timeout_ms=20000, procs=None, use_cvc5=True, tactics=("qfnra-nlsat",), cross=False):
    jobs = []
    for i, ob in enumerate(obligations):
        text = to_smt2(ob.hyps, ob.goal, negate=True)
        ob.meta['smt2'] = text
        tms = ob.meta.get('timeout_ms', timeout_ms)
        jobs.append((i, text, tms, use_cvc5, tactics, cross))
    procs = procs or min(16, max(1, os.cpu_count() or 1))
    results = [None] * len(jobs)
    if len(jobs) <= 2 or procs == 1:
        for j in jobs:
            results[j[0]] = decide(j)
    else:
        ctxm = mp.get_context("fork")
        with ctxm.Pool(processes=procs) as pool:
            for res in pool.imap_unordered(decide, jobs, chunksize=1):
                results[res["idx"]] = res
    for ob, res in zip(obligations, results):
        r = res["result"]
        if r == "disagree":
            verdict = "backend-disagreement"
        elif ob.expect == "valid":
            verdict = {"unsat": "valid", "sat": "invalid"}.get(r, "unknown")
        elif ob.expect == "sat":       # cover: must be satisfiable
            verdict = {"sat": "valid", "unsat": "vacuous"}.get(r, "unknown")
        elif ob.expect == "fail":      # canary: must not be provable
            verdict = {"sat": "valid", "unknown": "valid", "unsat": "canary-proved"}[r]
        else:
            verdict = "unknown"
        res["verdict"] = verdict
        ob.meta['result'] = res
    return results
