"""Discharge obligations: z3 (python API) first, cvc5 CLI on `unknown`.

Every obligation is serialised to SMT-LIB2 text and decided in a worker
process (16-process pool).  Verdicts:

  valid     hyps ∧ ¬goal unsat
  invalid   hyps ∧ ¬goal sat (model attached)
  unknown   neither back end decided within the budget
"""
import multiprocessing as mp
import os
import re
import subprocess
import tempfile
import time

import z3

CVC5 = "/usr/bin/cvc5"


def to_smt2(hyps, goal, negate=True):
    s = z3.Solver()
    for h in hyps:
        s.add(h)
    s.add(z3.Not(goal) if negate else goal)
    return s.to_smt2()


def _model_dict(m):
    out = {}
    for d in m.decls():
        if d.arity() == 0:
            v = m[d]
            try:
                out[d.name()] = v.as_string() if hasattr(v, 'as_string') else str(v)
            except Exception:
                out[d.name()] = str(v)
    return out


def _z3_check(text, timeout_ms, tactic=None):
    t0 = time.time()
    try:
        if tactic:
            g = z3.Goal()
            g.add(z3.parse_smt2_string(text))
            s = z3.Tactic(tactic).solver()
            s.add(g.as_expr())
        else:
            s = z3.Solver()
            s.from_string(text)
        s.set("timeout", int(timeout_ms))
        r = s.check()
        model = None
        if r == z3.sat:
            model = _model_dict(s.model())
        reason = s.reason_unknown() if r == z3.unknown else ""
        return str(r), model, time.time() - t0, reason
    except z3.Z3Exception as e:
        return "unknown", None, time.time() - t0, "z3 exception: %s" % e


def _cvc5_check(text, timeout_s):
    t0 = time.time()
    txt = text
    if "(set-logic" not in txt:
        txt = "(set-logic ALL)\n" + txt
    txt = txt.replace("(check-sat)", "(check-sat)\n")
    with tempfile.NamedTemporaryFile("w", suffix=".smt2", delete=False, dir=os.environ.get("PYVC_TMP")) as f:
        f.write(txt)
        path = f.name
    try:
        p = subprocess.run([CVC5, "--tlimit=%d" % int(timeout_s * 1000), "--nl-ext-tplanes", path],
                           capture_output=True, text=True, timeout=timeout_s + 5)
        out = (p.stdout or "").strip().splitlines()
        r = out[0].strip() if out else "unknown"
        if r not in ("sat", "unsat", "unknown"):
            r = "unknown"
        return r, None, time.time() - t0, (p.stderr or "")[:200]
    except subprocess.TimeoutExpired:
        return "unknown", None, time.time() - t0, "cvc5 timeout"
    finally:
        try:
            os.unlink(path)
        except OSError:
            pass


def decide(job):
    """job = (index, smt2 text, timeout_ms, use_cvc5, tactics) -> result dict"""
    idx, text, timeout_ms, use_cvc5, tactics = job
    attempts = []
    r, model, secs, reason = _z3_check(text, timeout_ms)
    attempts.append(("z3", r, round(secs, 3), reason))
    backend = "z3"
    if r == "unknown":
        for tac in tactics or ():
            r, model, secs, reason = _z3_check(text, timeout_ms, tac)
            attempts.append(("z3:" + tac, r, round(secs, 3), reason))
            if r != "unknown":
                backend = "z3:" + tac
                break
    if r == "unknown" and use_cvc5:
        r2, _, secs2, reason2 = _cvc5_check(text, timeout_ms / 1000.0)
        attempts.append(("cvc5", r2, round(secs2, 3), reason2))
        if r2 != "unknown":
            r, backend = r2, "cvc5"
            if r2 == "sat":
                model = None
    return {"idx": idx, "result": r, "model": model, "backend": backend, "attempts": attempts,
            "seconds": round(sum(a[2] for a in attempts), 3)}


def discharge(obligations, timeout_ms=20000, procs=None, use_cvc5=True, tactics=("qfnra-nlsat",)):
    jobs = []
    for i, ob in enumerate(obligations):
        text = to_smt2(ob.hyps, ob.goal, negate=True)
        ob.meta['smt2'] = text
        tms = ob.meta.get('timeout_ms', timeout_ms)
        jobs.append((i, text, tms, use_cvc5, tactics))
    procs = procs or min(16, max(1, os.cpu_count() or 1))
    results = [None] * len(jobs)
    if len(jobs) <= 2 or procs == 1:
        for j in jobs:
            results[j[0]] = decide(j)
    else:
        ctxm = mp.get_context("fork")
        with ctxm.Pool(processes=procs) as pool:
            for res in pool.imap_unordered(decide, jobs, chunksize=1):
                results[res["idx"]] = res
    for ob, res in zip(obligations, results):
        r = res["result"]
        if ob.expect == "valid":
            verdict = {"unsat": "valid", "sat": "invalid"}.get(r, "unknown")
        elif ob.expect == "sat":       # cover: must be satisfiable
            verdict = {"sat": "valid", "unsat": "vacuous"}.get(r, "unknown")
        elif ob.expect == "fail":      # canary: must not be provable
            verdict = {"sat": "valid", "unknown": "valid", "unsat": "canary-proved"}[r]
        else:
            verdict = "unknown"
        res["verdict"] = verdict
        ob.meta['result'] = res
    return results
