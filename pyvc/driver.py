"""Property check driver: build obligations from the contracts, discharge them,
turn failures into replayed violations, write evidence."""
import importlib
import json
import os
import subprocess
import sys
import time
import traceback

from . import solve
from .engine import Session, Undecided

VERIF = os.path.dirname(os.path.dirname(os.path.abspath(__file__)))
# runs against a scratch copy (PYVC_REPO set by the mutation / seed tools) must not touch the committed evidence
SCRATCH = os.environ.get("PYVC_REPO", "/repo") != "/repo"
OUTDIR = os.environ.get("PYVC_OUT", "/tmp/pyvc_scratch_out") if SCRATCH else VERIF
NATIVE_PY = "/venv/bin/python"

EXIT_OK, EXIT_VIOLATION, EXIT_UNDECIDED, EXIT_ERROR = 0, 1, 2, 3


def native_call(prop, func, payload, timeout=600):
    """run /verif/native/<prop>.py:<func>(payload) under the repository's python"""
    cmd = [NATIVE_PY, os.path.join(VERIF, "native", "run.py"), prop.lower(), func]
    env = dict(os.environ)
    env["PYTHONPATH"] = os.environ.get("PYVC_REPO", "/repo") + os.pathsep + env.get("PYTHONPATH", "")
    env.setdefault("OMP_NUM_THREADS", "1")
    try:
        p = subprocess.run(cmd, input=json.dumps(payload), capture_output=True, text=True,
                           timeout=timeout, env=env, cwd=VERIF)
    except subprocess.TimeoutExpired:
        return {"error": "native call %s timed out after %ds" % (func, timeout)}
    out = p.stdout.strip().splitlines()
    for line in reversed(out):
        if line.startswith("{"):
            try:
                return json.loads(line)
            except ValueError:
                pass
    return {"error": "native call %s failed (rc=%s)" % (func, p.returncode),
            "stderr": (p.stderr or "")[-2000:], "stdout": (p.stdout or "")[-500:]}


def load_known():
    path = os.path.join(VERIF, "known_findings.json")
    if not os.path.exists(path):
        return {"findings": [], "fixed": []}
    with open(path) as f:
        return json.load(f)


def write_replay(prop, name, payload):
    d = os.path.join(OUTDIR, "replays", prop)
    os.makedirs(d, exist_ok=True)
    safe = name.replace("/", "_").replace(" ", "_")
    path = os.path.join(d, safe + ".json")
    with open(path, "w") as f:
        json.dump(payload, f, indent=1, default=str)
    return path



def repo_callees_not_under_contract(S):
    """functions of the repository that the functions under contract call (by name, from the AST) and that are neither under
    contract nor inlined in this run: the contracts treat them through models / assumed contracts -- unverified surroundings"""
    import ast as _ast
    import glob as _glob
    from .engine import REPO, find_function
    index = {}            # simple name -> set of qualified names defined in the repository
    for path in _glob.glob(os.path.join(REPO, "AegeanTools", "*.py")):
        mod = os.path.basename(path)[:-3]
        try:
            tree = _ast.parse(open(path).read())
        except Exception:
            continue
        for node in tree.body:
            if isinstance(node, _ast.FunctionDef):
                index.setdefault(node.name, set()).add("%s.%s" % (mod, node.name))
            elif isinstance(node, _ast.ClassDef):
                for st in node.body:
                    if isinstance(st, _ast.FunctionDef):
                        index.setdefault(st.name, set()).add("%s.%s.%s" % (mod, node.name, st.name))
    covered = set()
    for info in S.functions.values():
        covered.add(info["qualname"].split(".")[-1])
        for q in info.get("inlined", []):
            covered.add(q.split(".")[-1])
    out = set()
    for info in S.functions.values():
        try:
            node = find_function(info["file"], info["qualname"])
        except Exception:
            continue
        for n in _ast.walk(node):
            if isinstance(n, _ast.Call):
                f = n.func
                nm = f.id if isinstance(f, _ast.Name) else (f.attr if isinstance(f, _ast.Attribute) else None)
                if nm and nm in index and nm not in covered and not nm.startswith("__"):
                    out.update(index[nm])
    return sorted(out)


def main(argv=None):
    import argparse
    ap = argparse.ArgumentParser()
    ap.add_argument("prop")
    ap.add_argument("--tier", default=os.environ.get("VERIF_TIER", "quick"))
    ap.add_argument("--replay", default=None)
    ap.add_argument("--only", default=None, help="substring filter on target names (debug)")
    ap.add_argument("--verbose", "-v", action="store_true")
    args = ap.parse_args(argv)
    prop = args.prop.upper()
    tier = args.tier if args.tier in ("quick", "thorough") else "quick"
    try:
        seed = int(os.environ.get("VERIF_SEED", "0"))
    except ValueError:
        seed = 0
    t0 = time.time()
    try:
        mod = importlib.import_module("contracts.%s" % prop.lower())
    except ModuleNotFoundError:
        print("no contract module for %s" % prop)
        return EXIT_ERROR
    if args.replay:
        with open(args.replay) as f:
            rp = json.load(f)
        if not rp.get("native"):
            print("replay file carries no concrete input (obligation %s)" % rp.get("obligation"))
            print(json.dumps(rp.get("solver", {}), indent=1)[:3000])
            return EXIT_OK
        res = native_call(rp["native"].get("module", prop), rp["native"]["func"], rp["native"]["payload"])
        print(json.dumps(res, indent=1))
        return EXIT_VIOLATION if (res.get("fails") or res.get("missing")) else EXIT_OK

    S = Session(prop)
    S.tier = tier
    S.seed = seed
    S.only = args.only
    status = EXIT_OK
    undecided = []
    try:
        mod.verify(S)
    except Undecided as u:
        undecided.append(str(u))
    except Exception:
        traceback.print_exc()
        print("ERROR: internal error while generating obligations")
        return EXIT_ERROR
    undecided.extend(S.undecided)

    obs = S.obligations
    budget = 20000 if tier == "quick" else 180000
    budget = getattr(mod, "TIMEOUT_MS", {}).get(tier, budget)
    t1 = time.time()
    solve.discharge(obs, timeout_ms=budget, use_cvc5=True, cross=(tier == "thorough"))
    solve_s = time.time() - t1

    known = load_known()
    known_names = {}
    for k in known.get("findings", []):
        if k.get("property") == prop:
            known_names[k["obligation"]] = k

    # group by obligation name
    groups = {}
    for ob in obs:
        groups.setdefault(ob.name, []).append(ob)
    failing = {}
    guard_errors = []
    for name, lst in groups.items():
        for ob in lst:
            v = ob.meta['result']['verdict']
            if v == "valid":
                continue
            if ob.expect in ("sat", "fail") or v == "backend-disagreement":
                guard_errors.append((name, v))
            else:
                failing.setdefault(name, []).append(ob)

    # --- native cross-checks (CPython evaluation of the executable contracts) ---
    monitors = []
    native_fail = []
    for spec in getattr(mod, "NATIVE_CHECKS", []):
        if spec.get("tier", "quick") == "thorough" and tier != "thorough":
            continue
        payload = dict(spec.get("payload", {}))
        payload["seed"] = seed
        payload["tier"] = tier
        res = native_call(prop, spec["func"], payload, timeout=spec.get("timeout", 900))
        res["func"] = spec["func"]
        res["bounded"] = spec.get("bounded")
        monitors.append(res)
        if res.get("error"):
            guard_errors.append((spec["func"], "native check error: %s %s" % (res["error"], res.get("stderr", "")[-400:])))
        for fl in res.get("failures", []):
            native_fail.append((spec, fl))

    violations = []
    known_lines = []
    known_obligations = set()      # obligations that fail and are listed (and re-confirmed) as known findings: not part of the proof claim
    # --- guard: every dependency name a function under contract evaluates resolves in the repo's runtime
    mods = {}
    for info in S.functions.values():
        modname = info["file"][:-3].replace("/", ".")
        mods.setdefault(modname, set()).update(info.get("external_names", []))
    name_res = native_call("resolve", "resolve_names", {"modules": {k: sorted(v) for k, v in mods.items()}}, timeout=120)
    if name_res.get("error"):
        guard_errors.append(("external names", name_res.get("error") + name_res.get("stderr", "")[-300:]))
    for miss in name_res.get("missing", []):
        # attribute chains through objects (e.g. wcs.wcs.crval on an imported *instance*) cannot be told apart from
        # module attributes here; only report names whose first attribute is missing on a module
        nm = "%s.safe.external_name_resolves.%s" % (miss["module"].split(".")[-1], miss["name"])
        if nm in known_names:
            known_lines.append("KNOWN-FINDING: property=%s %s: %s" % (prop, nm, known_names[nm].get("what", "")))
            continue
        path = write_replay(prop, nm, {"property": prop, "obligation": nm,
                                       "native": {"func": "resolve_names", "module": "resolve",
                                                  "payload": {"modules": {miss["module"]: [miss["name"]]}}},
                                       "observed": miss})
        violations.append((nm, path, True))
    # --- failing obligations -> counterexample pipeline ---
    for name, lst in sorted(failing.items()):
        ob = lst[0]
        res = ob.meta['result']
        solver_info = {"obligation": name, "verdict": res['verdict'], "attempts": res['attempts'],
                       "model": res.get('model'), "smt2": ob.meta.get('smt2', '')[:20000],
                       "source_line": ob.line, "paths_failing": len(lst)}
        native = None
        rp = getattr(mod, "REPLAY", {}).get(ob.label) or getattr(mod, "REPLAY", {}).get(name) \
            or getattr(mod, "REPLAY", {}).get("*")
        replay_res = None
        if rp:
            models = [o.meta['result'].get('model') for o in lst if o.meta['result'].get('model')]
            payload = {"models": models[:8], "obligation": name, "seed": seed}
            replay_res = native_call(prop, rp, payload)
            if replay_res.get("fails"):
                native = {"func": replay_res.get("replay_func", rp),
                          "payload": replay_res.get("replay_payload", payload)}
        if name in known_names and (native or not rp or known_names[name].get("no_input")):
            known_lines.append("KNOWN-FINDING: property=%s %s: %s" % (prop, name, known_names[name].get("what", "")))
            known_obligations.add(name)
            continue
        path = write_replay(prop, name, {"property": prop, "obligation": name, "solver": solver_info,
                                         "native": native, "observed": replay_res})
        violations.append((name, path, native is not None))

    for spec, fl in native_fail:
        name = "%s.native.%s" % (spec["func"], fl.get("label", "contract"))
        kn = None
        for k in known.get("findings", []):
            if k.get("property") == prop and k.get("obligation") == fl.get("label"):
                kn = k
        if kn:
            known_lines.append("KNOWN-FINDING: property=%s %s: %s" % (prop, fl.get("label"), kn.get("what", "")))
            continue
        path = write_replay(prop, name, {"property": prop, "obligation": name,
                                         "native": {"func": fl.get("replay_func", spec["func"]),
                                                    "payload": fl.get("replay_payload", fl.get("input"))},
                                         "observed": fl})
        violations.append((name, path, True))

    # bounded stand-ins (declared by the contract module): reported separately, never part of the proof count
    bounded_decl = getattr(mod, "BOUNDED", [])
    bounded_rep = []
    bounded_names = set()
    for sub, what in bounded_decl:
        grp = [o for o in obs if sub in o.name]
        bounded_names.update(o.name for o in grp)
        bounded_rep.append({"what": what, "obligations": len(grp),
                            "discharged": len([o for o in grp if o.meta['result']['verdict'] == "valid"]), "counted_as_proved": False})
    n_obl = len([o for o in obs if o.name not in known_obligations and o.name not in bounded_names])
    n_dis = len([o for o in obs if o.meta['result']['verdict'] == "valid" and o.name not in known_obligations
                 and o.name not in bounded_names])
    per_backend = {}
    for o in obs:
        r = o.meta['result']
        bk = r['backend'] + ("+pyvc-ring" if o.meta.get('ring_proved_equalities') else "")
        per_backend.setdefault(bk, [0, 0.0])
        per_backend[bk][0] += 1
        per_backend[bk][1] += r['seconds']

    samples = []
    seen = set()
    for o in obs:
        if o.name in seen:
            continue
        seen.add(o.name)
        if len(samples) < 6:
            samples.append({"obligation": o.name, "verdict": o.meta['result']['verdict'],
                            "backend": o.meta['result']['backend'], "seconds": o.meta['result']['seconds'],
                            "source_line": o.line, "smt2": o.meta.get('smt2', '')[:1500]})
    named = []
    for name, lst in sorted(groups.items()):
        vs = [o.meta['result']['verdict'] for o in lst]
        named.append({"name": name, "vcs": len(lst), "kind": lst[0].kind,
                      "verdict": "valid" if all(v == "valid" for v in vs) else ",".join(sorted(set(vs))),
                      "seconds": round(sum(o.meta['result']['seconds'] for o in lst), 3)})

    try:
        callees_outside = repo_callees_not_under_contract(S)
    except Exception as e:        # never let the report break a check
        callees_outside = ["(not computed: %r)" % (e,)]
    evidence = {
        "property_id": prop, "tier": tier, "seed": seed, "level": "proof",
        "coverage": {
            "obligations": n_obl, "discharged": n_dis,
            "named_obligations": len(groups),
            "checker_cmd": "python3-vt /verif/check %s --tier %s  (pyvc: AST of %s -> VCs -> z3 %s / cvc5)" % (
                prop, tier, os.environ.get("PYVC_REPO", "/repo"), "5.1.0"),
            "trusted_base": sorted(S.trusted),
            "samples": samples,
            "obligation_table": named,
            "paths_explored": S.npaths,
            "functions_under_contract": list(S.functions.values()),
            "per_backend": {k: {"vcs": v[0], "seconds": round(v[1], 3)} for k, v in per_backend.items()},
            "solver_wall_s": round(solve_s, 3),
            "unmodelled_names": sorted(S.unmodelled),
            "repo_callees_not_under_contract": callees_outside,
            "external_names_resolved": name_res.get("checked", 0),
            "native_checks": monitors,
            "guards": {"errors": guard_errors,
                       "covers": len([o for o in obs if o.expect == "sat"]),
                       "canaries": len([o for o in obs if o.expect == "fail"])},
            "undecided": undecided,
            "known_findings_reported": known_lines,
            "known_finding_obligations": sorted(known_obligations),
            "bounded": bounded_rep + getattr(mod, "ENUMERATED", []),
            "notes": S.notes,
        },
        "assumptions": S.assumptions + getattr(mod, "ASSUMPTIONS", []),
        "wall_s": round(time.time() - t0, 3),
        "violations": len(violations),
    }
    os.makedirs(os.path.join(OUTDIR, "evidence"), exist_ok=True)
    with open(os.path.join(OUTDIR, "evidence", "%s.json" % prop), "w") as f:
        json.dump(evidence, f, indent=1, default=str)

    for line in known_lines:
        print(line)
    print("%s: %d VCs (%d named obligations) from %d function(s), %d discharged, %d paths, %.1fs" % (
        prop, n_obl, len(groups), len(S.functions), n_dis, S.npaths, time.time() - t0))
    if args.verbose:
        for n in named:
            print("   %-90s %3d  %s  %.2fs" % (n["name"], n["vcs"], n["verdict"], n["seconds"]))
    if guard_errors:
        for g in guard_errors:
            print("GUARD-ERROR: %s: %s" % g)
        status = EXIT_ERROR
    if undecided:
        for u in undecided:
            print("UNDECIDED: %s" % u)
        status = max(status, EXIT_UNDECIDED) if status != EXIT_ERROR else status
    if n_obl == 0:
        print("ERROR: zero obligations generated")
        status = EXIT_ERROR
    if violations:
        seen_v = set()
        for name, path, has_input in violations:
            if name in seen_v:
                continue
            seen_v.add(name)
            print("failed obligation: %s" % name)
            print("VIOLATION property=%s replay=%s%s" % (prop, path, "" if has_input else " no-failing-input-found"))
        return EXIT_VIOLATION
    return status
