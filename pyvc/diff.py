"""Symbolic differentiation of z3 real terms (the spec-side differentiator).

d/dv of a term built from + - * / constants, ToReal, u_sin, u_cos, u_exp,
u_sqrt and arbitrary sub-terms not containing v (constants).  This is the
mathematical derivative; it is what the property calls 'the true partial
derivative'."""
import z3

from .lib import f_sin, f_cos, f_exp, f_sqrt


def contains(e, v, memo=None):
    memo = {} if memo is None else memo
    i = e.get_id()
    if i in memo:
        return memo[i]
    if e.eq(v):
        memo[i] = True
        return True
    r = any(contains(c, v, memo) for c in e.children())
    memo[i] = r
    return r


def diff(e, v, memo=None, cmemo=None):
    memo = {} if memo is None else memo
    cmemo = {} if cmemo is None else cmemo
    i = e.get_id()
    if i in memo:
        return memo[i]
    if e.eq(v):
        r = z3.RealVal(1)
    elif not contains(e, v, cmemo):
        r = z3.RealVal(0)
    else:
        k = e.decl().kind()
        ch = e.children()
        d = lambda t: diff(t, v, memo, cmemo)
        if k == z3.Z3_OP_ADD:
            r = z3.Sum([d(c) for c in ch])
        elif k == z3.Z3_OP_SUB:
            r = d(ch[0])
            for c in ch[1:]:
                r = r - d(c)
        elif k == z3.Z3_OP_UMINUS:
            r = -d(ch[0])
        elif k == z3.Z3_OP_MUL:
            terms = []
            for j in range(len(ch)):
                if contains(ch[j], v, cmemo):
                    t = d(ch[j])
                    for m in range(len(ch)):
                        if m != j:
                            t = t * ch[m]
                    terms.append(t)
            r = z3.Sum(terms) if terms else z3.RealVal(0)
        elif k == z3.Z3_OP_DIV:
            a, b = ch
            if contains(b, v, cmemo):
                r = (d(a) * b - a * d(b)) / (b * b)
            else:
                r = d(a) / b
        elif k == z3.Z3_OP_TO_REAL:
            raise ValueError("derivative with respect to an integer-sorted variable")
        elif k == z3.Z3_OP_POWER:
            a, b = ch
            if contains(b, v, cmemo) or not (z3.is_int_value(b) or z3.is_rational_value(b)):
                raise ValueError("power with non-constant exponent")
            r = b * (a ** (b - 1)) * d(a)
        elif k == z3.Z3_OP_UNINTERPRETED and e.decl().eq(f_sin):
            r = f_cos(ch[0]) * d(ch[0])
        elif k == z3.Z3_OP_UNINTERPRETED and e.decl().eq(f_cos):
            r = -f_sin(ch[0]) * d(ch[0])
        elif k == z3.Z3_OP_UNINTERPRETED and e.decl().eq(f_exp):
            r = e * d(ch[0])
        elif k == z3.Z3_OP_UNINTERPRETED and e.decl().eq(f_sqrt):
            r = d(ch[0]) / (2 * e)
        else:
            raise ValueError("cannot differentiate %s" % e.decl())
    memo[i] = r
    return r
