"""Symbolic values used by the pyvc symbolic executor.

Concrete Python ints/bools/strs/None/tuples/lists/dicts are used as they are.
Everything that depends on a symbolic input is a `Sym` wrapping a z3 term of
sort Int, Real or Bool.  Python `float` constants are converted to exact
rationals (their shortest decimal repr) the moment they meet a `Sym`:
machine arithmetic is treated as mathematical (recorded as an assumption).
"""
from fractions import Fraction
import z3


class Undecided(Exception):
    """The code is outside the modelled subset / the contract no longer
    applies to the shape of the code.  Never a violation (exit 2)."""


class NaNType:
    """A non-finite float (NaN).  Arithmetic is absorbing, comparisons False."""
    _inst = None

    def __new__(cls):
        if cls._inst is None:
            cls._inst = object.__new__(cls)
        return cls._inst

    def __repr__(self):
        return "NaN"

    def _abs(self, *a):
        return self
    __add__ = __radd__ = __sub__ = __rsub__ = __mul__ = __rmul__ = _abs
    __truediv__ = __rtruediv__ = __neg__ = __pos__ = __abs__ = __pow__ = _abs
    __floordiv__ = __rfloordiv__ = __mod__ = __rmod__ = __rpow__ = _abs

    def _false(self, o):
        return False
    __lt__ = __le__ = __gt__ = __ge__ = __eq__ = _false

    def __ne__(self, o):
        return True

    def __hash__(self):
        return 7


NaN = NaNType()


class Opaque:
    """A havocked value of unknown sort.  Every operation on it yields another
    Opaque; branching on it is a free choice.  Each creation is recorded by the
    executor as an abstraction."""
    _n = 0

    def __init__(self, why=""):
        Opaque._n += 1
        self.why = why

    def __repr__(self):
        return "Opaque(%s)" % self.why

    def _op(self, *a, **k):
        return Opaque(self.why)
    __add__ = __radd__ = __sub__ = __rsub__ = __mul__ = __rmul__ = _op
    __truediv__ = __rtruediv__ = __neg__ = __pos__ = __abs__ = __pow__ = _op
    __floordiv__ = __rfloordiv__ = __mod__ = __rmod__ = __rpow__ = _op
    __lt__ = __le__ = __gt__ = __ge__ = _op
    __and__ = __or__ = __rand__ = __ror__ = __invert__ = __xor__ = _op
    __getitem__ = _op
    __call__ = _op

    def __eq__(self, o):
        return Opaque(self.why)

    def __ne__(self, o):
        return Opaque(self.why)

    def __hash__(self):
        return id(self)

    def __getattr__(self, name):
        if name.startswith('__'):
            raise AttributeError(name)
        return Opaque(self.why + "." + name)

    def __setitem__(self, k, v):
        pass


def frac_of_float(f):
    if f != f or f in (float('inf'), float('-inf')):
        raise ValueError("non finite float constant")
    return Fraction(repr(f))


def realval(v):
    if isinstance(v, bool):
        v = int(v)
    if isinstance(v, int):
        return z3.RealVal(v)
    if isinstance(v, Fraction):
        return z3.RealVal(str(v.numerator)) / z3.RealVal(str(v.denominator)) \
            if v.denominator != 1 else z3.RealVal(str(v.numerator))
    if isinstance(v, float):
        return realval(frac_of_float(v))
    raise TypeError(v)


def is_int_sort(e):
    return z3.is_int(e)


def is_real_sort(e):
    return z3.is_real(e)


def is_bool_sort(e):
    return z3.is_bool(e)


class Sym:
    """Wrapper of a z3 term with Python-number-like operators.

    `isfloat` marks Real terms that stand for a Python float (as opposed to an
    exact rational from the contract); used only by the optional rounding
    model."""
    __slots__ = ("e", "isfloat")

    def __init__(self, e, isfloat=None):
        self.e = e
        if isfloat is None:
            isfloat = z3.is_real(e)
        self.isfloat = isfloat

    # --- helpers -----------------------------------------------------
    @property
    def is_int(self):
        return z3.is_int(self.e)

    @property
    def is_real(self):
        return z3.is_real(self.e)

    @property
    def is_bool(self):
        return z3.is_bool(self.e)

    def __repr__(self):
        return "Sym(%s)" % (self.e,)

    def __hash__(self):
        return hash(self.e)

    @staticmethod
    def lift(v):
        """python/Sym -> z3 arithmetic or bool term"""
        if isinstance(v, Sym):
            return v.e
        if isinstance(v, bool):
            return z3.BoolVal(v)
        if isinstance(v, int):
            return z3.IntVal(v)
        if isinstance(v, (float, Fraction)):
            return realval(v)
        if z3.is_expr(v):
            return v
        raise Undecided("cannot lift %r to a term" % (v,))

    @staticmethod
    def num(v):
        """arithmetic term (bools become 0/1)"""
        e = Sym.lift(v)
        if z3.is_bool(e):
            e = z3.If(e, z3.IntVal(1), z3.IntVal(0))
        return e

    @staticmethod
    def unify(a, b):
        a = Sym.num(a)
        b = Sym.num(b)
        if z3.is_int(a) and z3.is_real(b):
            a = z3.ToReal(a)
        elif z3.is_real(a) and z3.is_int(b):
            b = z3.ToReal(b)
        return a, b

    def _bin(self, o, f, swap=False):
        if isinstance(o, (Opaque, NaNType)):
            return o
        a, b = Sym.unify(self, o)
        if swap:
            a, b = b, a
        return Sym(z3.simplify(f(a, b)))

    def __add__(self, o):
        return self._bin(o, lambda a, b: a + b)

    def __radd__(self, o):
        return self._bin(o, lambda a, b: a + b, True)

    def __sub__(self, o):
        return self._bin(o, lambda a, b: a - b)

    def __rsub__(self, o):
        return self._bin(o, lambda a, b: a - b, True)

    def __mul__(self, o):
        return self._bin(o, lambda a, b: a * b)

    def __rmul__(self, o):
        return self._bin(o, lambda a, b: a * b, True)

    def __neg__(self):
        return Sym(z3.simplify(-Sym.num(self)))

    def __pos__(self):
        return self

    def __abs__(self):
        e = Sym.num(self)
        return Sym(z3.If(e >= 0, e, -e))

    @staticmethod
    def _tdiv(a, b):
        if z3.is_int(a):
            a = z3.ToReal(a)
        if z3.is_int(b):
            b = z3.ToReal(b)
        return a / b

    def __truediv__(self, o):
        return self._bin(o, Sym._tdiv)

    def __rtruediv__(self, o):
        return self._bin(o, Sym._tdiv, True)

    @staticmethod
    def _fdiv(a, b):
        # Python floor division.  For Int operands z3's div is Euclidean:
        # equal to floor for b>0; for b<0 floor(a/b) = -((a) ediv (-b)) adj.
        if z3.is_int(a) and z3.is_int(b):
            return z3.If(b > 0, a / b, (-a) / (-b))
        if z3.is_int(a):
            a = z3.ToReal(a)
        if z3.is_int(b):
            b = z3.ToReal(b)
        return z3.ToReal(z3.ToInt(a / b))

    def __floordiv__(self, o):
        return self._bin(o, Sym._fdiv)

    def __rfloordiv__(self, o):
        return self._bin(o, Sym._fdiv, True)

    @staticmethod
    def _mod(a, b):
        if z3.is_int(a) and z3.is_int(b):
            return a - b * Sym._fdiv(a, b)
        if z3.is_int(a):
            a = z3.ToReal(a)
        if z3.is_int(b):
            b = z3.ToReal(b)
        return a - b * z3.ToReal(z3.ToInt(a / b))

    def __mod__(self, o):
        return self._bin(o, Sym._mod)

    def __rmod__(self, o):
        return self._bin(o, Sym._mod, True)

    def __pow__(self, o):
        if isinstance(o, int) and not isinstance(o, bool) and 0 <= o <= 8:
            e = Sym.num(self)
            r = z3.IntVal(1) if z3.is_int(e) else z3.RealVal(1)
            for _ in range(o):
                r = r * e
            return Sym(r)
        if isinstance(o, int) and -8 <= o < 0:
            return 1 / (self ** (-o))
        if isinstance(o, float) and o == 0.5:
            raise Undecided("x**0.5: use a sqrt model")
        raise Undecided("power with exponent %r" % (o,))

    def __rpow__(self, o):
        raise Undecided("symbolic exponent: needs a ghost model (e.g. pow2/pow4)")

    def _cmp(self, o, f):
        if isinstance(o, Opaque):
            return o
        if isinstance(o, NaNType):
            return False
        if o is None or isinstance(o, str):
            return NotImplemented
        a, b = Sym.unify(self, o)
        return Sym(z3.simplify(f(a, b)))

    def __lt__(self, o):
        return self._cmp(o, lambda a, b: a < b)

    def __le__(self, o):
        return self._cmp(o, lambda a, b: a <= b)

    def __gt__(self, o):
        return self._cmp(o, lambda a, b: a > b)

    def __ge__(self, o):
        return self._cmp(o, lambda a, b: a >= b)

    def __eq__(self, o):
        if o is None or isinstance(o, (str, tuple, list, dict)):
            return False
        if isinstance(o, NaNType):
            return False
        if isinstance(o, Opaque):
            return o
        if self.is_bool:
            return Sym(z3.simplify(self.e == Sym.lift(o)))
        r = self._cmp(o, lambda a, b: a == b)
        return r

    def __ne__(self, o):
        r = self.__eq__(o)
        if isinstance(r, bool):
            return not r
        if isinstance(r, Opaque):
            return r
        return Sym(z3.simplify(z3.Not(r.e)))

    # boolean / bit ops on Bool-sorted terms (numpy style & | ~)
    def __and__(self, o):
        if self.is_bool:
            return Sym(z3.simplify(z3.And(self.e, Sym.lift(o))))
        raise Undecided("bitwise and on symbolic integer")

    __rand__ = __and__

    def __or__(self, o):
        if self.is_bool:
            return Sym(z3.simplify(z3.Or(self.e, Sym.lift(o))))
        raise Undecided("bitwise or on symbolic integer")

    __ror__ = __or__

    def __invert__(self):
        if self.is_bool:
            return Sym(z3.simplify(z3.Not(self.e)))
        raise Undecided("bitwise not on symbolic integer")

    def __bool__(self):
        raise Undecided("python truth value of a symbolic term outside the executor: %s" % self.e)


def ite(c, a, b):
    """If-then-else over Sym/python scalars"""
    if isinstance(c, bool):
        return a if c else b
    ce = Sym.lift(c)
    if isinstance(a, bool) or (isinstance(a, Sym) and a.is_bool):
        return Sym(z3.simplify(z3.If(ce, Sym.lift(a), Sym.lift(b))))
    x, y = Sym.unify(a, b)
    return Sym(z3.simplify(z3.If(ce, x, y)))


def And(*xs):
    xs = [x for x in xs if x is not True]
    if any(x is False for x in xs):
        return False
    if not xs:
        return True
    return Sym(z3.And(*[Sym.lift(x) for x in xs]))


def Or(*xs):
    xs = [x for x in xs if x is not False]
    if any(x is True for x in xs):
        return True
    if not xs:
        return False
    return Sym(z3.Or(*[Sym.lift(x) for x in xs]))


def Not(x):
    if isinstance(x, bool):
        return not x
    return Sym(z3.Not(Sym.lift(x)))


def Implies(a, b):
    return Or(Not(a), b)


def to_int_trunc(x):
    """Python int(x): truncation toward zero."""
    if isinstance(x, bool):
        return int(x)
    if isinstance(x, int):
        return x
    if isinstance(x, (float, Fraction)):
        return int(x)
    e = Sym.num(x)
    if z3.is_int(e):
        return Sym(e)
    return Sym(z3.If(e >= 0, z3.ToInt(e), -z3.ToInt(-e)))


def floor(x):
    if isinstance(x, (int, float, Fraction)) and not isinstance(x, bool):
        import math
        return math.floor(x)
    e = Sym.num(x)
    if z3.is_int(e):
        return Sym(e)
    return Sym(z3.ToInt(e))


def ceil(x):
    if isinstance(x, (int, float, Fraction)) and not isinstance(x, bool):
        import math
        return math.ceil(x)
    e = Sym.num(x)
    if z3.is_int(e):
        return Sym(e)
    return Sym(-z3.ToInt(-e))


def to_real(x):
    if isinstance(x, Sym):
        e = Sym.num(x)
        return Sym(z3.ToReal(e), True) if z3.is_int(e) else x
    if isinstance(x, (int, float, Fraction)):
        return Sym(realval(x), True)
    raise Undecided("to_real(%r)" % (x,))


def smin(a, b):
    if not isinstance(a, Sym) and not isinstance(b, Sym):
        return min(a, b)
    return ite(a <= b, a, b)   # python min returns first if equal


def smax(a, b):
    if not isinstance(a, Sym) and not isinstance(b, Sym):
        return max(a, b)
    return ite(a >= b, a, b)
