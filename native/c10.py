"""C10 native cross-check: real MIMAS.mask_plane / mask_file / mask_table against per-pixel recomputation."""
import os
import random
import shutil
import tempfile

import numpy as np
from astropy.io import fits
from astropy.table import Table
from astropy.wcs import WCS

from AegeanTools import MIMAS
from AegeanTools.regions import Region


def mk_wcs(rnd, shape, proj='SIN'):
    w = WCS(naxis=2)
    cd = rnd.choice([0.5, 1.0, 2.0])
    w.wcs.crpix = [rnd.uniform(-2, shape[1] + 2), rnd.uniform(-2, shape[0] + 2)]
    w.wcs.cdelt = [-cd, cd]
    w.wcs.crval = [rnd.uniform(0, 360), rnd.uniform(-70, 70)]
    w.wcs.ctype = ["RA---" + proj, "DEC--" + proj]
    return w


def mk_region(rnd, w, shape, depth):
    r = Region(maxdepth=depth)
    kind = rnd.random()
    if kind < 0.6:
        ra, dec = w.wcs_pix2world(rnd.uniform(0, shape[1]), rnd.uniform(0, shape[0]), 0)
        r.add_circles(np.radians(float(ra)), np.radians(float(dec)), np.radians(rnd.uniform(0.6, 3.0)))
    else:
        # a region that contains the whole image except a hole in the middle (all four corners inside)
        ra, dec = w.wcs_pix2world((shape[1] - 1) / 2.0, (shape[0] - 1) / 2.0, 0)
        r.add_circles(np.radians(float(ra)), np.radians(float(dec)), np.radians(30.0))
        h = Region(maxdepth=depth)
        h.add_circles(np.radians(float(ra)), np.radians(float(dec)), np.radians(rnd.uniform(0.8, 1.6)))
        r.without(h)
    return r


def plane_failures(seed, negate):
    rnd = random.Random(seed)
    shape = (rnd.randint(3, 9), rnd.randint(3, 9))
    w = mk_wcs(rnd, shape, rnd.choice(['SIN', 'TAN', 'ZEA']))
    reg = mk_region(rnd, w, shape, rnd.choice([7, 8, 9]))
    data = np.arange(shape[0] * shape[1], dtype=float).reshape(shape)
    data[0, 0] = np.nan
    orig = data.copy()
    out = MIMAS.mask_plane(data, w, reg, negate=negate)
    fails = []
    if out is not data:
        fails.append("mask_plane did not return the array it was given")
    nin = 0
    for r in range(shape[0]):
        for c in range(shape[1]):
            ra, dec = w.wcs_pix2world(c, r, 0)
            inside = bool(reg.sky_within(float(ra), float(dec), degin=True)[0])
            nin += inside
            want_blank = np.isnan(orig[r, c]) or (inside if negate else not inside)
            if np.isnan(out[r, c]) != want_blank:
                fails.append("pixel (row %d, col %d): centre is %s the region, blank=%s (negate=%s)" % (
                    r, c, "inside" if inside else "outside", bool(np.isnan(out[r, c])), negate))
            elif not want_blank and out[r, c] != orig[r, c]:
                fails.append("pixel (%d,%d) value changed" % (r, c))
    return fails[:4], (0 < nin < shape[0] * shape[1])


def table_failures(seed, negate, cols=('ra', 'dec')):
    rnd = random.Random(seed)
    reg = Region(maxdepth=7)
    reg.add_circles(np.radians(50.0), np.radians(-20.0), np.radians(5.0))
    # cover the places a NaN position could be mistaken for: the poles and the RA=0 / dec=0 lines
    reg.add_circles(np.radians([0.0, 0.0, 0.0, 50.0]), np.radians([90.0, -90.0, 0.0, 0.0]), np.radians([3.0, 3.0, 3.0, 3.0]))
    reg.add_circles(np.radians([0.0, 0.0]), np.radians([-20.0, -25.0]), np.radians([4.0, 4.0]))
    n = rnd.randint(0, 12)
    ra = np.array([rnd.uniform(40, 60) for _ in range(n)])
    dec = np.array([rnd.uniform(-30, -10) for _ in range(n)])
    if n > 2:
        ra[1] = np.nan
        dec[2] = np.nan
    t = Table({cols[0]: ra, cols[1]: dec, 'id': np.arange(n)})
    out = MIMAS.mask_table(reg, t, negate=negate, racol=cols[0], deccol=cols[1])
    want = []
    for k in range(n):
        inside = np.isfinite(ra[k]) and np.isfinite(dec[k]) and bool(reg.sky_within(ra[k], dec[k], degin=True)[0])
        if inside == negate:
            want.append(k)
    got = list(out['id'])
    if got != want:
        return ["rows kept %r, expected %r (negate=%s)" % (got, want, negate)]
    return []


def file_failures(seed):
    rnd = random.Random(seed)
    d = tempfile.mkdtemp(prefix="c10_")
    fails = []
    try:
        shape = (3, 6, 7)
        w = mk_wcs(rnd, shape[1:])
        reg = mk_region(rnd, w, shape[1:], 8)
        reg.save(os.path.join(d, "r.mim"))
        cube = rnd.random() < 0.7
        data = np.arange(np.prod(shape), dtype=np.float32).reshape(shape) if cube else np.arange(42, dtype=np.float32).reshape(6, 7)
        # blank pixels that differ from plane to plane
        if cube:
            data[0, 1, 1] = np.nan
            data[2, 4, 5] = np.nan
            if seed % 2:
                data[1] = 0.0          # a channel of exact zeros is data like any other
        else:
            data[1, 1] = np.nan
        blank_before = np.isnan(data)
        hdu = fits.PrimaryHDU(data, header=w.to_header())
        hdu.writeto(os.path.join(d, "in.fits"))
        MIMAS.mask_file(os.path.join(d, "r.mim"), os.path.join(d, "in.fits"), os.path.join(d, "out.fits"))
        out = fits.getdata(os.path.join(d, "out.fits"))
        ref = np.array(data[0] if cube else data, dtype=float)
        ref = MIMAS.mask_plane(ref, w, reg)
        planes = out if cube else [out]
        ref = np.array(np.zeros(shape[1:]), dtype=float)
        ref = np.isnan(MIMAS.mask_plane(ref, w, reg))
        for k, pl in enumerate(planes):
            want = ref | (blank_before[k] if cube else blank_before)
            if not np.array_equal(np.isnan(pl), want):
                fails.append("plane %d of the written file: blank pixels differ from (already blank) or (outside the region)" % k)
    finally:
        shutil.rmtree(d, ignore_errors=True)
    return fails


def reused_region_failures(seed):
    """the same Region object is used, changed, and used again: the second mask must follow the changed region"""
    rnd = random.Random(seed)
    shape = (7, 8)
    w = mk_wcs(rnd, shape, 'SIN')
    reg = mk_region(rnd, w, shape, 8)
    first = MIMAS.mask_plane(np.zeros(shape), w, reg)
    ra, dec = w.wcs_pix2world(rnd.uniform(0, shape[1]), rnd.uniform(0, shape[0]), 0)
    other = Region(maxdepth=8)
    other.add_circles(np.radians(float(ra)), np.radians(float(dec)), np.radians(rnd.uniform(0.8, 2.5)))
    op = rnd.choice(['union', 'without', 'symmetric_difference', 'intersect'])
    getattr(reg, op)(other)
    got = np.isnan(MIMAS.mask_plane(np.zeros(shape), w, reg))
    # reference: a fresh region object with the same pixels
    fresh = Region(maxdepth=8)
    for d_, px in reg.pixeldict.items():
        if len(px):
            fresh.add_pixels(np.array(sorted(int(q) for q in px)), d_)
    want = np.isnan(MIMAS.mask_plane(np.zeros(shape), w, fresh))
    if not np.array_equal(got, want):
        return ["after %s() on an already used region the mask still follows the old footprint (%d pixels differ)" % (op, int((got != want).sum()))]
    return []


def offsky_failures(seed, negate):
    """an all-sky image: pixels outside the projection have no sky position -- never inside any region"""
    rnd = random.Random(seed)
    shape = (18, 36)
    w = WCS(naxis=2)
    w.wcs.crpix = [shape[1] / 2 + 0.5, shape[0] / 2 + 0.5]
    w.wcs.cdelt = [-10.0, 10.0]
    w.wcs.crval = [rnd.uniform(0, 360), 0.0]
    w.wcs.ctype = ["RA---AIT", "DEC--AIT"]
    reg = Region(maxdepth=5)
    reg.add_circles(np.radians(w.wcs.crval[0]), np.radians(rnd.uniform(-30, 30)), np.radians(rnd.uniform(30, 70)))
    data = np.ones(shape)
    out = MIMAS.mask_plane(data.copy(), w, reg, negate=negate)
    fails, noff = [], 0
    for r in range(shape[0]):
        for c in range(shape[1]):
            ra, dec = w.wcs_pix2world(c, r, 0)
            finite = bool(np.isfinite(ra) and np.isfinite(dec))
            noff += not finite
            inside = finite and bool(reg.sky_within(float(ra), float(dec), degin=True)[0])
            want_blank = inside if negate else not inside
            if bool(np.isnan(out[r, c])) != want_blank:
                fails.append("pixel (row %d, col %d) %s: blank=%s (negate=%s)" % (
                    r, c, "has no sky position" if not finite else ("inside" if inside else "outside"), bool(np.isnan(out[r, c])), negate))
    if noff == 0:
        fails.append("harness: no off-sky pixel in the all-sky image")
    return fails[:3]


def masked_table_failures(seed, negate):
    """rows whose coordinates are masked (blank cells of a csv / VOTable) have no position: never inside"""
    rnd = random.Random(seed)
    reg = Region(maxdepth=7)
    reg.add_circles(np.radians([0.0, 50.0]), np.radians([0.0, -20.0]), np.radians([6.0, 5.0]))
    n = rnd.randint(3, 10)
    ra = np.ma.masked_array([rnd.uniform(44, 56) for _ in range(n)], mask=[False] * n)
    dec = np.ma.masked_array([rnd.uniform(-26, -14) for _ in range(n)], mask=[False] * n)
    ra.data[1], dec.data[1] = 0.0, 0.0            # the value stored under the mask lies inside the region
    ra[1] = np.ma.masked
    dec.data[2] = -20.0
    ra.data[2] = 50.0
    dec[2] = np.ma.masked
    t = Table({'ra': ra, 'dec': dec, 'id': np.arange(n)}, masked=True)
    out = MIMAS.mask_table(reg, t, negate=negate)
    want = []
    for k in range(n):
        has = not (ra.mask[k] or dec.mask[k])
        inside = has and bool(reg.sky_within(float(ra.data[k]), float(dec.data[k]), degin=True)[0])
        if inside == negate:
            want.append(k)
    got = [int(v) for v in out['id']]
    if got != want:
        return ["masked coordinates: rows kept %r, expected %r (negate=%s)" % (got, want, negate)]
    return []


def integer_table_failures(negate):
    """coordinates stored as integers (whole-degree grid positions): same answers as the same numbers stored as floats"""
    reg = Region(maxdepth=6)
    reg.add_circles(np.radians([50.0, 10.0]), np.radians([-20.0, 30.0]), np.radians([6.0, 8.0]))
    ra = np.array([50, 52, 70, 10, 14, 200, 0, 57], dtype=np.int64)
    dec = np.array([-20, -22, -20, 30, 33, 5, 0, -20], dtype=np.int64)
    ti = Table({'ra': ra, 'dec': dec, 'id': np.arange(len(ra))})
    tf = Table({'ra': ra.astype(float), 'dec': dec.astype(float), 'id': np.arange(len(ra))})
    gi = [int(v) for v in MIMAS.mask_table(reg, ti, negate=negate)['id']]
    gf = [int(v) for v in MIMAS.mask_table(reg, tf, negate=negate)['id']]
    want = [k for k in range(len(ra)) if bool(reg.sky_within(float(ra[k]), float(dec[k]), degin=True)[0]) == negate]
    if gi != want or gf != want:
        return ["integer-typed columns keep rows %r, float columns %r, expected %r (negate=%s)" % (gi, gf, want, negate)]
    return []


def crosscheck(p):
    n = 12 if p.get("tier") != "thorough" else 150
    s0 = p.get("seed", 0) * 1000
    failures, seen, evals, edge = [], set(), 0, 0

    def add(label, inp, what, payload):
        if label not in seen:
            seen.add(label)
            failures.append({"label": label, "input": inp, "what": what, "replay_func": "replay_masking", "replay_payload": payload})
    for i in range(n):
        for negate in (False, True):
            evals += 1
            fl, has_edge = plane_failures(s0 + i, negate)
            edge += has_edge
            if fl:
                add("pixel_centre_convention_and_membership", {"seed": s0 + i, "negate": negate}, fl, {"planes": [[s0 + i, negate]]})
            evals += 1
            fl = table_failures(s0 + i, negate, ('ra', 'dec') if i % 2 else ('RAJ2000', 'DEJ2000'))
            if fl:
                add("rows_kept_iff_not_inside", {"seed": s0 + i, "negate": negate}, fl, {"tables": [[s0 + i, negate]]})
    for i in range(4 if p.get("tier") != "thorough" else 40):
        evals += 1
        fl = reused_region_failures(s0 + i)
        if fl:
            add("region_answers_follow_region_changes", {"reuse_seed": s0 + i}, fl, {"reuse": [s0 + i]})
        for negate in (False, True):
            evals += 1
            try:
                fl = offsky_failures(s0 + i, negate)
            except Exception as e:
                fl = ["mask_plane on an all-sky image raised %r" % (e,)]
            if fl:
                add("pixel_centre_convention_and_membership.off_sky", {"offsky_seed": s0 + i, "negate": negate}, fl, {"offsky": [[s0 + i, negate]]})
            evals += 1
            try:
                fl = masked_table_failures(s0 + i, negate)
            except Exception as e:
                fl = ["mask_table with masked coordinates raised %r" % (e,)]
            if fl:
                add("rows_kept_iff_not_inside.masked", {"masked_seed": s0 + i, "negate": negate}, fl, {"masked": [[s0 + i, negate]]})
    for negate in (False, True):
        evals += 1
        try:
            fl = integer_table_failures(negate)
        except Exception as e:
            fl = ["mask_table with integer coordinates raised %r" % (e,)]
        if fl:
            add("rows_kept_iff_not_inside.integer_columns", {"integer_columns": True, "negate": negate}, fl, {"integer": [negate]})
    for i in range(3):
        evals += 1
        fl = file_failures(s0 + i)
        if fl:
            add("all_planes_masked", {"seed": s0 + i}, fl, {"files": [s0 + i]})
    return {"evaluations": evals, "failures": failures, "region_edge_cuts_image": edge,
            "rule": "random small images (SIN/TAN/ZEA, CRPIX on/off image), circle regions at depth 7-9: every pixel recomputed "
                    "with wcs_pix2world(col,row,0)+sky_within; tables with NaN coordinates and custom column names; cubes via mask_file"}


def replay_masking(p):
    bad = []
    for s in p.get("reuse") or []:
        fl = reused_region_failures(s)
        if fl:
            bad.append({"reuse_seed": s, "what": fl})
    for s, n in p.get("offsky") or []:
        fl = offsky_failures(s, n)
        if fl:
            bad.append({"offsky_seed": s, "negate": n, "what": fl})
    for s, n in p.get("masked") or []:
        fl = masked_table_failures(s, n)
        if fl:
            bad.append({"masked_seed": s, "negate": n, "what": fl})
    for n in p.get("integer") or []:
        fl = integer_table_failures(n)
        if fl:
            bad.append({"integer_columns": True, "negate": n, "what": fl})
    if p.get("reuse") or p.get("offsky") or p.get("masked") or p.get("integer") is not None:
        return {"fails": bool(bad), "observed": bad, "replay_func": "replay_masking", "replay_payload": p}
    planes = p.get("planes") or ([[s, n] for s in range(40) for n in (False, True)] if not p.get("tables") and not p.get("files") else [])
    for s, n in planes:
        fl, _ = plane_failures(s, n)
        if fl:
            bad.append({"plane_seed": s, "negate": n, "what": fl})
            break
    for s, n in p.get("tables") or ([[s, n] for s in range(10) for n in (False, True)] if not p.get("planes") and not p.get("files") else []):
        fl = table_failures(s, n)
        if fl:
            bad.append({"table_seed": s, "negate": n, "what": fl})
            break
    for s in p.get("files") or ([0, 1] if not p.get("planes") and not p.get("tables") else []):
        fl = file_failures(s)
        if fl:
            bad.append({"file_seed": s, "what": fl})
            break
    return {"fails": bool(bad), "observed": bad, "replay_func": "replay_masking",
            "replay_payload": {"planes": [[b["plane_seed"], b["negate"]] for b in bad if "plane_seed" in b],
                               "tables": [[b["table_seed"], b["negate"]] for b in bad if "table_seed" in b],
                               "files": [b["file_seed"] for b in bad if "file_seed" in b]}}
