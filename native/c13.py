"""C13 native cross-check: real blind runs on an image and on its negation; polarity filters partition the catalogue."""
import logging
import os
import random
import shutil
import tempfile

import numpy as np
from astropy.io import fits

from AegeanTools import fitting
from AegeanTools.models import ComponentSource
from AegeanTools.source_finder import SourceFinder

K = 1 / (2 * np.sqrt(2 * np.log(2)))
log = logging.getLogger("c13")
log.addHandler(logging.NullHandler())
log.propagate = False
# the two fits stop within the optimiser's own tolerance of each other (observed up to 2e-5 relative); 3e-4 is far below any
# asymmetry of the code (a wrong bound or order changes results by percent)
TOL = 3e-4
COLS = ('ra', 'dec', 'a', 'b', 'pa', 'err_ra', 'err_dec', 'err_a', 'err_b', 'err_pa', 'err_peak_flux', 'err_int_flux', 'local_rms')


def mk(seed, mixed=False, small=False, quantised=False):
    rnd = random.Random(seed)
    shape = (rnd.randint(90, 120), rnd.randint(90, 130)) if not small else (44, 70)
    h = fits.Header()
    h['NAXIS'], h['NAXIS1'], h['NAXIS2'] = 2, shape[1], shape[0]
    h['CTYPE1'], h['CTYPE2'] = 'RA---SIN', 'DEC--SIN'
    h['CRVAL1'], h['CRVAL2'] = rnd.uniform(5, 355), rnd.uniform(-50, 50)
    s = 10 / 3600
    h['CDELT1'], h['CDELT2'], h['CRPIX1'], h['CRPIX2'] = -s, s, shape[1] / 2.0, shape[0] / 2.0
    h['BMAJ'], h['BMIN'], h['BPA'] = 5 * s, 4 * s, 15.0
    R, C = np.mgrid[0:shape[0], 0:shape[1]]
    noise = 0.02
    img = np.random.default_rng(seed).normal(scale=noise, size=shape)
    cells = [(r, c) for r in (22, 60) for c in (22, 60, 95) if r < shape[0] - 20 and c < shape[1] - 20] if not small else [(22, 20), (22, 50)]
    rnd.shuffle(cells)
    n = rnd.randint(2, len(cells))
    for k, (r, c) in enumerate(cells[:n]):
        amp = (1 if k % 2 == 0 else -1) * rnd.uniform(0.8, 4)
        r, c = r + rnd.uniform(-2, 2), c + rnd.uniform(-2, 2)
        img += fitting.elliptical_gaussian(R, C, amp, r, c, 5 * K * rnd.uniform(1, 1.4), 4 * K, 15.0)
        if rnd.random() < 0.3:      # a blended companion of the same sign
            img += fitting.elliptical_gaussian(R, C, amp * 0.7, r + 4.5, c + 3.0, 5 * K, 4 * K, 15.0)
        if mixed and k == 0:        # a companion of the opposite sign inside the same island
            img += fitting.elliptical_gaussian(R, C, -amp * 0.9, r + 4.0, c + 1.0, 5 * K, 4 * K, 15.0)
    if quantised:
        # integer multiples of the noise: pixels sit exactly on the clipping thresholds, in both polarities
        img = np.round(img / noise) * noise
    return h, img.astype(np.float32), noise


def run(h, img, noise, bkgmap=None, **kw):
    tmp = tempfile.mkdtemp(prefix="c13_")
    try:
        path = os.path.join(tmp, "im.fits")
        fits.PrimaryHDU(img, header=h).writeto(path)
        if bkgmap is not None:
            bpath, rpath = os.path.join(tmp, "bkg.fits"), os.path.join(tmp, "rms.fits")
            fits.PrimaryHDU(bkgmap.astype(np.float32), header=h).writeto(bpath)
            fits.PrimaryHDU(np.full(img.shape, noise, dtype=np.float32), header=h).writeto(rpath)
            rows = SourceFinder(log=log).find_sources_in_image(path, bkgin=bpath, rmsin=rpath, cores=1, **kw)
        else:
            rows = SourceFinder(log=log).find_sources_in_image(path, rms=noise, bkg=0.0, cores=1, **kw)
    finally:
        shutil.rmtree(tmp, ignore_errors=True)
    LAST_ISLANDS[:] = [r for r in rows if not isinstance(r, ComponentSource)]
    return [r for r in rows if isinstance(r, ComponentSource)]


LAST_ISLANDS = []


def key(r):
    return (round(r.ra, 7), round(r.dec, 7))


def mirror_failures(seed, mixed=False, withbkg=False, quantised=False):
    h, img, noise = mk(seed, mixed, small=withbkg, quantised=quantised)     # small: a background that is not removed makes one image-sized island
    if withbkg:      # file-supplied background (positive everywhere), negated together with the image
        R, C = np.mgrid[0:img.shape[0], 0:img.shape[1]]
        bk = (0.5 + 0.002 * R + 0.001 * C).astype(np.float32)
        a = run(h, img + bk, noise, bkgmap=bk)
        b = run(h, -(img + bk), noise, bkgmap=-bk)
    else:
        a = run(h, img, noise, doislandflux=True)
        ia = list(LAST_ISLANDS)
        b = run(h, -img, noise, doislandflux=True)
        ib = list(LAST_ISLANDS)
        if not mixed:
            # island rows: same islands, same position / extent / pixel count, fluxes negated
            if len(ia) != len(ib):
                return [("island_rows_mirror", "%d island rows for the image, %d for its negation" % (len(ia), len(ib)))]
            for x, y in zip(sorted(ia, key=lambda r: r.island), sorted(ib, key=lambda r: r.island)):
                if abs(x.ra - y.ra) > 1e-9 or abs(x.dec - y.dec) > 1e-9 or list(x.extent) != list(y.extent) or x.pixels != y.pixels \
                        or not np.isclose(y.peak_flux, -x.peak_flux, rtol=1e-6) or not np.isclose(y.int_flux, -x.int_flux, rtol=1e-6, atol=1e-9) \
                        or x.components != y.components:
                    return [("island_rows_mirror", "island %s: (ra, dec, peak, int, pixels, extent) = (%r, %r, %r, %r, %r, %r) becomes (%r, %r, %r, %r, %r, %r)" % (
                        x.island, x.ra, x.dec, x.peak_flux, x.int_flux, x.pixels, x.extent, y.ra, y.dec, y.peak_flux, y.int_flux, y.pixels, y.extent))]
    out = []
    lab = "polarity_class.negated_island_is_classified_opposite" if mixed else None
    if len(a) != len(b):
        return [(lab or "summit_params.both_runs_skip_the_summit_or_neither",
                 "image gives %d components (peaks %s), its negation %d (peaks %s)" % (
                     len(a), [round(r.peak_flux, 2) for r in a], len(b), [round(r.peak_flux, 2) for r in b]))]
    A = sorted(a, key=lambda r: (r.island, r.source))
    B = sorted(b, key=lambda r: (r.island, r.source))
    multi = {}
    for r_ in A:
        multi[r_.island] = multi.get(r_.island, 0) + 1

    def same(u, v, err, rel=TOL, loose=False):
        """equal up to where the optimiser stops: a relative tolerance or the reported 1-sigma error (degenerate blends sit in flat valleys)"""
        if not (np.isfinite(u) and np.isfinite(v)):
            return bool(np.isnan(u) and np.isnan(v)) or u == v
        # components of a blend sit in flat, sometimes bound-limited valleys: the two runs may stop further apart
        slack = (2.0 if loose else 1.0) * err if (err is not None and np.isfinite(err) and err > 0) else 0.0
        if loose:
            rel = max(rel, 0.5 if err is None and rel >= 0.05 else rel)
        return abs(u - v) <= max(rel * max(abs(u), abs(v)), slack, 1e-7)
    ERR_OF = {'ra': 'err_ra', 'dec': 'err_dec', 'a': 'err_a', 'b': 'err_b', 'pa': 'err_pa'}
    for x, y in zip(A, B):
        L = multi[x.island] > 1
        if not same(y.peak_flux, -x.peak_flux, x.err_peak_flux, loose=L) or not same(y.int_flux, -x.int_flux, x.err_int_flux, loose=L):
            out.append((lab or "summit_params.amplitude_is_negated_with_mirrored_bounds",
                        "component (%d,%d): peak %r -> %r (+- %r), int_flux %r -> %r (+- %r)" % (
                            x.island, x.source, x.peak_flux, y.peak_flux, x.err_peak_flux, x.int_flux, y.int_flux, x.err_int_flux)))
            break
        if int(x.flags) != int(y.flags):
            out.append((lab or "summit_params.same_parameters_free_and_same_flags", "flags %s -> %s" % (x.flags, y.flags)))
            break
        bad = []
        for c in COLS:
            u, v = getattr(x, c), getattr(y, c)
            if c in ERR_OF:
                e = getattr(x, ERR_OF[c])
                if c == 'ra':
                    e = e / max(np.cos(np.radians(x.dec)), 1e-3) if e is not None and e > 0 else e
                ok = same(u, v, e, loose=L)
                if c == 'pa' and x.b > 0 and x.a / x.b < 1.1:
                    ok = True          # the orientation of a (nearly) round component is not defined
            elif c.startswith('err_'):
                # the uncertainties themselves: to 5 %; inside blends they come from an ill-conditioned covariance and are not compared
                ok = True if L else same(u, v, None, rel=0.05)
            else:
                ok = same(u, v, None, loose=L)
            if not ok:
                bad.append(c)
        if bad:
            out.append((lab or "summit_params.position_and_shape_start_values_and_bounds_are_the_same",
                        "component (%d,%d): %s changes under negation: %r -> %r" % (x.island, x.source, bad[0], getattr(x, bad[0]), getattr(y, bad[0]))))
            break
    return out


def filter_failures(seed, mixed=False):
    h, img, noise = mk(seed, mixed)
    both = run(h, img, noise, nopositive=False, nonegative=False)
    pos = run(h, img, noise, nopositive=False, nonegative=True)
    neg = run(h, img, noise, nopositive=True, nonegative=False)
    out = []
    kb, kp, kn = [sorted((key(r), round(r.peak_flux, 6)) for r in rows) for rows in (both, pos, neg)]
    if any(p < 0 for _, p in kp):
        out.append(("filter.positive_only_has_no_negative_peak", "positive-only catalogue holds peak %s" % min(p for _, p in kp)))
    if any(p > 0 for _, p in kn):
        out.append(("filter.negative_only_has_no_positive_peak", "negative-only catalogue holds peak %s" % max(p for _, p in kn)))
    if set(kp) & set(kn):
        out.append(("filter.row_in_both_single_polarity_catalogues_has_no_sign", "rows in both single-polarity catalogues: %s" % sorted(set(kp) & set(kn))[:2]))
    if sorted(kp + kn) != kb:
        out.append(("filter.union_of_single_polarity_catalogues_is_the_both_catalogue",
                    "%d positive + %d negative rows vs %d rows with both polarities" % (len(kp), len(kn), len(kb))))
    if not any(p > 0 for _, p in kb) or not any(p < 0 for _, p in kb):
        out.append(("harness", "image without both polarities"))
    return [o for o in out if o[0] != "harness"]


def reuse_failures(seed):
    """one SourceFinder object used for three calls with different polarity options: each call must obey its own options"""
    h, img, noise = mk(seed)
    tmp = tempfile.mkdtemp(prefix="c13_")
    try:
        path = os.path.join(tmp, "im.fits")
        fits.PrimaryHDU(img, header=h).writeto(path)
        sf = SourceFinder(log=log)
        cats = []
        for kw in (dict(nopositive=False, nonegative=False), dict(nopositive=False, nonegative=True), dict(nopositive=True, nonegative=False)):
            sf.sources = []
            rows = sf.find_sources_in_image(path, rms=noise, bkg=0.0, cores=1, **kw)
            cats.append([r for r in rows if isinstance(r, ComponentSource)])
    finally:
        shutil.rmtree(tmp, ignore_errors=True)
    both, pos, neg = cats
    if any(r.peak_flux < 0 for r in pos):
        return [("filter.positive_only_has_no_negative_peak", "a finder object first used for both polarities returns negative peaks when asked for positive only")]
    if any(r.peak_flux > 0 for r in neg):
        return [("filter.negative_only_has_no_positive_peak", "a re-used finder object returns positive peaks when asked for negative only")]
    if len(pos) + len(neg) != len(both):
        return [("filter.union_of_single_polarity_catalogues_is_the_both_catalogue", "re-used finder: %d + %d rows vs %d" % (len(pos), len(neg), len(both)))]
    return []


def crosscheck(p):
    thorough = p.get("tier") == "thorough"
    s0 = p.get("seed", 0) * 4001
    failures, seen, evals = [], set(), 0

    def note(fl, inp, payload):
        for lab, what in fl:
            if lab not in seen:
                seen.add(lab)
                failures.append({"label": lab, "input": inp, "what": what, "replay_func": "replay_symmetry", "replay_payload": payload})
    for i in range(40 if thorough else 6):
        evals += 1
        try:
            fl = mirror_failures(s0 + i)
        except Exception as e:
            fl = [("mirror_run_completes", repr(e))]
        note(fl, {"mirror_seed": s0 + i}, {"mirror": [s0 + i]})
    for i in range(12 if thorough else 3):
        evals += 1
        try:
            fl = filter_failures(s0 + i)
        except Exception as e:
            fl = [("filter_run_completes", repr(e))]
        note(fl, {"filter_seed": s0 + i}, {"filter": [s0 + i]})
    for i in range(8 if thorough else 2):
        evals += 1
        try:
            fl = mirror_failures(s0 + i, withbkg=True)
        except Exception as e:
            fl = [("mirror_run_completes", repr(e))]
        note(fl, {"bkg_seed": s0 + i}, {"withbkg": [s0 + i]})
        evals += 1
        try:
            fl = filter_failures(s0 + i, mixed=True)
        except Exception as e:
            fl = [("filter_run_completes", repr(e))]
        note(fl, {"filter_mixed_seed": s0 + i}, {"filter_mixed": [s0 + i]})
    for i in range(4 if thorough else 1):
        evals += 1
        try:
            fl = reuse_failures(s0 + i)
        except Exception as e:
            fl = [("filter_run_completes", repr(e))]
        note(fl, {"reuse_seed": s0 + i}, {"reuse": [s0 + i]})
    for i in range(8 if thorough else 3):
        evals += 1
        try:
            fl = mirror_failures(s0 + i, quantised=True)
        except Exception as e:
            fl = [("mirror_run_completes", repr(e))]
        note(fl, {"quantised_seed": s0 + i}, {"quantised": [s0 + i]})
    for i in range(6 if thorough else 2):
        evals += 1
        try:
            fl = mirror_failures(s0 + i, mixed=True)
        except Exception as e:
            fl = [("mirror_run_completes", repr(e))]
        note(fl, {"mixed_seed": s0 + i}, {"mixed": [s0 + i]})
    return {"evaluations": evals, "failures": failures,
            "rule": "real blind runs on random mixed-sign images (isolated and blended sources, noise) and on their negation: same "
                    "rows with peak/int_flux negated, other columns and flags equal up to where the optimiser stops (3e-4 relative or the reported 1-sigma error; errors to 5 %); positive-only / negative-only / both "
                    "catalogues partition; islands holding both signs are exercised separately (known finding)"}


def replay_symmetry(p):
    bad = []
    ob = p.get("obligation", "")
    explicit = any(k in p for k in ("mirror", "filter", "mixed", "withbkg", "filter_mixed", "quantised", "reuse"))
    for s in p.get("quantised") or ([] if explicit or 'find_islands' not in ob else range(3)):
        fl = mirror_failures(s, quantised=True)
        if fl:
            bad.append({"quantised": s, "what": fl})
            break
    for s in p.get("reuse") or ([] if explicit or 'filter' not in ob else range(2)):
        fl = reuse_failures(s)
        if fl:
            bad.append({"reuse": s, "what": fl})
            break
    for s in p.get("withbkg") or ([] if explicit or 'background' not in ob else range(2)):
        fl = mirror_failures(s, withbkg=True)
        if fl:
            bad.append({"withbkg": s, "what": fl})
            break
    for s in p.get("filter_mixed") or ([] if explicit or 'island_loop' not in ob else range(2)):
        fl = filter_failures(s, mixed=True)
        if fl:
            bad.append({"filter_mixed": s, "what": fl})
            break
    mixed = p.get("mixed") or ([] if explicit else ([0, 1] if 'polarity_class' in ob else []))
    mirror = p.get("mirror") or ([] if explicit or 'polarity_class' in ob or 'filter' in ob else range(6))
    filt = p.get("filter") or ([] if explicit or 'polarity_class' in ob else range(3))
    for s in mixed:
        fl = mirror_failures(s, mixed=True)
        if fl:
            bad.append({"mixed": s, "what": fl})
            break
    for s in mirror:
        fl = mirror_failures(s)
        if fl:
            bad.append({"mirror": s, "what": fl})
            break
    for s in filt:
        fl = filter_failures(s)
        if fl:
            bad.append({"filter": s, "what": fl})
            break
    return {"fails": bool(bad), "observed": bad, "replay_func": "replay_symmetry",
            "replay_payload": {k: [b[k] for b in bad if k in b] for k in ("mixed", "mirror", "filter", "withbkg", "filter_mixed", "quantised", "reuse")}}
