"""resolve dotted dependency names in the runtime the repository uses"""
import importlib


def resolve_names(p):
    missing = []
    checked = 0
    for mod, names in p.get("modules", {}).items():
        try:
            m = importlib.import_module(mod)
        except Exception as e:
            missing.append({"module": mod, "name": "<import>", "error": repr(e)})
            continue
        for dotted in names:
            checked += 1
            parts = dotted.split('.')
            try:
                obj = getattr(m, parts[0])
                for a in parts[1:]:
                    obj = getattr(obj, a)
            except AttributeError as e:
                missing.append({"module": mod, "name": dotted, "error": repr(e)})
    return {"checked": checked, "missing": missing}
