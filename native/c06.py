"""C06 native cross-check: estimator contract of real BANE.filter_image on small images."""
import os
import random
import shutil
import tempfile

import numpy as np
from astropy.io import fits

from AegeanTools import BANE


def run_bane(tmp, data, grid, box, cores, stripes, mask=True, header=None, name="im.fits"):
    path = os.path.join(tmp, name)
    hdu = fits.PrimaryHDU(data.astype(np.float64))
    if header:
        for k, v in header.items():
            hdu.header[k] = v
    hdu.writeto(path, overwrite=True)
    bkg, rms = BANE.filter_mc_sharemem(path, (grid, grid), (box, box), cores, data.shape[-2:], nslice=stripes, domask=mask)
    return np.array(bkg, dtype=float), np.array(rms, dtype=float)


def case_failures(seed, tmp):
    rnd = random.Random(seed)
    rng = np.random.default_rng(seed)
    rows, cols = rnd.randint(24, 70), rnd.randint(24, 60)
    grid = rnd.choice([3, 4, 6, 8])
    box = grid * rnd.choice([2, 3, 5])
    cores = rnd.choice([1, 2, 3])
    stripes = rnd.choice([1, 2, 3, 4]) if cores > 1 else 1
    im = rng.normal(size=(rows, cols)) + np.linspace(0, rnd.choice([0, 0.5, 2.0]), rows)[:, None]
    if rnd.random() < 0.4:
        r0, c0 = rnd.randrange(rows - 4), rnd.randrange(cols - 4)
        im[r0:r0 + 3, c0:c0 + 4] = np.nan
    if seed % 2 == 0:
        im[rnd.randrange(rows), rnd.randrange(cols)] = rnd.choice([np.inf, -np.inf])
    out = []
    cfg = "rows=%d cols=%d grid=%d box=%d cores=%d stripes=%d" % (rows, cols, grid, box, cores, stripes)
    try:
        bkg, rms = run_bane(tmp, im, grid, box, cores, stripes)
    except Exception as e:
        return [("no_exception", "BANE raised %r (%s)" % (e, cfg))]
    fin = np.isfinite(im)
    if bkg.shape != im.shape or rms.shape != im.shape:
        out.append(("shape", "maps have shape %s for an image of %s" % (bkg.shape, im.shape)))
        return out
    lo, hi = im[fin].min(), im[fin].max()
    ok = np.isfinite(bkg)
    if (bkg[ok] < lo - 1e-6).any() or (bkg[ok] > hi + 1e-6).any():
        out.append(("sigmaclip.mean_in_range", "background outside the range of the finite input pixels (%s)" % cfg))
    okr = np.isfinite(rms)
    if (rms[okr] < -1e-9).any() or (rms[okr] > (hi - lo) * (1 + 1e-6) + 1e-6).any():
        out.append(("sigmaclip.std_in_range", "noise outside [0, range] (%s)" % cfg))
    if np.isfinite(bkg[~fin]).any() or np.isfinite(rms[~fin]).any():
        out.append(("sigma_filter.mask.both_maps_blanked", "a non-finite input pixel is finite in a map (%s)" % cfg))
    # pixels far from every blank must be finite
    if (~fin).any():
        rr, cc = np.where(~fin)
        R, C = np.mgrid[0:rows, 0:cols]
        far = np.ones(im.shape, bool)
        for r, c in zip(rr, cc):
            far &= (np.abs(R - r) > box // 2 + grid) | (np.abs(C - c) > box // 2 + grid)
        if (~np.isfinite(bkg[far])).any() or (~np.isfinite(rms[far])).any():
            out.append(("far_from_blank_is_finite", "a pixel farther than box/2+grid from every blank pixel is NaN (%s)" % cfg))
    else:
        if (~np.isfinite(bkg)).any() or (~np.isfinite(rms)).any():
            out.append(("no_blank_in_no_blank_out", "image without blanks gives maps with blanks (%s)" % cfg))
    # affine equivariance
    c_add, k_mul = rnd.choice([1000.0, -37.5]), rnd.choice([-3.0, 0.25, 1e-12])
    b2, r2 = run_bane(tmp, im + c_add, grid, box, cores, stripes)
    scale = max(1.0, abs(c_add))
    if not np.allclose(b2 - c_add, bkg, rtol=0, atol=1e-5 * scale, equal_nan=True) or \
            not np.allclose(r2, rms, rtol=1e-3, atol=1e-5 * scale, equal_nan=True):
        out.append(("sigma_filter.pass2_boxes_subtracted",
                    "adding %g changes bkg-c by up to %.3g and rms by up to %.3g (%s)" % (
                        c_add, np.nanmax(np.abs(b2 - c_add - bkg)), np.nanmax(np.abs(r2 - rms)), cfg)))
    b3, r3 = run_bane(tmp, im * k_mul, grid, box, cores, stripes)
    if not np.allclose(b3, bkg * k_mul, rtol=1e-4, atol=1e-6 * abs(k_mul), equal_nan=True) or \
            not np.allclose(r3, rms * abs(k_mul), rtol=1e-3, atol=1e-6 * abs(k_mul), equal_nan=True):
        out.append(("scale_equivariance", "multiplying by %g does not scale the maps by k and |k| (%s)" % (k_mul, cfg)))
    # constant image
    cst = rnd.choice([0.0, 3.25, -1e3])
    b4, r4 = run_bane(tmp, np.full((rows, cols), cst), grid, box, cores, stripes)
    if not np.allclose(b4, cst, rtol=0, atol=1e-6 * max(1, abs(cst))) or not np.allclose(r4, 0, atol=1e-6 * max(1, abs(cst))):
        out.append(("sigmaclip.const_gives_c_and_zero", "constant image %g gives bkg in [%g,%g], rms max %g (%s)" % (
            cst, np.nanmin(b4), np.nanmax(b4), np.nanmax(r4), cfg)))
    return out[:4]


def extra_failures(tmp):
    """3-D / BSCALE inputs, box taller than wide, gaussian noise statistics"""
    out = []
    rng = np.random.default_rng(7)
    im = rng.normal(loc=2.0, scale=3.0, size=(120, 120))
    bkg, rms = run_bane(tmp, im, 10, 50, 2, 2)
    if abs(np.nanmedian(bkg) - 2.0) > 0.3 or abs(np.nanmedian(rms) - 3.0) > 0.3:
        out.append(("gaussian_statistics", "N(2,3) noise gives median bkg %.3f rms %.3f" % (np.nanmedian(bkg), np.nanmedian(rms))))
    b1, r1 = run_bane(tmp, im, 10, 50, 1, 1)
    if np.nanmax(np.abs(b1 - bkg)) > 0.5 * 3.0 or np.nanmax(np.abs(r1 - rms)) > 0.5 * 3.0:
        out.append(("stripe_count_sensitivity", "1 vs 2 stripes differ by %.3f (bkg) %.3f (rms) for sigma=3" % (
            np.nanmax(np.abs(b1 - bkg)), np.nanmax(np.abs(r1 - rms)))))
    # cubes: plane k of a 3-D (n, R, C) or 4-D (m, n, R, C) file is filtered like the 2-D image of that plane
    planes = rng.normal(size=(3, 60, 50)) + np.arange(3)[:, None, None] * 5.0
    ref = [run_bane(tmp, planes[k], 10, 30, 1, 1, name="p%d.fits" % k) for k in range(3)]
    for name, data, pick in (("3-D", planes, lambda k: planes[k]), ("4-D", np.stack([planes, planes + 100.0]), lambda k: planes[k])):
        path = os.path.join(tmp, "cube_%s.fits" % name)
        fits.PrimaryHDU(data.astype(np.float64)).writeto(path, overwrite=True)
        for k in range(3):
            try:
                b, r = BANE.filter_mc_sharemem(path, (10, 10), (30, 30), 1, (60, 50), nslice=1, domask=True, cube_index=k)
            except Exception as e:
                out.append(("sigma_filter.plane_selected_by_cube_index", "%s file, cube_index=%d raised %r" % (name, k, e)))
                break
            if not np.allclose(b, ref[k][0], rtol=1e-6, atol=1e-6, equal_nan=True) or not np.allclose(r, ref[k][1], rtol=1e-6, atol=1e-6, equal_nan=True):
                out.append(("sigma_filter.plane_selected_by_cube_index",
                            "%s file, cube_index=%d: maps differ from those of plane %d (median bkg %.2f vs %.2f)" % (
                                name, k, k, np.nanmedian(b), np.nanmedian(ref[k][0]))))
                break
    # the maps returned by filter_image do not depend on whether files are written as well (BSCALE present)
    try:
        pth = os.path.join(tmp, "fi.fits")
        hdu = fits.PrimaryHDU(planes[0].astype(np.float64))
        hdu.header['BSCALE'] = 2.0
        hdu.writeto(pth, overwrite=True)
        b_none, r_none = BANE.filter_image(pth, None, step_size=(10, 10), box_size=(30, 30), cores=1, nslice=1)
        b_out, r_out = BANE.filter_image(pth, os.path.join(tmp, "fi_out"), step_size=(10, 10), box_size=(30, 30), cores=1, nslice=1)
        if not np.allclose(b_none, b_out, rtol=1e-6, atol=1e-9, equal_nan=True) or not np.allclose(r_none, r_out, rtol=1e-6, atol=1e-9, equal_nan=True):
            out.append(("sigma_filter.bscale_applied_iff_present", "filter_image returns different maps when it also writes them (BSCALE=2): "
                        "median bkg %.4f vs %.4f" % (np.nanmedian(b_out), np.nanmedian(b_none))))
    except Exception as e:
        out.append(("sigma_filter.bscale_applied_iff_present", "filter_image with BSCALE raised %r" % (e,)))
    # the command line: every option lands in the filter call under its own keyword, defaults leave the choice to the library
    try:
        from AegeanTools.CLI import BANE as cli
        seen = []
        real = BANE.filter_image
        BANE.filter_image = lambda *a, **k: seen.append((a, k))
        try:
            pth = os.path.join(tmp, "fi.fits")
            cli.main([pth, '--grid', '3', '5', '--box', '9', '15', '--cores', '2', '--stripes', '3', '--slice', '1', '--nomask',
                      '--compress', '--out', os.path.join(tmp, 'cli_out')])
            cli.main([pth])
        finally:
            BANE.filter_image = real
        want1 = dict(im_name=pth, out_base=os.path.join(tmp, 'cli_out'), step_size=[3, 5], box_size=[9, 15], cores=2, mask=False,
                     compressed=True, nslice=3, cube_index=1)
        want2 = dict(im_name=pth, out_base=os.path.join(tmp, 'fi'), step_size=None, box_size=None, cores=None, mask=True,
                     compressed=False, nslice=None)
        names = ('im_name', 'out_base', 'step_size', 'box_size', 'twopass', 'cores', 'mask', 'compressed', 'nslice', 'cube_index')
        got = [dict(zip(names, a), **k) for a, k in seen]
        bad = len(got) != 2 or any(list(got[0].get(k)) != v if isinstance(v, list) else got[0].get(k) != v for k, v in want1.items()) \
            or any(got[1].get(k, None) != v for k, v in want2.items()) or got[1].get('cube_index') not in (None, 0)
        if bad:
            out.append(("cli.options_parsed_into_the_filter_call", "command-line options reach filter_image as %r" % (got,)))
    except SystemExit as e:
        out.append(("cli.options_parsed_into_the_filter_call", "the command line rejected valid options (%r)" % (e,)))
    # a constant single-precision image whose value needs all 24 bits: background = that constant, noise = 0
    for cval in (16777215.0, 1234.567):
        im32 = np.full((60, 50), cval, dtype=np.float32)
        pth = os.path.join(tmp, "const32.fits")
        fits.PrimaryHDU(im32).writeto(pth, overwrite=True)
        b, r = BANE.filter_mc_sharemem(pth, (10, 10), (30, 30), 1, (60, 50), nslice=1, domask=True)
        # (linear interpolation of equal node values rounds in the last place of a double: 1e-12 relative allows
        #  that and nothing coarser -- single-precision accumulation is off by 1e-8 relative or more)
        tol = 1e-12 * abs(cval)
        if np.nanmax(np.abs(np.asarray(b, dtype=np.float64) - float(im32[0, 0]))) > tol or np.nanmax(np.abs(r)) > tol:
            out.append(("sigmaclip.const_gives_c_and_zero", "constant float32 image %r: background off by %.3g, noise up to %.3g" % (
                cval, np.nanmax(np.abs(np.asarray(b, dtype=np.float64) - float(im32[0, 0]))), np.nanmax(np.abs(r)))))
            break
    # a negative BSCALE: the noise map is |k| times the noise of the stored values, never negative
    b0, r0 = run_bane(tmp, planes[0], 10, 30, 1, 1, name="bs0.fits")
    bn, rn = run_bane(tmp, planes[0], 10, 30, 1, 1, header={'BSCALE': -2.0}, name="bs.fits")
    if np.nanmin(rn) < 0 or not np.allclose(rn, 2.0 * r0, rtol=1e-5, atol=1e-8, equal_nan=True) or \
            not np.allclose(bn, -2.0 * b0, rtol=1e-5, atol=1e-6, equal_nan=True):
        out.append(("sigma_filter.bscale_applied_iff_present", "BSCALE=-2: min rms %.3f, expected |k| * rms and k * bkg" % np.nanmin(rn)))
    return out


def crosscheck(p):
    n = 6 if p.get("tier") != "thorough" else 60
    s0 = p.get("seed", 0) * 31337
    tmp = tempfile.mkdtemp(prefix="c06_")
    failures, seen, evals = [], set(), 0
    try:
        for i in range(n):
            evals += 4
            for lab, what in case_failures(s0 + i, tmp):
                if lab not in seen:
                    seen.add(lab)
                    failures.append({"label": lab, "input": {"seed": s0 + i}, "what": what, "replay_func": "replay_maps",
                                     "replay_payload": {"seeds": [s0 + i]}})
        evals += 2
        for lab, what in extra_failures(tmp):
            if lab not in seen:
                seen.add(lab)
                failures.append({"label": lab, "input": {"extra": True}, "what": what, "replay_func": "replay_maps",
                                 "replay_payload": {"extra": True}})
    finally:
        shutil.rmtree(tmp, ignore_errors=True)
    return {"evaluations": evals, "failures": failures,
            "rule": "random images (gradients, NaN blocks, inf) x grid/box/cores/stripes: range, masking, +c / *k equivariance "
                    "(incl. k=1e-12), constant image, Gaussian statistics, 1 vs 2 stripes"}


def replay_maps(p):
    tmp = tempfile.mkdtemp(prefix="c06_")
    bad = []
    try:
        for s in p.get("seeds") or ([] if p.get("extra") else range(12)):
            fl = case_failures(s, tmp)
            if fl:
                bad.append({"seed": s, "what": fl})
                break
        if p.get("extra") or not p.get("seeds"):
            fl = extra_failures(tmp)
            if fl:
                bad.append({"extra": True, "what": fl})
    finally:
        shutil.rmtree(tmp, ignore_errors=True)
    return {"fails": bool(bad), "observed": bad, "replay_func": "replay_maps",
            "replay_payload": {"seeds": [b["seed"] for b in bad if "seed" in b], "extra": any("extra" in b for b in bad)}}
