"""C14 native cross-check: real AeRes.make_model / make_residual against directly evaluated Gaussians."""
import os
import random
import shutil
import tempfile

import numpy as np
from astropy.io import fits
from astropy.table import Table

from AegeanTools import AeRes, fitting
from AegeanTools.models import ComponentSource
from AegeanTools.wcs_helpers import WCSHelper

K = 1 / (2 * np.sqrt(2 * np.log(2)))


def mk_header(rnd, shape, proj):
    h = fits.Header()
    h['NAXIS'], h['NAXIS1'], h['NAXIS2'] = 2, shape[1], shape[0]
    h['CTYPE1'], h['CTYPE2'] = 'RA---' + proj, 'DEC--' + proj
    h['CRVAL1'], h['CRVAL2'] = rnd.uniform(5, 355), rnd.uniform(-70, 70)
    s = rnd.choice([5, 10, 20]) / 3600
    h['CDELT1'], h['CDELT2'] = -s, s
    h['CRPIX1'], h['CRPIX2'] = shape[1] / 2.0, shape[0] / 2.0
    h['BMAJ'], h['BMIN'], h['BPA'] = 5 * s, 4 * s, 10.0
    return h, s


def mk_sources(rnd, helper, shape, scale, n):
    srcs = []
    for k in range(n):
        s = ComponentSource()
        mode = rnd.random()
        if mode < 0.5:
            r, c = rnd.uniform(8, shape[0] - 8), rnd.uniform(8, shape[1] - 8)
        elif mode < 0.8:      # near / on the edges, incl. the upper ones
            r = rnd.choice([rnd.uniform(0.6, 3), rnd.uniform(shape[0] - 3, shape[0] - 0.6), rnd.uniform(8, shape[0] - 8)])
            c = rnd.choice([rnd.uniform(0.6, 3), rnd.uniform(shape[1] - 3, shape[1] - 0.6), rnd.uniform(8, shape[1] - 8)])
        else:                 # off the image
            r, c = rnd.choice([-15.0, shape[0] + 12.0]), rnd.uniform(0, shape[1])
        s.ra, s.dec = [float(v) for v in helper.pix2sky([r + 1, c + 1])]
        a, b = rnd.uniform(4, 9) * scale * 3600, rnd.uniform(3, 6) * scale * 3600
        s.a, s.b = (a, b) if rnd.random() < 0.8 else (min(a, b), max(a, b))     # sometimes a < b (foreign catalogues)
        s.pa = rnd.uniform(-90, 90)
        s.peak_flux = rnd.choice([1.0, -2.0, rnd.uniform(0.5, 5)])
        s.local_rms = 0.05
        s.island, s.source = k, 0
        srcs.append(s)
    if n >= 2 and rnd.random() < 0.5:      # a close pair (overlapping boxes)
        srcs[1].ra, srcs[1].dec = srcs[0].ra + 3 * scale, srcs[0].dec + 2 * scale
    return srcs


def reference(srcs, shape, helper, mode, frac=None, sigma=4):
    out = np.zeros(shape)
    blank = np.zeros(shape, bool)
    R, C = np.mgrid[0:shape[0], 0:shape[1]]
    for s in srcs:
        xo, yo, sx, sy, th = helper.sky2pix_ellipse([s.ra, s.dec], s.a / 3600, s.b / 3600, s.pa)
        if not (0 < xo < shape[0] and 0 < yo < shape[1]):
            continue
        phi = np.radians(th)
        xoff = 5 * (abs(sx * np.cos(phi)) + abs(sy * np.sin(phi)))
        yoff = 5 * (abs(sx * np.sin(phi)) + abs(sy * np.cos(phi)))
        box = (R >= max(np.floor(xo - xoff), 0)) & (R < min(np.ceil(xo + xoff), shape[0])) & \
              (C >= max(np.floor(yo - yoff), 0)) & (C < min(np.ceil(yo + yoff), shape[1]))
        G = fitting.elliptical_gaussian(R, C, s.peak_flux, xo - 1, yo - 1, sx * K, sy * K, th)
        if mode == 'sum':
            out += np.where(box, G, 0)
        else:
            thr = frac * s.peak_flux if frac is not None else sigma * s.local_rms
            blank |= box & (G >= thr)
    return out, blank


def case_failures(seed):
    rnd = random.Random(seed)
    shape = (rnd.randint(40, 90), rnd.randint(40, 100))
    h, scale = mk_header(rnd, shape, rnd.choice(['SIN', 'TAN', 'ZEA']))
    helper = WCSHelper.from_header(h)
    srcs = mk_sources(rnd, helper, shape, scale, rnd.randint(1, 5))
    out = []
    try:
        m = AeRes.make_model(srcs, shape, helper)
    except Exception as e:
        return [("no_exception_and_returns_image", "make_model raised %r" % (e,))]
    ref, _ = reference(srcs, shape, helper, 'sum')
    peak = max(abs(s.peak_flux) for s in srcs)
    if m.shape != shape or np.abs(m - ref).max() > 1e-4 * peak:
        r, c = np.unravel_index(np.argmax(np.abs(m - ref)), shape)
        out.append(("written_value_is_previous_plus_source_gaussian",
                    "model differs from the sum of the catalogue Gaussians by %.3g of the peak at pixel (%d,%d) of %s" % (
                        np.abs(m - ref).max() / peak, r, c, shape)))
    # additivity
    if len(srcs) >= 2:
        m1 = AeRes.make_model(srcs[:1], shape, helper) + AeRes.make_model(srcs[1:], shape, helper)
        if np.abs(m1 - m).max() > 1e-5 * peak:
            out.append(("additive_over_subsets", "model of the whole catalogue differs from the sum of the models of two subsets"))
    # mask mode
    # (sigma mode: each source against its OWN noise level, which may be missing (NaN: nothing exceeds it) or zero)
    rnd2 = random.Random(seed + 77)
    for s_ in srcs:
        s_.local_rms = rnd2.choice([0.05, 0.05, 0.2, float('nan'), 0.0, 0.01])
    for kw in (dict(frac=0.3), dict(sigma=5)):
        try:
            mm = AeRes.make_model(srcs, shape, helper, mask=True, **kw)
        except Exception as e:
            out.append(("mask_rule", "mask mode (%s) raised %r for noise levels %s" % (kw, e, [s_.local_rms for s_ in srcs])))
            continue
        _, blank = reference(srcs, shape, helper, 'mask', **{'frac': kw.get('frac'), 'sigma': kw.get('sigma', 4)})
        if not np.array_equal(np.isnan(mm), blank) or np.nanmax(np.abs(np.nan_to_num(mm))) != 0:
            out.append(("mask_rule", "mask mode (%s) blanks %d pixels, the rule selects %d" % (kw, int(np.isnan(mm).sum()), int(blank.sum()))))
    return out[:4]


def residual_failures(seed):
    rnd = random.Random(seed)
    tmp = tempfile.mkdtemp(prefix="c14_")
    out = []
    try:
        shape = (60, 70)
        h, scale = mk_header(rnd, shape, 'SIN')
        helper = WCSHelper.from_header(h)
        srcs = [s for s in mk_sources(rnd, helper, shape, scale, 3)]
        data = np.random.default_rng(seed).normal(size=shape).astype(np.float32)
        fits.PrimaryHDU(data, header=h).writeto(os.path.join(tmp, "im.fits"))
        names = dict(ra='RAJ', dec='DEJ', peak_flux='Sp', a='maj', b='min', pa='ang') if seed % 2 else \
            dict(ra='ra', dec='dec', peak_flux='peak_flux', a='a', b='b', pa='pa')
        t = Table({names[k]: [getattr(s, k) for s in srcs] for k in names})
        t['island'] = [s.island for s in srcs]
        t['source'] = [0] * len(srcs)
        t['local_rms'] = [0.05] * len(srcs)
        cat = os.path.join(tmp, "cat.fits")
        t.write(cat)
        colmap = {k + '_col' if k != 'peak_flux' else 'peak_col': v for k, v in names.items()}
        AeRes.make_residual(os.path.join(tmp, "im.fits"), cat, os.path.join(tmp, "res.fits"), mfile=os.path.join(tmp, "mod.fits"),
                            colmap=colmap)
        res, mod = fits.getdata(os.path.join(tmp, "res.fits")), fits.getdata(os.path.join(tmp, "mod.fits"))
        ref, _ = reference(srcs, shape, helper, 'sum')
        peak = max(abs(s.peak_flux) for s in srcs)
        if np.abs(mod - ref).max() > 2e-4 * peak:
            out.append(("model_made_with_callers_options", "model file differs from the catalogue Gaussians by %.3g of the peak (columns %s)" % (
                np.abs(mod - ref).max() / peak, sorted(names.values()))))
        if np.abs((res + mod) - data).max() > 1e-5 * max(1, peak):
            out.append(("residual_is_data_plus_or_minus_model", "residual + model != data"))
        fits.PrimaryHDU(res, header=h).writeto(os.path.join(tmp, "res_in.fits"))
        AeRes.make_residual(os.path.join(tmp, "res_in.fits"), cat, os.path.join(tmp, "back.fits"), add=True, colmap=colmap)
        back = fits.getdata(os.path.join(tmp, "back.fits"))
        if np.abs(back - data).max() > 1e-5 * max(1, peak):
            out.append(("add_then_subtract_restores_the_image", "subtract then add does not restore the image"))
        # mask mode through make_residual: the caller's frac / sigma must reach make_model as frac / sigma
        for kw in (dict(frac=0.25), dict(sigma=3.0), dict(frac=0.6, sigma=50.0)):
            AeRes.make_residual(os.path.join(tmp, "im.fits"), cat, os.path.join(tmp, "msk.fits"), mask=True, colmap=colmap, **kw)
            got = np.isnan(fits.getdata(os.path.join(tmp, "msk.fits")))
            _, blank = reference(srcs, shape, helper, 'mask', frac=kw.get('frac'), sigma=kw.get('sigma', 4))
            if not np.array_equal(got, blank):
                out.append(("model_made_with_callers_options", "make_residual(mask=True, %s) blanks %d pixels, the rule selects %d" % (
                    kw, int(got.sum()), int(blank.sum()))))
                break
        # a catalogue with the standard column names and no column map, after calls that renamed columns (same process)
        std = Table({k: [getattr(s_, k) for s_ in srcs] for k in ('ra', 'dec', 'peak_flux', 'a', 'b', 'pa')})
        std['island'] = [s_.island for s_ in srcs]
        std['source'] = [0] * len(srcs)
        std['local_rms'] = [0.05] * len(srcs)
        std.write(os.path.join(tmp, "std.fits"))
        if os.path.exists(os.path.join(tmp, "std_res.fits")):
            os.remove(os.path.join(tmp, "std_res.fits"))
        AeRes.make_residual(os.path.join(tmp, "im.fits"), os.path.join(tmp, "std.fits"), os.path.join(tmp, "std_res.fits"))
        if not os.path.exists(os.path.join(tmp, "std_res.fits")):
            out.append(("model_made_with_callers_options", "make_residual without a column map wrote nothing for a catalogue with the default "
                        "column names (after calls with renamed columns %s in the same process)" % sorted(names.values())))
        elif np.abs((fits.getdata(os.path.join(tmp, "std_res.fits")) + ref) - data).max() > 2e-4 * max(1, peak):
            out.append(("model_made_with_callers_options", "make_residual without a column map does not subtract the catalogue's model"))
        # the same catalogue modelled on a second image with another pixel grid, in the same process
        h2, scale2 = mk_header(rnd, (50, 64), 'TAN')
        helper2 = WCSHelper.from_header(h2)
        AeRes.make_model(srcs, shape, helper)
        srcs2 = srcs
        m2 = AeRes.make_model(srcs2, (50, 64), helper2)
        ref2, _ = reference(srcs2, (50, 64), helper2, 'sum')
        if np.abs(m2 - ref2).max() > 1e-4 * peak:
            out.append(("written_value_is_previous_plus_source_gaussian",
                        "the same catalogue on a second image (other pixel grid) in the same process: model differs by %.3g of the peak" % (
                            np.abs(m2 - ref2).max() / peak)))
    except Exception as e:
        out.append(("no_exception_and_returns_image", "make_residual raised %r" % (e,)))
    finally:
        shutil.rmtree(tmp, ignore_errors=True)
    return out


def crosscheck(p):
    n = 25 if p.get("tier") != "thorough" else 400
    s0 = p.get("seed", 0) * 9973
    failures, seen, evals = [], set(), 0
    for i in range(n):
        evals += 1
        for lab, what in case_failures(s0 + i):
            if lab not in seen:
                seen.add(lab)
                failures.append({"label": lab, "input": {"seed": s0 + i}, "what": what, "replay_func": "replay_models",
                                 "replay_payload": {"seeds": [s0 + i]}})
    for i in range(4):
        evals += 1
        for lab, what in residual_failures(s0 + i):
            if lab not in seen:
                seen.add(lab)
                failures.append({"label": lab, "input": {"residual_seed": s0 + i}, "what": what, "replay_func": "replay_models",
                                 "replay_payload": {"residual_seeds": [s0 + i]}})
    return {"evaluations": evals, "failures": failures,
            "rule": "random catalogues (interior, near all four edges, off-image, close pairs, a<b rows, negative peaks) on SIN/TAN/ZEA "
                    "images: model vs directly evaluated Gaussians (1e-4 peak), additivity, mask rule, residual/model files, "
                    "renamed columns, subtract-then-add"}


def replay_models(p):
    bad = []
    for s in p.get("seeds") or ([] if p.get("residual_seeds") else range(40)):
        fl = case_failures(s)
        if fl:
            bad.append({"seed": s, "what": fl})
            break
    for s in p.get("residual_seeds") or ([] if p.get("seeds") else range(4)):
        fl = residual_failures(s)
        if fl:
            bad.append({"residual_seed": s, "what": fl})
            break
    return {"fails": bool(bad), "observed": bad, "replay_func": "replay_models",
            "replay_payload": {"seeds": [b["seed"] for b in bad if "seed" in b],
                               "residual_seeds": [b["residual_seed"] for b in bad if "residual_seed" in b]}}
