"""C04 native replay / cross-check against the real AegeanTools.fitting."""
import itertools
import random

import lmfit
import numpy as np

from AegeanTools import fitting

NAMES = ['amp', 'xo', 'yo', 'sx', 'sy', 'theta']


def mk_params(comps, vary):
    """comps: list of 6-tuples; vary: list of 6-tuples of bools"""
    p = lmfit.Parameters()
    for i, (vals, vs) in enumerate(zip(comps, vary)):
        for nm, v, f in zip(NAMES, vals, vs):
            p.add("c%d_%s" % (i, nm), value=float(v), vary=bool(f))
    p.add('components', value=len(comps), vary=False)
    return p


def true_rows(comps, vary, x, y, h=1e-4):
    """6th-order central differences of the real elliptical_gaussian, parameter by parameter, in documented order"""
    rows = []
    for vals, vs in zip(comps, vary):
        for k, f in enumerate(vs):
            if not f:
                continue
            def G(d):
                v = list(vals)
                v[k] += d
                return fitting.elliptical_gaussian(x, y, *v)
            step = h * max(1.0, abs(vals[k]))
            d = (45 * (G(step) - G(-step)) - 9 * (G(2 * step) - G(-2 * step)) + (G(3 * step) - G(-3 * step))) / (60 * step)
            rows.append(d)
    return np.array(rows)


def jac_failure(comps, vary, x, y):
    p = mk_params(comps, vary)
    try:
        J = np.array(fitting.jacobian(p, x, y), dtype=float)
    except Exception as e:
        return ["jacobian raised %r" % (e,)]
    T = true_rows(comps, vary, x, y)
    if J.shape != T.shape:
        return ["jacobian has shape %s, expected %s" % (J.shape, T.shape)]
    if J.size == 0:
        return []
    scale = np.abs(T).max(axis=1, keepdims=True) + 1e-12
    err = np.abs(J - T) / scale
    bad = np.argwhere(err.max(axis=1) > 1e-6).ravel()
    out = []
    for r in bad[:3]:
        # name the row
        names = [(i, NAMES[k]) for i, vs in enumerate(vary) for k, f in enumerate(vs) if f]
        out.append("row %d (component %d, %s): analytic/true = %.6g at worst pixel (rel err %.3g)" % (
            r, names[r][0], names[r][1], float(J[r].ravel()[np.argmax(err[r])] / (T[r].ravel()[np.argmax(err[r])] + 1e-300)),
            float(err[r].max())))
    return out


def covar_failure(comps, vary, shape=(9, 9), rms=0.1, useC=False, seed=0):
    """stderr(i,p) must equal sqrt(diag(inv(Fisher)))[index(i,p)] with the true Jacobian"""
    rng = np.random.default_rng(seed)
    x, y = np.indices(shape)
    p = mk_params(comps, vary)
    data = fitting.ntwodgaussian_lmfit(p)(x, y) + rng.normal(scale=rms * 0.01, size=shape)
    mask = np.where(np.isfinite(data))
    xs, ys = mask
    T = true_rows(comps, vary, xs, ys)            # (nvar, npix)
    if useC:
        C = fitting.Cmatrix(xs, ys, 1.0, 1.0, 0.0)
        B = fitting.Bmatrix(C)
        Jm = (T / rms)
        fisher = Jm.dot(np.linalg.inv(C)).dot(Jm.T)
    else:
        C = None
        B = np.eye(len(xs))
        Jm = (T / rms)
        fisher = Jm.dot(Jm.T)
    try:
        want = np.sqrt(np.diag(np.linalg.inv(fisher)))
    except np.linalg.LinAlgError:
        return []
    before = {k: p[k].stderr for k in p}
    out_p = fitting.covar_errors(p, data, errs=rms, B=B, C=C)
    names = [(i, NAMES[k]) for i, vs in enumerate(vary) for k, f in enumerate(vs) if f]
    out = []
    for j, (i, nm) in enumerate(names):
        got = out_p["c%d_%s" % (i, nm)].stderr
        if got is None or not np.isfinite(got) or abs(got - want[j]) > 1e-4 * abs(want[j]):
            out.append("stderr of c%d_%s = %r, own diagonal entry %r" % (i, nm, got, float(want[j])))
    for i, vs in enumerate(vary):
        for k, f in enumerate(vs):
            key = "c%d_%s" % (i, NAMES[k])
            if not f and out_p[key].stderr != before[key]:
                out.append("stderr of non-varying %s changed" % key)
    return out[:4]


def random_comp(rnd, shape=(9, 9)):
    return (rnd.choice([-1, 1]) * rnd.uniform(0.5, 3), rnd.uniform(2, shape[0] - 3), rnd.uniform(2, shape[1] - 3),
            rnd.uniform(1.0, 2.5), rnd.uniform(0.8, 2.0), rnd.uniform(-180, 180))


def crosscheck(p):
    rnd = random.Random(p.get("seed", 0))
    n = 40 if p.get("tier") != "thorough" else 600
    x, y = np.indices((9, 9))
    failures, seen, evals = [], set(), 0

    def add(label, inp, what, func, payload):
        if label not in seen:
            seen.add(label)
            failures.append({"label": label, "input": inp, "what": what, "replay_func": func, "replay_payload": payload})
    for t in range(n):
        nc = rnd.randint(1, 3)
        comps = [random_comp(rnd) for _ in range(nc)]
        vary = [tuple(rnd.random() < 0.7 for _ in range(6)) for _ in range(nc)]
        if t % 4 == 0:
            vary = [(True,) * 6] * nc
        evals += 1
        fl = jac_failure(comps, vary, x, y)
        if fl:
            lab = "d_theta" if "theta" in fl[0] else ("row_order" if "shape" in fl[0] else "d_" + fl[0].split(", ")[1].split(")")[0])
            add(lab, {"comps": comps, "vary": vary}, fl, "replay_jacobian", {"cases": [[comps, vary]]})
    for t in range(max(4, n // 6)):
        nc = rnd.randint(1, 2)
        comps = [(2.0 + k, 3.0 + 3 * k, 3.5 + 2 * k, 1.6, 1.1, 25.0 + 40 * k) for k in range(nc)]
        vary = [tuple(rnd.random() < 0.8 for _ in range(6)) for _ in range(nc)]
        if t == 0:
            vary = [(True, True, True, False, False, False), (True, True, True, True, True, True)][:nc]
        evals += 1
        fl = covar_failure(comps, vary, useC=(t % 2 == 1), seed=t)
        if fl:
            add("stderr_index", {"comps": comps, "vary": vary, "useC": t % 2 == 1}, fl, "replay_covar",
                {"cases": [[comps, vary, t % 2 == 1, t]]})
    return {"evaluations": evals, "failures": failures,
            "rule": "random 1-3 component models, random vary subsets: analytic Jacobian rows vs 6th-order differences of "
                    "elliptical_gaussian; covar_errors stderr vs own diagonal of the inverse Fisher matrix (B and C paths)"}


def _num(v):
    s = str(v).rstrip('?')
    if '/' in s:
        a, b = s.split('/')
        return float(a) / float(b)
    return float(s)


def replay_jacobian(p):
    cases = [(c, v) for c, v in p.get("cases", [])]
    if not cases:
        rnd = random.Random(5)
        for _ in range(30):
            nc = rnd.randint(1, 3)
            cases.append(([random_comp(rnd) for _ in range(nc)], [(True,) * 6] * nc))
            cases.append(([random_comp(rnd) for _ in range(nc)], [tuple(rnd.random() < 0.6 for _ in range(6)) for _ in range(nc)]))
    x, y = np.indices((9, 9))
    bad = []
    for comps, vary in cases:
        fl = jac_failure([tuple(c) for c in comps], [tuple(v) for v in vary], x, y)
        if fl:
            bad.append({"comps": comps, "vary": vary, "what": fl})
            if len(bad) >= 2:
                break
    return {"fails": bool(bad), "observed": bad, "replay_func": "replay_jacobian",
            "replay_payload": {"cases": [[b["comps"], b["vary"]] for b in bad]}}


def replay_covar(p):
    cases = list(p.get("cases", []))
    if not cases:
        two = [(2.0, 3.0, 3.5, 1.6, 1.1, 25.0), (3.0, 6.0, 5.5, 1.6, 1.1, 65.0)]
        cases = [[two, [(True, True, True, False, False, False), (True,) * 6], False, 0],
                 [two, [(True,) * 6, (True,) * 6], True, 1], [two[:1], [(True,) * 6], False, 2],
                 [two, [(False, True, True, True, False, True), (True, False, True, True, True, False)], False, 3]]
    bad = []
    for comps, vary, useC, seed in cases:
        fl = covar_failure([tuple(c) for c in comps], [tuple(v) for v in vary], useC=useC, seed=seed)
        if fl:
            bad.append({"comps": comps, "vary": vary, "useC": useC, "seed": seed, "what": fl})
    bad = bad[:2]
    return {"fails": bool(bad), "observed": bad, "replay_func": "replay_covar",
            "replay_payload": {"cases": [[b["comps"], b["vary"], b["useC"], b["seed"]] for b in bad]}}


def replay_lmfit_jacobian(p):
    rnd = random.Random(7)
    x, y = map(np.ravel, np.indices((6, 6)))
    comps = [random_comp(rnd, (6, 6))]
    vary = [(True,) * 6]
    pr = mk_params(comps, vary)
    J = np.array(fitting.jacobian(pr, x, y))
    errs = np.linspace(0.5, 2.0, len(x))
    C = fitting.Cmatrix(x, y, 1.0, 1.0, 0.0)
    B = fitting.Bmatrix(C)
    bad = []
    for e, b in ((None, None), (errs, None), (None, B), (errs, B), (0.3, B)):
        want = J.copy()
        if e is not None:
            want = want / e
        if b is not None:
            want = want.dot(b)
        want = want.T
        got = fitting.lmfit_jacobian(pr, x, y, errs=e, B=b)
        if got.shape != want.shape or not np.allclose(got, want, rtol=1e-9, atol=1e-12):
            bad.append("errs=%s B=%s: result differs from transpose((J/errs).B)" % (
                'vector' if isinstance(e, np.ndarray) else e, 'given' if b is not None else None))
    return {"fails": bool(bad), "observed": bad, "replay_func": "replay_lmfit_jacobian", "replay_payload": {}}


def replay_gaussian(p):
    rnd = random.Random(3)
    bad = []
    for _ in range(200):
        amp, xo, yo, sx, sy, th = random_comp(rnd)
        x, y = rnd.uniform(0, 9), rnd.uniform(0, 9)
        t = np.radians(th)
        u = (x - xo) * np.cos(t) + (y - yo) * np.sin(t)
        v = (x - xo) * np.sin(t) - (y - yo) * np.cos(t)
        want = amp * np.exp(-0.5 * (u * u / sx ** 2 + v * v / sy ** 2))
        got = fitting.elliptical_gaussian(x, y, amp, xo, yo, sx, sy, th)
        if abs(got - want) > 1e-12 * max(1, abs(want)):
            bad.append({"args": [x, y, amp, xo, yo, sx, sy, th], "got": float(got), "want": float(want)})
            break
    return {"fails": bool(bad), "observed": bad, "replay_func": "replay_gaussian", "replay_payload": {}}
