"""C07 native cross-check: real BANE runs under a watchdog (no hang, every pixel written, no leaked shared memory,
single failing stripe raises promptly, bit-identical maps for a fixed stripe layout whatever the worker count)."""
import glob
import json
import os
import subprocess
import sys
import tempfile

HERE = os.path.dirname(os.path.abspath(__file__))

CHILD = r'''
import json, os, sys, time
import numpy as np
from astropy.io import fits
from AegeanTools import BANE
cfg = json.loads(sys.argv[1])
rows, cols = cfg["rows"], cfg["cols"]
rng = np.random.default_rng(cfg.get("seed", 0))
path = cfg["path"]
if not os.path.exists(path):
    img = rng.normal(size=(rows, cols)).astype(np.float32)
    nr = cfg.get("nan_rows")
    if nr:
        if cfg.get("nan_full"):
            img[nr[0]:nr[1], :] = np.nan        # a whole stripe and its half-box margin blank (mosaic padding)
        else:
            img[nr[0]:nr[1], 3:9] = np.nan      # blank pixels in some stripes only
    fits.PrimaryHDU(img).writeto(path)
fail = cfg.get("fail_stripe")
if fail is not None:
    real = BANE.sigma_filter
    def faulty(filename, region, *a):
        if region[0] == fail:
            raise RuntimeError("injected failure in the stripe starting at row %d" % fail)
        return real(filename, region, *a)
    BANE.sigma_filter = faulty          # inherited by the forked workers
t0 = time.time()
out = {"raised": None}
try:
    bkg, rms = BANE.filter_mc_sharemem(path, (cfg["grid"], cfg["grid"]), (cfg["box"], cfg["box"]), cfg["cores"], (rows, cols),
                                       nslice=cfg["stripes"], domask=cfg.get("domask", True))
    out["finite_bkg"] = int(np.isfinite(bkg).sum()); out["finite_rms"] = int(np.isfinite(rms).sum()); out["size"] = int(bkg.size)
    out["zero_rows"] = int((np.abs(rms).sum(axis=1) == 0).sum())
    np.save(cfg["out"], np.stack([bkg, rms]))
except BaseException as e:
    out["raised"] = repr(e)[:300]
out["seconds"] = time.time() - t0
out["memory_id"] = BANE.memory_id
print("RESULT " + json.dumps(out))
'''


def run_cfg(cfg, timeout=90):
    env = dict(os.environ)
    env["OMP_NUM_THREADS"] = "1"
    try:
        p = subprocess.run([sys.executable, "-c", CHILD, json.dumps(cfg)], capture_output=True, text=True, timeout=timeout,
                           env=env, start_new_session=True)
    except subprocess.TimeoutExpired as e:
        # kill the whole session (pool workers) and clean up what they leaked
        try:
            os.killpg(os.getpgid(e.cmd and 0 or 0), 0)
        except Exception:
            pass
        subprocess.run(["pkill", "-f", cfg["path"]], capture_output=True)
        return {"hang": True}
    for line in p.stdout.splitlines():
        if line.startswith("RESULT "):
            return json.loads(line[7:])
    return {"crash": (p.stderr or "")[-400:]}


def leaked(memory_id):
    return [f for f in glob.glob("/dev/shm/*") if memory_id and memory_id in f]


def config_failures(cfg, tmp):
    out = []
    tag = ("_nan%d_%d" % tuple(cfg["nan_rows"]) + ("f" if cfg.get("nan_full") else "")) if cfg.get("nan_rows") else ""
    cfg = dict(cfg, path=os.path.join(tmp, "im_%d_%d%s.fits" % (cfg["rows"], cfg["cols"], tag)), out=os.path.join(tmp, "o.npy"))
    r = run_cfg(cfg)
    if r.get("hang"):
        subprocess.run("pkill -f 'AegeanTools import BANE' ; rm -f /dev/shm/ibkg_* /dev/shm/irms_*", shell=True, capture_output=True)
        return [("pool.tasks_fit_workers" if cfg.get("fail_stripe") is None else "failure.worker_aborts_the_barrier_before_reraising",
                 "BANE did not finish within the watchdog (rows=%d grid=%d cores=%d stripes=%d fail=%r)" % (
                     cfg["rows"], cfg["grid"], cfg["cores"], cfg["stripes"], cfg.get("fail_stripe")))], None
    if r.get("crash"):
        return [("no_crash", r["crash"])], None
    lk = leaked(r.get("memory_id"))
    if lk:
        out.append(("shm.every_created_segment_closed_and_unlinked_on_every_path", "leaked %r" % lk))
        for f in lk:
            try:
                os.unlink(f)
            except OSError:
                pass
    if cfg.get("fail_stripe") is not None:
        if not r.get("raised"):
            out.append(("failure.worker_exception_propagates", "a stripe failed but the call returned normally"))
        return out, None
    if r.get("raised"):
        out.append(("no_exception", "raised %s" % r["raised"]))
        return out, None
    nblank = (cfg["nan_rows"][1] - cfg["nan_rows"][0]) * (cfg["cols"] if cfg.get("nan_full") else 6) if cfg.get("nan_rows") else 0
    if r["finite_bkg"] != r["size"] - nblank or r["finite_rms"] != r["size"] - nblank or r["zero_rows"]:
        out.append(("stripes.tile_the_rows", "not every output pixel was written (%d/%d finite, %d all-zero rows)" % (
            r["finite_rms"], r["size"], r["zero_rows"])))
    return out, cfg["out"]


def crosscheck(p):
    import numpy as np
    tmp = tempfile.mkdtemp(prefix="c07_")
    failures, seen, evals = [], set(), 0
    cfgs = [dict(rows=100, cols=40, grid=10, box=30, cores=2, stripes=2), dict(rows=100, cols=40, grid=10, box=30, cores=2, stripes=4),
            dict(rows=100, cols=40, grid=10, box=30, cores=4, stripes=3), dict(rows=3, cols=8, grid=1, box=4, cores=2, stripes=2),
            dict(rows=60, cols=30, grid=7, box=21, cores=1, stripes=1), dict(rows=100, cols=40, grid=10, box=30, cores=3, stripes=3),
            # blank pixels in one stripe only / in the middle stripe only (masking on): every worker must still take part in every barrier
            dict(rows=100, cols=40, grid=10, box=30, cores=2, stripes=2, nan_rows=[60, 70]),
            dict(rows=120, cols=40, grid=10, box=30, cores=3, stripes=3, nan_rows=[50, 58]),
            dict(rows=120, cols=40, grid=10, box=20, cores=2, stripes=2, nan_rows=[0, 75], nan_full=True),
            # layouts whose last stripe is a sliver
            dict(rows=100, cols=40, grid=8, box=24, cores=3, stripes=3), dict(rows=130, cols=40, grid=16, box=48, cores=4, stripes=4),
            dict(rows=75, cols=40, grid=12, box=36, cores=2, stripes=2)]
    if p.get("tier") == "thorough":
        cfgs += [dict(rows=r, cols=24, grid=g, box=3 * g, cores=c, stripes=s) for r in (17, 64, 101) for g in (4, 9)
                 for c in (1, 2, 5) for s in (1, 2, 7, 10)]
    try:
        for cfg in cfgs:
            evals += 1
            fl, _ = config_failures(cfg, tmp)
            for lab, what in fl:
                if lab not in seen:
                    seen.add(lab)
                    failures.append({"label": lab, "input": cfg, "what": what, "replay_func": "replay_config", "replay_payload": {"cfgs": [cfg]}})
        # fixed stripe layout, different worker counts: bit-identical maps
        base = dict(rows=96, cols=40, grid=8, box=24, stripes=3, seed=5)
        ref = None
        for cores in (3, 5, 8):
            evals += 1
            fl, path = config_failures(dict(base, cores=cores), tmp)
            if path and os.path.exists(path):
                arr = np.load(path)
                if ref is None:
                    ref = arr
                elif not np.array_equal(ref, arr, equal_nan=True):
                    if "bit_identical" not in seen:
                        seen.add("bit_identical")
                        failures.append({"label": "bit_identical_for_fixed_layout", "input": dict(base, cores=cores),
                                         "what": "maps differ between worker counts for the same stripe layout",
                                         "replay_func": "replay_config", "replay_payload": {"cfgs": [dict(base, cores=cores)]}})
        # a single failing stripe, each position
        for fs in (0, 50):
            evals += 1
            cfg = dict(rows=100, cols=40, grid=10, box=30, cores=2, stripes=2, fail_stripe=fs)
            fl, _ = config_failures(cfg, tmp)
            for lab, what in fl:
                if lab not in seen:
                    seen.add(lab)
                    failures.append({"label": lab, "input": cfg, "what": what, "replay_func": "replay_config", "replay_payload": {"cfgs": [cfg]}})
    finally:
        import shutil
        shutil.rmtree(tmp, ignore_errors=True)
    return {"evaluations": evals, "failures": failures,
            "rule": "real BANE.filter_mc_sharemem in a watchdogged subprocess: cores/stripes incl. stripes>cores and layouts realising "
                    "more stripes than requested, fixed layout with 3 worker counts (bit identity), a fault injected in each single stripe"}


def replay_config(p):
    tmp = tempfile.mkdtemp(prefix="c07_")
    bad = []
    cfgs = p.get("cfgs") or [dict(rows=100, cols=40, grid=10, box=30, cores=2, stripes=4), dict(rows=3, cols=8, grid=1, box=4, cores=2, stripes=2),
                             dict(rows=100, cols=40, grid=10, box=30, cores=2, stripes=2, fail_stripe=50)]
    try:
        for cfg in cfgs:
            fl, _ = config_failures(cfg, tmp)
            if fl:
                bad.append({"cfg": cfg, "what": fl})
    finally:
        import shutil
        shutil.rmtree(tmp, ignore_errors=True)
    return {"fails": bool(bad), "observed": bad, "replay_func": "replay_config", "replay_payload": {"cfgs": [b["cfg"] for b in bad]}}
