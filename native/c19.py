"""C19 native cross-check: real regroup_dbscan / regroup / resize against a reference union-find."""
import copy
import itertools
import random

import numpy as np

from AegeanTools import cluster
from AegeanTools.models import ComponentSource
from AegeanTools.angle_tools import gcd


def mk_sources(rnd, n):
    srcs = []
    c_ra, c_dec = rnd.choice([0.05, 359.95, rnd.uniform(0, 360)]), rnd.choice([89.5, -89.5, rnd.uniform(-80, 80)])
    for i in range(n):
        s = ComponentSource()
        k = rnd.random()
        if k < 0.6:
            s.ra = (c_ra + rnd.gauss(0, 0.1) / max(np.cos(np.radians(c_dec)), 0.02)) % 360
            s.dec = max(-90, min(90, c_dec + rnd.gauss(0, 0.1)))
        else:
            s.ra, s.dec = rnd.uniform(0, 360), rnd.uniform(-90, 90)
        s.a, s.b, s.pa = rnd.uniform(30, 120), rnd.uniform(10, 30), rnd.uniform(-90, 90)
        s.peak_flux = rnd.choice([1.0, 2.0, rnd.uniform(0.1, 10)])
        s.island, s.source = 1000 + i, 7
        s.uuid = "u%d" % i
        s.psf_a, s.psf_b, s.psf_pa = 40.0, 30.0, 0.0
        srcs.append(s)
    if n > 2 and rnd.random() < 0.3:
        srcs[1].ra, srcs[1].dec = srcs[0].ra, srcs[0].dec       # duplicate position
    return srcs


def reference_partition(srcs, theta_deg):
    n = len(srcs)
    parent = list(range(n))

    def find(x):
        while parent[x] != x:
            parent[x] = parent[parent[x]]
            x = parent[x]
        return x
    amb = False
    for i in range(n):
        for j in range(i + 1, n):
            d = gcd(srcs[i].ra, srcs[i].dec, srcs[j].ra, srcs[j].dec)
            if abs(d - theta_deg) < 1e-9 * max(1, theta_deg):
                amb = True
            if d <= theta_deg:
                parent[find(i)] = find(j)
    part = {}
    for i in range(n):
        part.setdefault(find(i), set()).add(srcs[i].uuid)
    return set(frozenset(v) for v in part.values()), amb


def dbscan_failures(seed):
    rnd = random.Random(seed)
    n = rnd.randint(1, 40)
    srcs = mk_sources(rnd, n)
    theta_arcmin = rnd.choice([1.0, 4.0, 12.0, 10 ** rnd.uniform(-1, 2.5)])
    eps = 2 * np.sin(np.radians(theta_arcmin / 60) / 2)
    ref, amb = reference_partition(srcs, theta_arcmin / 60)
    if amb:
        return []
    out = []
    snap = {s.uuid: {k: v for k, v in s.__dict__.items() if k not in ('island', 'source')} for s in srcs}
    work = copy.deepcopy(srcs)
    groups = cluster.regroup_dbscan(work, eps=eps)
    got = set(frozenset(s.uuid for s in g) for g in groups)
    if sum(len(g) for g in groups) != n or set().union(*got) != set(s.uuid for s in srcs) if got else n != 0:
        out.append(("every_source_in_exactly_one_group", "%d sources in, %d out" % (n, sum(len(g) for g in groups))))
    if got != ref:
        out.append(("groups_are_eps_connected_components", "partition differs from the chain-connected components at %.4f arcmin" % theta_arcmin))
    labels = set()
    for gi, g in enumerate(groups):
        nums = sorted(s.source for s in g)
        if nums != list(range(len(g))):
            out.append(("sources_numbered_0_to_n_minus_1", "group %d numbered %r" % (gi, nums)))
        for s in g:
            if (s.island, s.source) in labels:
                out.append(("labels_unique", "duplicate (island, source) %r" % ((s.island, s.source),)))
            labels.add((s.island, s.source))
        byn = sorted(g, key=lambda s: s.source)
        if any(byn[k].peak_flux < byn[k + 1].peak_flux for k in range(len(byn) - 1)):
            out.append(("numbered_by_decreasing_peak_flux", "group %d not ordered by flux" % gi))
        for s in g:
            cur = {k: v for k, v in s.__dict__.items() if k not in ('island', 'source')}
            if cur != snap[s.uuid]:
                out.append(("no_other_attribute_changed", "attributes of %s changed" % s.uuid))
    # permutation invariance
    perm = copy.deepcopy(srcs)
    rnd.shuffle(perm)
    g2 = cluster.regroup_dbscan(perm, eps=eps)
    if set(frozenset(s.uuid for s in g) for g in g2) != got:
        out.append(("permutation_invariant", "grouping depends on row order"))
    return out[:4]


def resize_failures(seed):
    rnd = random.Random(seed)
    srcs = mk_sources(rnd, rnd.randint(1, 6))
    mode = rnd.choice(['psf', 'nan', 'none'])
    for s in srcs:
        if mode == 'nan':
            s.psf_a = s.psf_b = s.psf_pa = np.nan
    if mode == 'none':
        class Bare:
            pass
        bare = []
        for s in srcs:
            b = Bare()
            for k in ('ra', 'dec', 'a', 'b', 'pa', 'peak_flux', 'island', 'source', 'uuid'):
                setattr(b, k, getattr(s, k))
            bare.append(b)
        srcs = bare
    out = []
    before = [(s.a, s.b) for s in srcs]
    try:
        res = cluster.resize(copy.deepcopy(srcs), ratio=1)
        if len(res) != len(srcs) or any(abs(r.a - a) > 1e-9 or abs(r.b - b) > 1e-9 for r, (a, b) in zip(res, before)):
            out.append(("identity", "resize(ratio=1) changed or dropped sources (%s psf)" % mode))
    except Exception as e:
        out.append(("no_exception", "resize(ratio=1) raised %r (%s psf)" % (e, mode)))
    if mode == 'psf':
        ratio = rnd.uniform(1, 3)
        res = cluster.resize(copy.deepcopy(srcs), ratio=ratio)
        if len(res) != len(srcs) or any(r.a < a - 1e-9 or r.b < b - 1e-9 for r, (a, b) in zip(res, before)):
            out.append(("never_shrinks", "resize(ratio=%.3f) shrank a source" % ratio))
    else:
        try:
            cluster.resize(copy.deepcopy(srcs), ratio=2.0)
        except Exception as e:
            out.append(("no_exception", "resize(ratio=2) raised %r (%s psf)" % (e, mode)))
    return out


def greedy_failures(seed):
    """bounded stand-in for regroup (elliptical distance, greedy): partition property only, <= 5 sources"""
    rnd = random.Random(seed)
    n = rnd.randint(1, 5)
    srcs = mk_sources(rnd, n)
    decs = [s.dec for s in srcs]
    if len(set(decs)) != n:
        return []
    out = []
    try:
        groups = cluster.regroup(copy.deepcopy(srcs), eps=rnd.choice([1, 4]), far=0.5)
    except Exception as e:
        return [("greedy_no_exception", "regroup raised %r" % (e,))]
    ids = [s.uuid for g in groups for s in g]
    if sorted(ids) != sorted(s.uuid for s in srcs):
        out.append(("greedy_partition", "regroup: sources in %r, out %r" % (sorted(s.uuid for s in srcs), sorted(ids))))
    return out


def greedy_v_failures():
    """a source within the linking length of members of two different groups ('V'): the result must stay a partition"""
    from AegeanTools.models import SimpleSource
    out = []
    for ra0, dec0 in ((10.0, 0.0), (150.0, -45.0), (301.0, 62.0)):
        cosd = np.cos(np.radians(dec0))
        cat = []
        for name, dra, ddec, flux in (("A", -60.0, 40.0, 3.0), ("B", 60.0, 40.0, 2.0), ("C", 0.0, 0.0, 1.0), ("D", 900.0, 900.0, 5.0)):
            s_ = SimpleSource()
            s_.ra, s_.dec = ra0 + dra / 3600.0 / cosd, dec0 + ddec / 3600.0
            s_.a = s_.b = 60.0
            s_.pa, s_.peak_flux, s_.island, s_.source = 0.0, flux, 0, 0
            s_.name = name
            cat.append(s_)
        for order in ((0, 1, 2, 3), (2, 0, 1, 3), (1, 3, 0, 2)):
            try:
                groups = cluster.regroup([copy.deepcopy(cat[k]) for k in order], eps=1)
            except Exception as e:
                return [("greedy_no_exception", "regroup raised %r" % (e,))]
            names = sorted(s_.name for g in groups for s_ in g)
            if names != ["A", "B", "C", "D"]:
                return [("greedy_partition", "V configuration at (%g, %g), row order %s: groups %s" % (
                    ra0, dec0, order, [[s_.name for s_ in g] for g in groups]))]
    return out


def crosscheck(p):
    n = 60 if p.get("tier") != "thorough" else 1500
    s0 = p.get("seed", 0) * 7001
    failures, seen, evals = [], set(), 0

    def run(fn, kind, i):
        nonlocal evals
        evals += 1
        for lab, what in fn(s0 + i):
            if lab not in seen:
                seen.add(lab)
                failures.append({"label": lab, "input": {kind: s0 + i}, "what": what, "replay_func": "replay_regroup",
                                 "replay_payload": {kind: [s0 + i]}})
    for i in range(n):
        run(dbscan_failures, "dbscan", i)
        run(resize_failures, "resize", i)
        run(greedy_failures, "greedy", i)
    evals += 1
    for lab, what in greedy_v_failures():
        if lab not in seen:
            seen.add(lab)
            failures.append({"label": lab, "input": {"greedy_v": True}, "what": what, "replay_func": "replay_regroup",
                             "replay_payload": {"greedy_v": True}})
    return {"evaluations": evals, "failures": failures,
            "rule": "random catalogues (1..40 sources, clustered/sparse, poles, RA wrap, duplicates, equal fluxes): regroup_dbscan vs "
                    "union-find on great-circle separations, relabelling, frame, permutation; resize with/without psf columns; "
                    "greedy regroup partition for <= 5 sources and 'V' configurations in several row orders (bounded stand-in)"}


def replay_regroup(p):
    bad = []
    if p.get("greedy_v") or not any(k in p for k in ("dbscan", "resize", "greedy")):
        fl = greedy_v_failures()
        if fl:
            bad.append({"greedy_v": True, "what": fl})
        if p.get("greedy_v"):
            return {"fails": bool(bad), "observed": bad, "replay_func": "replay_regroup", "replay_payload": {"greedy_v": True}}
    for kind, fn in (("dbscan", dbscan_failures), ("resize", resize_failures), ("greedy", greedy_failures)):
        seeds = p.get(kind)
        if seeds is None and not any(k in p for k in ("dbscan", "resize", "greedy")):
            seeds = range(80)
        for s in seeds or []:
            fl = fn(s)
            if fl:
                bad.append({"kind": kind, "seed": s, "what": fl})
                break
    pay = {}
    for b in bad:
        pay.setdefault(b["kind"], []).append(b["seed"])
    return {"fails": bool(bad), "observed": bad, "replay_func": "replay_regroup", "replay_payload": pay}
