"""C16 native cross-check: real WCSHelper on several projections / reference points."""
import random

import numpy as np
from astropy.io import fits
from astropy.wcs import WCS

from AegeanTools.wcs_helpers import WCSHelper
from AegeanTools.angle_tools import gcd, bear


def mk_helper(rnd):
    proj = rnd.choice(['SIN', 'TAN', 'ZEA', 'ARC', 'STG'])
    h = fits.Header()
    h['NAXIS'] = 2
    h['NAXIS1'], h['NAXIS2'] = 400, 300
    h['CTYPE1'], h['CTYPE2'] = 'RA---' + proj, 'DEC--' + proj
    h['CRVAL1'] = rnd.choice([0.001, 359.999, rnd.uniform(0, 360)])
    h['CRVAL2'] = rnd.choice([-85.0, 85.0, rnd.uniform(-80, 80)])
    scale = rnd.choice([1, 5, 20, 60]) / 3600.0
    h['CDELT1'], h['CDELT2'] = -scale, scale
    h['CRPIX1'], h['CRPIX2'] = rnd.uniform(100, 300), rnd.uniform(80, 220)
    h['BMAJ'], h['BMIN'], h['BPA'] = 6 * scale, 4 * scale, rnd.uniform(-90, 90)
    return WCSHelper.from_header(h), h, scale


def case_failures(seed):
    rnd = random.Random(seed)
    helper, h, scale = mk_helper(rnd)
    w = WCS(h, naxis=2)
    out = []
    for _ in range(6):
        x, y = rnd.uniform(1, 300), rnd.uniform(1, 400)       # (row, column), 1-based
        ra, dec = helper.pix2sky([x, y])
        ra_ref, dec_ref = w.all_pix2world(y, x, 1)
        if abs(ra - ra_ref) > 1e-9 or abs(dec - dec_ref) > 1e-9:
            out.append(("pix2sky.swap_and_origin", "pix2sky([%.2f,%.2f]) = (%.8f,%.8f), FITS standard (%.8f,%.8f)" % (
                x, y, ra, dec, ra_ref, dec_ref)))
        bx, by = helper.sky2pix([ra, dec])
        if abs(bx - x) > 1e-6 or abs(by - y) > 1e-6:
            out.append(("position_roundtrip.pixel_sky_pixel", "pixel (%.6f,%.6f) -> sky -> (%.6f,%.6f)" % (x, y, bx, by)))
        # vectors
        r, th = rnd.uniform(1, 20), rnd.uniform(-180, 180)
        ra1, dec1, a, pa = helper.pix2sky_vec([x, y], r, th)
        x2, y2, r2, th2 = helper.sky2pix_vec([ra1, dec1], a, pa)
        if abs(r2 - r) > 1e-3 * r or abs((th2 - th + 180) % 360 - 180) > 0.01 or abs(x2 - x) > 1e-6 or abs(y2 - y) > 1e-6:
            out.append(("vector_roundtrip", "vector (r=%.4f, theta=%.3f) -> sky -> (r=%.4f, theta=%.3f)" % (r, th, r2, th2)))
        # length is a great-circle length, angle East of North
        xe, ye = x + r * np.cos(np.radians(th)), y + r * np.sin(np.radians(th))
        ra_e, dec_e = w.all_pix2world(ye, xe, 1)
        if abs(a - gcd(ra1, dec1, float(ra_e), float(dec_e))) > 1e-9 or \
                abs((pa - bear(ra1, dec1, float(ra_e), float(dec_e)) + 180) % 360 - 180) > 1e-7:
            out.append(("pix2sky_vec.conventions", "length/PA of the pixel vector are not gcd/bear of its end points"))
        # a vector pointing to increasing declination (north) must have PA ~ 0, to increasing RA (east) ~ +90
        ran, decn = ra1, dec1 + 5 * scale
        xn, yn = helper.sky2pix([ran, decn])
        _, _, _, pan = helper.pix2sky_vec([x, y], np.hypot(xn - x, yn - y), np.degrees(np.arctan2(yn - y, xn - x)))
        if abs((pan + 180) % 360 - 180) > 0.05:
            out.append(("east_of_north", "a vector towards north has PA %.4f" % pan))
        rae = ra1 + 5 * scale / max(np.cos(np.radians(dec1)), 1e-3)
        xq, yq = helper.sky2pix([rae, dec1])
        _, _, _, pae = helper.pix2sky_vec([x, y], np.hypot(xq - x, yq - y), np.degrees(np.arctan2(yq - y, xq - x)))
        want_e = bear(ra1, dec1, rae, dec1)         # just below 90 deg: the parallel curves away from the great circle
        if abs((pae - want_e + 180) % 360 - 180) > 0.05 or not (80 < want_e < 100):
            out.append(("east_of_north", "a vector towards east has PA %.4f" % pae))
        # ellipses
        sx, sy = rnd.uniform(2, 20), rnd.uniform(1, 20)
        sx, sy = max(sx, sy), min(sx, sy)
        ra1, dec1, a, b, pa = helper.pix2sky_ellipse([x, y], sx, sy, th)
        x2, y2, sx2, sy2, th2 = helper.sky2pix_ellipse([ra1, dec1], a, b, pa)
        dth = abs((th2 - th + 90) % 180 - 90)
        if abs(sx2 - sx) > 1e-3 * sx or abs(sy2 - sy) > 1e-3 * sy or (dth > 0.01 and sx / sy > 1.05):
            out.append(("ellipse_roundtrip", "ellipse (%.3f,%.3f,%.2f) -> sky -> (%.3f,%.3f,%.2f)" % (sx, sy, th, sx2, sy2, th2)))
    # the result may not depend on how the pixel position is typed: python ints, numpy ints, integer arrays, floats
    xi, yi = rnd.randint(5, 290), rnd.randint(5, 390)
    r, th = rnd.uniform(1.2, 9.7), rnd.uniform(-170, 170)
    sx, sy = rnd.uniform(3.3, 9.9), rnd.uniform(1.1, 3.2)
    ref_v = helper.pix2sky_vec([float(xi), float(yi)], r, th)
    ref_e = helper.pix2sky_ellipse([float(xi), float(yi)], sx, sy, th)
    ref_p = helper.pix2sky([float(xi), float(yi)])
    for typed in ([xi, yi], (xi, yi), np.array([xi, yi]), [np.int64(xi), np.int64(yi)], np.array([xi, yi], dtype=np.int32)):
        got_v, got_e, got_p = helper.pix2sky_vec(typed, r, th), helper.pix2sky_ellipse(typed, sx, sy, th), helper.pix2sky(typed)
        if not (np.allclose(got_v, ref_v, rtol=0, atol=1e-9) and np.allclose(got_e, ref_e, rtol=0, atol=1e-9)
                and np.allclose(got_p, ref_p, rtol=0, atol=1e-12)):
            out.append(("pix2sky_vec.conventions", "integer-typed pixel position %r gives %s, the same position as floats gives %s" % (
                typed, tuple(np.round(got_v, 6)), tuple(np.round(ref_v, 6)))))
            break
    # consecutive, nearly identical queries must be answered independently; array inputs must not be modified
    x, y = rnd.uniform(1, 300), rnd.uniform(1, 400)
    ra, dec = helper.pix2sky([x, y])
    p1 = helper.sky2pix([ra, dec])
    dra = 0.3 * scale * 1e-3 / max(np.cos(np.radians(dec)), 1e-3)
    p2 = helper.sky2pix([ra + dra, dec + 3e-8])
    q2 = w.all_world2pix([[ra + dra, dec + 3e-8]], 1)[0]
    if abs(p2[0] - q2[1]) > 1e-6 or abs(p2[1] - q2[0]) > 1e-6:
        out.append(("position_roundtrip.sky_pixel_sky", "second of two nearly identical sky2pix queries is off by (%.2e, %.2e) pixel" % (
            p2[0] - q2[1], p2[1] - q2[0])))
    for name, call in (("pix2sky", lambda a: helper.pix2sky(a)), ("pix2sky_vec", lambda a: helper.pix2sky_vec(a, 3.0, 30.0)),
                       ("pix2sky_ellipse", lambda a: helper.pix2sky_ellipse(a, 5.0, 3.0, 20.0))):
        arr = np.array([x, y], dtype=float)
        keep = arr.copy()
        call(arr)
        if not np.array_equal(arr, keep):
            out.append(("inputs_not_modified", "%s modified the pixel array it was given" % name))
    arr = np.array([ra, dec], dtype=float)
    keep = arr.copy()
    helper.sky2pix(arr); helper.sky2pix_vec(arr, 0.01, 10.0); helper.sky2pix_ellipse(arr, 0.01, 0.005, 10.0)
    if not np.array_equal(arr, keep):
        out.append(("inputs_not_modified", "a sky2pix* call modified the position array it was given"))
    return out[:5]


def crosscheck(p):
    n = 20 if p.get("tier") != "thorough" else 500
    s0 = p.get("seed", 0) * 4099
    failures, seen, evals = [], set(), 0
    for i in range(n):
        evals += 6
        for lab, what in case_failures(s0 + i):
            if lab not in seen:
                seen.add(lab)
                failures.append({"label": lab, "input": {"seed": s0 + i}, "what": what, "replay_func": "replay_wcs",
                                 "replay_payload": {"seeds": [s0 + i]}})
    return {"evaluations": evals, "failures": failures,
            "rule": "SIN/TAN/ZEA/ARC/STG headers (|dec| up to 85, RA wrap, 1..60 arcsec pixels): positions vs the FITS standard call, "
                    "pixel/vector/ellipse round trips, great-circle length and East-of-North checks"}


def replay_wcs(p):
    bad = []
    for s in p.get("seeds") or range(60):
        fl = case_failures(s)
        if fl:
            bad.append({"seed": s, "what": fl})
            if len(bad) >= 2:
                break
    return {"fails": bool(bad), "observed": bad, "replay_func": "replay_wcs", "replay_payload": {"seeds": [b["seed"] for b in bad]}}
