"""C18 native cross-check: write/read round trip of random catalogues in every readable format."""
import os
import random
import shutil
import sqlite3
import tempfile

import numpy as np

from AegeanTools import catalogs
from AegeanTools.models import ComponentSource, IslandSource, SimpleSource

FMTS = ['csv', 'tab', 'tex', 'vot', 'xml', 'fits']
KIND = {'_comp': ComponentSource, '_isle': IslandSource, '_simp': SimpleSource}


def rfloat(rnd):
    m = rnd.random()
    if m < 0.1:
        return float('nan')
    if m < 0.2:
        return -1.0
    if m < 0.3:
        return rnd.choice([1e-30, -1e30, 1.2345678901234567e-7, 123456789.12345678, -0.0, 5e-324, 1.7e308])
    return rnd.uniform(-1, 1) * 10 ** rnd.randint(-6, 6)


def mk_source(rnd, cls, k, atypical=False):
    s = cls()
    for n in cls.names:
        cur = getattr(s, n, None)
        if n in ('island', 'source', 'components', 'pixels'):
            v = rnd.randint(0, 5000)
        elif n == 'flags':
            v = rnd.randint(0, 127)
        elif n == 'uuid':
            v = "id-" + "x" * rnd.randint(0, 40) + str(k)
        elif n in ('ra_str', 'dec_str'):
            v = None
        else:
            v = rfloat(rnd)
            if n.startswith('err_') and rnd.random() < 0.3:
                v = -1            # fitting.errors() hands out the integer marker
        if v is not None:
            setattr(s, n, v)
    if hasattr(s, 'ra_str'):
        from AegeanTools.angle_tools import dec2hms, dec2dms
        if atypical:
            s.ra, s.dec = float('nan'), float('nan')
        else:
            s.ra, s.dec = rnd.uniform(0, 360), rnd.uniform(-90, 90)
        s.ra_str, s.dec_str = dec2hms(s.ra), dec2dms(s.dec)
    return s


def same(a, b, single=False):
    if isinstance(a, str) or isinstance(b, str):
        return str(a) == str(b)
    if a is None or b is None:
        return a is b
    try:
        if np.ma.is_masked(b):
            return False
        a, b = float(a), float(b)
    except (TypeError, ValueError):
        return False
    if np.isnan(a) or np.isnan(b):
        return np.isnan(a) and np.isnan(b)
    if single:
        return np.float32(a) == np.float32(b) or (np.isinf(np.float32(a)) and abs(b) > 3e38) or abs(a - b) <= 1.2e-7 * abs(a)
    return a == b


def case_failures(seed, fmt=None):
    rnd = random.Random(seed)
    fmt = fmt or rnd.choice(FMTS)
    n = rnd.randint(1, 12)
    cat = []
    for k in range(n):
        cls = rnd.choice([ComponentSource, ComponentSource, IslandSource, SimpleSource])
        cat.append(mk_source(rnd, cls, k, atypical=(k == 0 and rnd.random() < 0.5)))
    prefix = rnd.choice([None, None, 'ax'])
    meta = rnd.choice([None, {'PROGRAM': 'test', 'DATE': 'now', 'PROGVER': '1'}])
    tmp = tempfile.mkdtemp(prefix="c18_")
    out = []
    try:
        base = os.path.join(tmp, "cat." + fmt)
        try:
            catalogs.save_catalog(base, cat, meta=meta, prefix=prefix)
        except Exception as e:
            return [("save_catalog_completes", "save_catalog(%s) raised %r (first row %s, prefix %s)" % (fmt, e, type(cat[0]).__name__, prefix))]
        for suf, cls in KIND.items():
            want = [s for s in cat if type(s) is cls]
            path = os.path.join(tmp, "cat%s.%s" % (suf, fmt))
            if not want:
                if os.path.exists(path):
                    out.append(("split.file_only_for_present_types", "%s written without sources of that type" % suf))
                continue
            if not os.path.exists(path):
                out.append(("split.one_file_per_present_type", "%s file missing" % suf))
                continue
            try:
                t = catalogs.load_table(path)
            except Exception as e:
                out.append(("load_table_completes", "load_table(%s%s) raised %r" % (suf, fmt, e)))
                continue
            if prefix:
                for c in list(t.colnames):
                    if c.startswith(prefix + '_'):
                        t.rename_column(c, c[len(prefix) + 1:])
            got = catalogs.table_to_source_list(t, src_type=cls)
            if len(got) != len(want):
                out.append(("split.each_file_holds_exactly_the_sources_of_its_type", "%s: %d rows for %d sources" % (suf, len(got), len(want))))
                continue
            for k, (a, b) in enumerate(zip(want, got)):
                bad = [nm for nm in cls.names if not same(getattr(a, nm), getattr(b, nm), single=(fmt == 'fits'))]
                if bad:
                    nm = bad[0]
                    out.append(("roundtrip.%s" % ('strings' if isinstance(getattr(a, nm), str) else 'integers' if isinstance(getattr(a, nm), int) else 'floats'),
                                "%s %s row %d column %s: wrote %r, read %r (first row of the file: %r)" % (
                                    fmt, suf, k, nm, getattr(a, nm), getattr(b, nm), getattr(want[0], nm))))
                    break
    finally:
        shutil.rmtree(tmp, ignore_errors=True)
    seen, uniq = set(), []
    for lab, what in out:
        if lab not in seen:
            seen.add(lab)
            uniq.append((lab, what))
    return uniq


def db_failures(seed, big=False):
    rnd = random.Random(seed)
    n_rows = rnd.choice([617, 1234, 501]) if big else rnd.randint(1, 10)
    cat = [mk_source(rnd, rnd.choice([ComponentSource, IslandSource, SimpleSource]) if not big else ComponentSource, k) for k in range(n_rows)]
    tmp = tempfile.mkdtemp(prefix="c18_")
    out = []
    try:
        path = os.path.join(tmp, "cat.db")
        try:
            if not big and seed % 2:
                # a database of that name left over from an earlier save, holding every source type
                catalogs.save_catalog(path, [mk_source(rnd, cls, 90 + k) for k, cls in
                                             enumerate((ComponentSource, IslandSource, SimpleSource, ComponentSource))], meta={'PROGRAM': 'y'})
                cat = [s_ for s_ in cat if type(s_) is type(cat[0])]      # the new catalogue holds one source type only
            catalogs.save_catalog(path, cat, meta={'PROGRAM': 'x'})
        except Exception as e:
            return [("save_catalog_completes", "save_catalog(db) raised %r" % (e,))]
        conn = sqlite3.connect(path)
        for tn, cls in (('components', ComponentSource), ('islands', IslandSource), ('simples', SimpleSource)):
            want = [s for s in cat if type(s) is cls]
            try:
                rows = conn.execute("SELECT %s FROM %s" % (",".join(cls.names), tn)).fetchall()
            except sqlite3.OperationalError:
                rows = []
            if len(rows) != len(want):
                out.append(("db.same_rows", "table %s has %d rows for %d sources" % (tn, len(rows), len(want))))
                continue
            for k, (s, row) in enumerate(zip(want, rows)):
                for nm, v in zip(cls.names, row):
                    a = getattr(s, nm)
                    ok = (v is None and isinstance(a, float) and np.isnan(a)) or same(a, v)
                    if not ok:
                        out.append(("db.same_rows", "table %s row %d column %s: wrote %r, holds %r" % (tn, k, nm, a, v)))
                        break
                else:
                    continue
                break
        conn.close()
    finally:
        shutil.rmtree(tmp, ignore_errors=True)
    return out[:1]


def crosscheck(p):
    thorough = p.get("tier") == "thorough"
    s0 = p.get("seed", 0) * 2003
    failures, seen, evals = [], set(), 0
    for i in range(600 if thorough else 90):
        evals += 1
        fmt = FMTS[i % len(FMTS)]
        try:
            fl = case_failures(s0 + i, fmt)
        except Exception as e:
            fl = [("harness_error", repr(e))]
        for lab, what in fl:
            if lab not in seen:
                seen.add(lab)
                failures.append({"label": lab, "input": {"seed": s0 + i, "fmt": fmt}, "what": what, "replay_func": "replay_roundtrip",
                                 "replay_payload": {"cases": [[s0 + i, fmt]]}})
    for i in range(60 if thorough else 10):
        evals += 1
        try:
            fl = db_failures(s0 + i)
        except Exception as e:
            fl = [("harness_error", repr(e))]
        for lab, what in fl:
            if lab not in seen:
                seen.add(lab)
                failures.append({"label": lab, "input": {"db_seed": s0 + i}, "what": what, "replay_func": "replay_roundtrip",
                                 "replay_payload": {"db": [s0 + i]}})
    evals += 1
    try:
        fl = db_failures(s0 + 7, big=True)
    except Exception as e:
        fl = [("harness_error", repr(e))]
    for lab, what in fl:
        if lab not in seen:
            seen.add(lab)
            failures.append({"label": lab, "input": {"db_seed": s0 + 7, "big": True}, "what": what, "replay_func": "replay_roundtrip",
                             "replay_payload": {"db_big": [s0 + 7]}})
    return {"evaluations": evals, "failures": failures,
            "rule": "a 500+ row catalogue into sqlite; random catalogues (1-12 rows of mixed ComponentSource / IslandSource / SimpleSource, NaN, -1, extreme magnitudes, "
                    "uuids of varying length, atypical first row, with / without prefix and metadata) saved with save_catalog in "
                    "csv/tab/tex/vot/xml/fits, read with load_table + table_to_source_list and compared column by column (exact; "
                    "float32 for fits); sqlite rows compared with the sources"}


def replay_roundtrip(p):
    bad = []
    explicit = 'cases' in p or 'db' in p or 'db_big' in p
    for seed in p.get("db_big") or ([] if explicit else [7]):
        fl = db_failures(seed, big=True)
        if fl:
            bad.append({"db_big": seed, "what": fl})
    for seed, fmt in p.get("cases") or ([] if explicit else [[i, FMTS[i % len(FMTS)]] for i in range(90)]):
        fl = case_failures(seed, fmt)
        if fl:
            bad.append({"case": [seed, fmt], "what": fl})
            break
    for seed in p.get("db") or ([] if explicit else range(10)):
        fl = db_failures(seed)
        if fl:
            bad.append({"db": seed, "what": fl})
            break
    return {"fails": bool(bad), "observed": bad, "replay_func": "replay_roundtrip",
            "replay_payload": {"cases": [b["case"] for b in bad if "case" in b], "db": [b["db"] for b in bad if "db" in b], "db_big": [b["db_big"] for b in bad if "db_big" in b]}}
