"""C17 native replay / cross-check against the real AegeanTools.angle_tools."""
import math
import random

import numpy as np

from AegeanTools import angle_tools as at

LD = np.longdouble


def fields_failure(x):
    """executable contract of dec2dms / dec2hms / dec2dec / ra2dec at x"""
    out = []
    if not np.isfinite(x):
        for f in (at.dec2dms, at.dec2hms):
            if f(x) != 'XX:XX:XX.XX':
                out.append("%s(%r) = %r" % (f.__name__, x, f(x)))
        return out
    try:
        s = at.dec2dms(x)
        sign, rest = s[0], s[1:]
        d, m, sec = rest.split(':')
        if sign not in '+-' or (sign == '-') != (x < 0):
            out.append("dec2dms(%r) = %r: sign" % (x, s))
        if not (0 <= int(m) < 60):
            out.append("dec2dms(%r) = %r: minutes field" % (x, s))
        if not (0 <= float(sec) < 60):
            out.append("dec2dms(%r) = %r: seconds field" % (x, s))
        ndig = len(sec.split('.')[1]) if '.' in sec else 0
        tol = 0.5 * 10 ** (-ndig) / 3600 * (1 + 1e-6) + 1e-12
        if abs(at.dec2dec(s) - x) > tol:
            out.append("dec2dec(dec2dms(%r)) = %r" % (x, at.dec2dec(s)))
    except Exception as e:
        out.append("dec2dms(%r) raised %r" % (x, e))
    if -360 <= x < 360:
        try:
            s = at.dec2hms(x)
            h, m, sec = s.split(':')
            if not (0 <= int(h) < 24):
                out.append("dec2hms(%r) = %r: hours field" % (x, s))
            if not (0 <= int(m) < 60):
                out.append("dec2hms(%r) = %r: minutes field" % (x, s))
            if not (0 <= float(sec) < 60):
                out.append("dec2hms(%r) = %r: seconds field" % (x, s))
            ndig = len(sec.split('.')[1]) if '.' in sec else 0
            tol = 15 * 0.5 * 10 ** (-ndig) / 3600 * (1 + 1e-6) + 1e-11
            y = at.ra2dec(s)
            if min(abs(y - x - k) for k in (-360, 0, 360)) > tol:
                out.append("ra2dec(dec2hms(%r)) = %r" % (x, y))
        except Exception as e:
            out.append("dec2hms(%r) raised %r" % (x, e))
    return out


def vec(ra, dec):
    r, d = np.radians(LD(ra)), np.radians(LD(dec))
    return np.array([np.cos(d) * np.cos(r), np.cos(d) * np.sin(r), np.sin(d)])


def ref_sep(ra1, d1, ra2, d2):
    v1, v2 = vec(ra1, d1), vec(ra2, d2)
    cr = np.cross(v1, v2)
    return float(np.degrees(np.arctan2(np.sqrt((cr * cr).sum()), (v1 * v2).sum())))


def ref_bear(ra1, d1, ra2, d2):
    l = np.radians(LD(ra2) - LD(ra1))
    p1, p2 = np.radians(LD(d1)), np.radians(LD(d2))
    return float(np.degrees(np.arctan2(np.sin(l) * np.cos(p2),
                                       np.cos(p1) * np.sin(p2) - np.sin(p1) * np.cos(p2) * np.cos(l))))


def sphere_failure(ra1, d1, ra2, d2, tol=1e-9):
    out = []
    g12, g21 = at.gcd(ra1, d1, ra2, d2), at.gcd(ra2, d2, ra1, d1)
    if g12 != g21 and abs(g12 - g21) > 1e-12:
        out.append(("gcd.symmetric", "gcd not symmetric: %r vs %r" % (g12, g21)))
    if not (0 <= g12 <= 180):
        out.append(("gcd.range_0_180", "gcd = %r outside [0,180]" % g12))
    r = ref_sep(ra1, d1, ra2, d2)
    if abs(g12 - r) > tol:
        lab = "gcd.agrees_with_vector_formula_1e-9.near_antipodal" if r > 179.0 else "gcd.haversine_equals_vector_formula"
        out.append((lab, "gcd = %.12f, vector formula %.12f (diff %.2e)" % (g12, r, g12 - r)))
    same = np.allclose(np.asarray(vec(ra1, d1), dtype=float), np.asarray(vec(ra2, d2), dtype=float), atol=0, rtol=0)
    if (g12 == 0) != same and r > 1e-7:
        out.append(("gcd.zero_iff_same_point", "gcd = %r for distinct points" % g12))
    if 1e-6 < r < 180 - 1e-6 and abs(d1) < 89.999:
        b = at.bear(ra1, d1, ra2, d2)
        rb = ref_bear(ra1, d1, ra2, d2)
        if abs((b - rb + 180) % 360 - 180) > 1e-7 / max(math.sin(math.radians(r)), 1e-3):
            out.append(("bear.pa_formula", "bear = %r, PA formula %r" % (b, rb)))
    return out


def translate_failure(ra, dec, r, th):
    out = []
    ra2, dec2 = at.translate(ra, dec, r, th)
    if r < 1e-9 or r > 180 - 1e-6 or abs(dec) > 89.9:
        return out
    if abs(ref_sep(ra, dec, ra2, dec2) - r) > 1e-7:
        out.append(("translate.distance_is_r", "translate(%r,%r,%r,%r) lands %.10f deg away" % (
            ra, dec, r, th, ref_sep(ra, dec, ra2, dec2))))
    b = ref_bear(ra, dec, ra2, dec2)
    if abs((b - th + 180) % 360 - 180) > 1e-6 / max(math.sin(math.radians(r)), 1e-3) and abs(dec2) < 89.999:
        out.append(("translate.dra_arguments", "initial bearing %.9f, requested %r" % (b, th)))
    return out


EDGE_X = [0.0, 0.99999999, 1.0 - 1e-12, 59.995 / 3600, 0.9999986, 89.9999999, -0.0000001, -89.99999999, 359.9999999,
          359.99999, 14.99999999, 29.9999999, -15.0, 12.0, 0.5, 1e-9, -1e-9, 179.99999999, 90.0, -90.0, 345.0000001]


def arrays_failure(seed=0):
    """array arguments: elementwise agreement with scalar calls, inputs untouched"""
    rng = np.random.default_rng(seed)
    out = []
    n = 7
    ra1, d1 = rng.uniform(0, 360, n), rng.uniform(-80, 80, n)
    ra2, d2 = rng.uniform(0, 360, n), rng.uniform(-80, 80, n)
    r, th = rng.uniform(0.1, 100, n), rng.uniform(0, 360, n)
    for name, fn, args in (("gcd", at.gcd, (ra1, d1, ra2, d2)), ("bear", at.bear, (ra1, d1, ra2, d2)),
                           ("translate", at.translate, (ra1, d1, r, th))):
        keep = [a.copy() for a in args]
        res = fn(*args)
        if any(not np.array_equal(a, k) for a, k in zip(args, keep)):
            out.append(("%s.array_arguments_not_modified" % name, "%s modified its array arguments" % name))
        sc = [fn(*[float(k[i]) for k in keep]) for i in range(n)]
        res_t = np.array(res).T if isinstance(res, tuple) else np.array(res)
        if not np.allclose(np.array(sc, dtype=float), np.array(res_t, dtype=float), rtol=1e-12, atol=1e-12):
            out.append(("%s.array_result_elementwise_shape" % name, "%s(array) differs from the scalar calls" % name))
    return out


def replay_arrays(p):
    bad = []
    for seed in p.get("seeds", [0, 1, 2]):
        fl = arrays_failure(seed)
        if fl:
            bad.append({"seed": seed, "what": fl})
    return {"fails": bool(bad), "observed": bad[:2], "replay_func": "replay_arrays",
            "replay_payload": {"seeds": [b["seed"] for b in bad[:2]]}}


def crosscheck(p):
    rnd = random.Random(p.get("seed", 0))
    n = 3000 if p.get("tier") != "thorough" else 60000
    evals = 0
    failures = []
    seen = set()

    def add(label, inp, what, func, payload):
        if label in seen:
            return
        seen.add(label)
        failures.append({"label": label, "input": inp, "what": what, "replay_func": func, "replay_payload": payload})

    xs = list(EDGE_X) + [float('nan'), float('inf')]
    for _ in range(n):
        k = rnd.random()
        if k < 0.3:
            xs.append(rnd.uniform(-90, 360))
        elif k < 0.6:   # values that round up into the next minute/degree/hour
            xs.append(rnd.randint(-89, 359) + rnd.randint(0, 59) / 60.0 + (60 - 10 ** rnd.uniform(-9, -2)) / 3600.0)
        else:
            xs.append(rnd.randint(-90, 359) + rnd.choice([0, 1e-13, -1e-13, 1 - 1e-11]))
    for x in xs:
        evals += 1
        fl = fields_failure(x)
        if fl:
            lab = "seconds_field_in_range" if "seconds" in fl[0] else ("hours_field_in_range" if "hours" in fl[0]
                  else ("minutes_field_in_range" if "minutes" in fl[0] else "dms_roundtrip"))
            add(lab, {"x": x}, fl[:3], "replay_fields", {"xs": [x]})
    for _ in range(n // 3):
        evals += 1
        ra1, d1 = rnd.uniform(0, 360), rnd.choice([rnd.uniform(-90, 90), 90.0, -90.0, 0.0])
        mode = rnd.random()
        e = 10 ** rnd.uniform(-9, 0)
        if mode < 0.3:
            ra2, d2 = rnd.uniform(0, 360), rnd.uniform(-90, 90)
        elif mode < 0.6:
            ra2, d2 = (ra1 + e * rnd.gauss(0, 1)) % 360, max(-90, min(90, d1 + e * rnd.gauss(0, 1)))
        elif mode < 0.8:
            ra2, d2 = (ra1 + 180 + e * rnd.gauss(0, 1)) % 360, max(-90, min(90, -d1 + e * rnd.gauss(0, 1)))
        else:
            ra2, d2 = ra1, d1
        for lab, what in sphere_failure(ra1, d1, ra2, d2):
            add(lab, {"p1": [ra1, d1], "p2": [ra2, d2]}, what, "replay_sphere", {"pairs": [[ra1, d1, ra2, d2]]})
        r, th = rnd.choice([rnd.uniform(0, 180), 10 ** rnd.uniform(-6, 1)]), rnd.uniform(0, 360)
        for lab, what in translate_failure(ra1, max(-89.5, min(89.5, d1)), r, th):
            add(lab, {"start": [ra1, d1], "r": r, "theta": th}, what, "replay_sphere",
                {"translations": [[ra1, max(-89.5, min(89.5, d1)), r, th]]})
    for sd in range(3):
        evals += 1
        for lab, what in arrays_failure(sd):
            add(lab, {"seed": sd}, what, "replay_arrays", {"seeds": [sd]})
    return {"evaluations": evals, "failures": failures,
            "rule": "edge values + %d random angles (incl. values rounding into the next field) + %d random point pairs "
                    "(generic, near-coincident, near-antipodal, identical) + translations" % (n, n // 3)}


def _num(v):
    s = str(v)
    if s.endswith('?'):
        s = s[:-1]
    if '/' in s:
        a, b = s.split('/')
        return float(a) / float(b)
    return float(s)


def replay_fields(p):
    xs = list(p.get("xs", []))
    for m in p.get("models", []) or []:
        if "x" in m:
            try:
                xs.append(_num(m["x"]))
            except ValueError:
                pass
    searched = False
    if not p.get("xs"):
        searched = True
        rnd = random.Random(1)
        xs += EDGE_X + [float('nan')]
        xs += [rnd.randint(-89, 359) + rnd.randint(0, 59) / 60.0 + (60 - 10 ** rnd.uniform(-9, -2)) / 3600.0
               for _ in range(20000)]
        xs += [rnd.uniform(-90, 360) for _ in range(20000)]
    bad = []
    for x in xs:
        fl = fields_failure(x)
        if fl:
            bad.append({"x": x, "what": fl[:3]})
            if len(bad) >= 3:
                break
    return {"fails": bool(bad), "observed": bad, "searched": searched,
            "replay_func": "replay_fields", "replay_payload": {"xs": [b["x"] for b in bad]}}


def replay_sphere(p):
    bad = []
    pairs = list(p.get("pairs", []))
    trs = list(p.get("translations", []))
    for m in p.get("models", []) or []:
        try:
            pairs.append([_num(m["ra1"]), _num(m["dec1"]), _num(m["ra2"]), _num(m["dec2"])])
        except (KeyError, ValueError):
            pass
        try:
            trs.append([_num(m["ra"]), _num(m["dec"]), _num(m["r"]), _num(m["theta"])])
        except (KeyError, ValueError):
            pass
    if not p.get("pairs") and not p.get("translations"):
        rnd = random.Random(2)
        for _ in range(4000):
            ra1, d1 = rnd.uniform(0, 360), rnd.uniform(-90, 90)
            pairs.append([ra1, d1, rnd.uniform(0, 360), rnd.uniform(-90, 90)])
            pairs.append([ra1, d1, (ra1 + rnd.gauss(0, 1e-3)) % 360, max(-90, min(90, d1 + rnd.gauss(0, 1e-3)))])
            trs.append([ra1, max(-89, min(89, d1)), rnd.uniform(0, 179), rnd.uniform(0, 360)])
    for q in pairs:
        if abs(q[1]) <= 90 and abs(q[3]) <= 90:
            fl = [f for f in sphere_failure(*q) if 'near_antipodal' not in f[0]]
            if fl:
                bad.append({"pair": q, "what": fl[:3]})
    for t in trs:
        fl = translate_failure(*t)
        if fl:
            bad.append({"translation": t, "what": fl[:3]})
    bad = bad[:3]
    return {"fails": bool(bad), "observed": bad, "replay_func": "replay_sphere",
            "replay_payload": {"pairs": [b["pair"] for b in bad if "pair" in b],
                               "translations": [b["translation"] for b in bad if "translation" in b]}}
