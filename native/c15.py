"""C15 native replay / cross-check: real fits_tools.compress / expand."""
import random

import numpy as np
from astropy.io import fits

from AegeanTools import fits_tools


def mk(cx, cy, cd=False, kind="random", seed=0, cross=False):
    rng = np.random.default_rng(seed)
    if kind == "bilinear":
        r, c = np.mgrid[0:cx, 0:cy]
        data = (2.0 + 0.5 * r - 0.25 * c + 0.125 * r * c).astype(np.float32)
    else:
        data = rng.normal(size=(cx, cy)).astype(np.float32)
    hdu = fits.PrimaryHDU(data)
    h = hdu.header
    h['CRPIX1'], h['CRPIX2'] = 3.5, -2.25
    h['CRVAL1'], h['CRVAL2'] = 10.0, -30.0
    h['CTYPE1'], h['CTYPE2'] = 'RA---SIN', 'DEC--SIN'
    if cd:
        h['CD1_1'], h['CD2_2'] = -0.01, 0.02
        if cross:
            h['CD1_2'], h['CD2_1'] = 0.00342, -0.00271
    if not cd or cd == 'both':       # a header may carry both conventions
        h['CDELT1'], h['CDELT2'] = -0.01, 0.02
    return fits.HDUList([hdu]), data


def case_failures(cx, cy, f, cd=False, kind="random", seed=0):
    out = []
    hl, data = mk(cx, cy, cd, kind, seed, cross=(cd and seed % 2 == 0))
    h0 = hl[0].header.copy()
    try:
        c = fits_tools.compress(hl, f)
    except Exception as e:
        return [("compress.no_exception", "compress raised %r" % (e,))]
    if c is None:
        return [("compress.no_exception", "compress returned None")]
    nx, ny = -(-cx // f), -(-cy // f)
    cdat = np.array(c[0].data)
    if cdat.shape != (nx + 1, ny + 1):
        out.append(("compress.shape", "compressed shape %s, expected %s" % (cdat.shape, (nx + 1, ny + 1))))
    else:
        rows = [min(k * f, cx - 1) if k < nx else cx - 1 for k in range(nx + 1)]
        cols = [min(l * f, cy - 1) if l < ny else cy - 1 for l in range(ny + 1)]
        if not np.array_equal(cdat, data[np.ix_(rows, cols)]):
            out.append(("compress.node_rows", "stored samples are not the decimation rows/cols"))
    ch = c[0].header
    if ch.get('BN_CFAC') != f or ch.get('BN_NPX1') != cy or ch.get('BN_NPX2') != cx:
        out.append(("compress.header.bn_values", "BN keys %r" % ([ch.get(k) for k in ('BN_CFAC', 'BN_NPX1', 'BN_NPX2')],)))
    try:
        e = fits_tools.expand(c)
    except Exception as ex:
        out.append(("expand.succeeds_on_compressed_file", "expand raised %r" % (ex,)))
        return out
    if e is None:
        out.append(("expand.succeeds_on_compressed_file", "expand returned None"))
        return out
    ed = np.array(e[0].data)
    eh = e[0].header
    if ed.shape != (cx, cy):
        out.append(("expand.shape", "expanded shape %s, expected %s" % (ed.shape, (cx, cy))))
        return out
    for k in ('CD1_2', 'CD2_1'):
        if (k in h0) != (k in eh) or (k in h0 and abs(eh[k] - h0[k]) > 1e-9 * max(1, abs(h0[k]))):
            out.append(("expand.header_inverse.cd_cross_terms", "%s: %r -> %r" % (k, h0.get(k), eh.get(k))))
    for k in ('CRPIX1', 'CRPIX2', 'CDELT1', 'CDELT2', 'CD1_1', 'CD2_2'):
        if (k in h0) != (k in eh) or (k in h0 and abs(eh[k] - h0[k]) > 1e-9 * max(1, abs(h0[k]))):
            out.append(("expand.header_inverse.crpix" if 'CRPIX' in k else "expand.header_inverse.scale_cards",
                        "%s: %r -> %r" % (k, h0.get(k), eh.get(k))))
    if any(k in eh for k in ('BN_CFAC', 'BN_NPX1', 'BN_NPX2', 'BN_RPX1', 'BN_RPX2')):
        out.append(("expand.bn_keys_removed", "BN_* keys left in the expanded header"))
    nodes_r = [k * f for k in range(nx) if k * f < cx]
    nodes_c = [l * f for l in range(ny) if l * f < cy]
    if not np.array_equal(ed[np.ix_(nodes_r, nodes_c)], data[np.ix_(nodes_r, nodes_c)]):
        out.append(("expand.node_coordinates_true", "values at decimation nodes not reproduced"))
    if ed.min() < cdat.min() - 1e-6 or ed.max() > cdat.max() + 1e-6 or not np.all(np.isfinite(ed)):
        out.append(("expand.interpolates_stored_samples", "expanded values outside the range of stored samples"))
    if kind == "bilinear":
        rmax = (nx - 1) * f if nx >= 1 else 0
        cmax = (ny - 1) * f if ny >= 1 else 0
        sub_e, sub_d = ed[:rmax + 1, :cmax + 1], data[:rmax + 1, :cmax + 1]
        # bilinear within each cell only if the function is bilinear per cell: r*c term is; compare
        if sub_e.size and not np.allclose(sub_e, sub_d, rtol=2e-5, atol=2e-4):
            out.append(("expand.node_coordinates_true", "bilinear image not reproduced on complete cells (max err %g)"
                        % float(np.abs(sub_e - sub_d).max())))
    return out


def crosscheck(p):
    rnd = random.Random(p.get("seed", 0))
    thorough = p.get("tier") == "thorough"
    cases = []
    for cx in range(2, 14 if not thorough else 30):
        for f in list(range(1, 9)) + [16, 64]:
            cases.append((cx, rnd.randint(2, 20), f))
    for _ in range(60 if not thorough else 1500):
        cases.append((rnd.randint(2, 90), rnd.randint(2, 90), rnd.randint(1, 64)))
    failures, seen, evals = [], set(), 0
    for i, (cx, cy, f) in enumerate(cases):
        for kind in ("random", "bilinear"):
            evals += 1
            for lab, what in case_failures(cx, cy, f, cd=(True if i % 3 == 0 else ('both' if i % 7 == 1 else False)), kind=kind, seed=i):
                if lab not in seen:
                    seen.add(lab)
                    failures.append({"label": lab, "input": {"shape": [cx, cy], "factor": f, "kind": kind}, "what": what,
                                     "replay_func": "replay_roundtrip",
                                     "replay_payload": {"cases": [[cx, cy, f, i % 3 == 0, kind, i]]}})
    for bad in (0, -2, 2.0):
        evals += 1
        hl, _ = mk(5, 5)
        try:
            r = fits_tools.compress(hl, bad)
        except Exception as e:
            r = e
        if r is not None:
            failures.append({"label": "compress.invalid_factor_returns_none", "input": {"factor": repr(bad)},
                             "what": repr(r), "replay_func": "replay_roundtrip", "replay_payload": {"bad_factors": [repr(bad)]}})
    hl, data = mk(6, 7)
    r = fits_tools.expand(hl)
    evals += 1
    if r is not hl or not np.array_equal(r[0].data, data):
        failures.append({"label": "expand.uncompressed_returned_unchanged", "input": {}, "what": "changed",
                         "replay_func": "replay_roundtrip", "replay_payload": {}})
    return {"evaluations": evals, "failures": failures,
            "rule": "real compress/expand on %d (shape, factor) cases x {random, bilinear} images, CDELT and CD headers" % len(cases)}


def _ints(m, names):
    try:
        return [int(str(m[n])) for n in names]
    except (KeyError, ValueError):
        return None


def replay_roundtrip(p):
    cases = [tuple(c) for c in p.get("cases", [])]
    for m in p.get("models", []) or []:
        v = _ints(m, ('cx', 'cy', 'f'))
        if v and 2 <= v[0] <= 3000 and 2 <= v[1] <= 3000 and 1 <= v[2] <= 4096:
            cases.append((v[0], v[1], v[2], False, "random", 0))
            cases.append((v[0], v[1], v[2], True, "bilinear", 0))
    if not p.get("cases"):
        rnd = random.Random(3)
        for cx in range(2, 12):
            for f in range(1, 8):
                cases.append((cx, rnd.randint(2, 12), f, f % 2 == 0, "bilinear" if cx % 2 else "random", cx))
    bad = []
    for c in cases:
        fl = case_failures(*c)
        if fl:
            bad.append({"case": list(c), "what": fl[:3]})
            if len(bad) >= 3:
                break
    return {"fails": bool(bad), "observed": bad, "replay_func": "replay_roundtrip",
            "replay_payload": {"cases": [b["case"] for b in bad]}}


def aux_failures(shape=(13, 30), factor=4, nbands=3):
    """compressed aux file through load_image_band: every band, repeated reads, and a path that is rewritten"""
    import os
    import shutil
    import tempfile
    out = []
    d = tempfile.mkdtemp(prefix="c15_")
    try:
        hl, data = mk(shape[0], shape[1], kind="bilinear")
        crpix2 = hl[0].header['CRPIX2']
        path = os.path.join(d, "aux.fits")
        fits_tools.compress(hl, factor, path)
        full = np.array(fits_tools.expand(path)[0].data)
        for rep in range(2):
            prev = 0
            for i in range(nbands):
                dat, hdr = fits_tools.load_image_band(path, band=(i, nbands))
                hi = prev + dat.shape[0]
                if dat.shape[1] != shape[1] or not np.allclose(dat, full[prev:hi], equal_nan=True):
                    out.append(("band.data_rows.compressed_uses_expanded_data",
                                "read %d band %d/%d: shape %s, expected rows %d:%d of %s" % (rep, i, nbands, dat.shape, prev, hi, full.shape)))
                if hdr['NAXIS2'] != dat.shape[0] or abs(hdr['CRPIX2'] - (crpix2 - prev)) > 1e-9:
                    out.append(("band.header_shift.crpix2", "read %d band %d/%d: NAXIS2=%s CRPIX2=%s, expected %s %s" % (
                        rep, i, nbands, hdr['NAXIS2'], hdr['CRPIX2'], dat.shape[0], crpix2 - prev)))
                prev = hi
            if prev != shape[0]:
                out.append(("band.last_ends_at_rows", "bands cover %d of %d rows" % (prev, shape[0])))
        # same path, different image: the loader must see the new file
        hl2, _ = mk(shape[0] + 5, shape[1] + 2, kind="random", seed=3)
        fits_tools.compress(hl2, factor, path)
        dat, hdr = fits_tools.load_image_band(path)
        if dat.shape != (shape[0] + 5, shape[1] + 2):
            out.append(("band.data_rows.compressed_uses_expanded_data",
                        "after rewriting the file the loader returned shape %s, expected %s" % (dat.shape, (shape[0] + 5, shape[1] + 2))))
    finally:
        shutil.rmtree(d, ignore_errors=True)
    return out


def crosscheck_aux(p):
    failures, seen, evals = [], set(), 0
    for shape, f, nb in (((13, 30), 4, 3), ((20, 9), 3, 2), ((7, 7), 8, 4)):
        evals += 1
        for lab, what in aux_failures(shape, f, nb):
            if lab not in seen:
                seen.add(lab)
                failures.append({"label": lab, "input": {"shape": shape, "factor": f, "bands": nb}, "what": what,
                                 "replay_func": "replay_aux", "replay_payload": {"cases": [[list(shape), f, nb]]}})
    return {"evaluations": evals, "failures": failures,
            "rule": "compressed aux files read through load_image_band: all bands, twice, and after the path is rewritten"}


def replay_aux(p):
    cases = p.get("cases") or [[[13, 30], 4, 3], [[20, 9], 3, 2]]
    bad = []
    for shape, f, nb in cases:
        fl = aux_failures(tuple(shape), f, nb)
        if fl:
            bad.append({"case": [shape, f, nb], "what": fl[:3]})
    return {"fails": bool(bad), "observed": bad, "replay_func": "replay_aux", "replay_payload": {"cases": [b["case"] for b in bad]}}
