"""entry point for native (CPython, repository venv) replay and cross-check
functions:  /venv/bin/python native/run.py <module> <func>   (payload on stdin, JSON on stdout)"""
import importlib
import json
import os
import sys
import traceback

sys.path.insert(0, os.path.dirname(os.path.abspath(__file__)))
sys.dont_write_bytecode = True


def main():
    modname, func = sys.argv[1], sys.argv[2]
    payload = json.loads(sys.stdin.read() or "{}")
    try:
        import warnings
        warnings.simplefilter("ignore")
        mod = importlib.import_module(modname)
        res = getattr(mod, func)(payload)
    except Exception:
        res = {"error": "exception in native function", "stderr": traceback.format_exc()[-3000:]}
    print(json.dumps(res, default=str))


if __name__ == "__main__":
    main()
