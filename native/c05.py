"""C05 native cross-check: real priorized fitting of noise-free model images of random catalogues."""
import logging
import os
import random
import shutil
import tempfile

import numpy as np
from astropy.io import fits

from AegeanTools import AeRes, flags
from AegeanTools.models import ComponentSource
from AegeanTools.source_finder import SourceFinder
from AegeanTools.wcs_helpers import WCSHelper

log = logging.getLogger("c05")
log.addHandler(logging.NullHandler())
log.propagate = False
ALLFLAGS = 0x7F


def header(rnd, shape, crval=None):
    h = fits.Header()
    h['NAXIS'], h['NAXIS1'], h['NAXIS2'] = 2, shape[1], shape[0]
    h['CTYPE1'], h['CTYPE2'] = 'RA---SIN', 'DEC--SIN'
    h['CRVAL1'], h['CRVAL2'] = crval if crval else (rnd.uniform(5, 355), rnd.uniform(-50, 50))
    s = 10 / 3600
    h['CDELT1'], h['CDELT2'] = -s, s
    h['CRPIX1'], h['CRPIX2'] = shape[1] / 2.0, shape[0] / 2.0
    h['BMAJ'], h['BMIN'], h['BPA'] = 5 * s, 4 * s, rnd.choice([0.0, 20.0])
    return h, s


def mk_source(rnd, helper, r, c, scale, k, size=None):
    s = ComponentSource()
    s.ra, s.dec = [float(v) for v in helper.pix2sky([r + 1, c + 1])]
    f = size if size is not None else rnd.uniform(1.0, 2.2)
    s.a, s.b = 5 * scale * 3600 * f, 4 * scale * 3600 * rnd.uniform(1.0, min(f, 1.25) if f >= 1 else 1.0)
    if s.b > s.a:
        s.a, s.b = s.b, s.a
    s.pa = rnd.uniform(-80, 80)
    s.peak_flux = rnd.uniform(0.5, 5)
    s.local_rms = 0.01
    s.island, s.source = k, 0
    s.err_ra, s.err_dec, s.err_a, s.err_b, s.err_pa = [0.001 * (k + 1) + j * 1e-5 for j in range(5)]
    s.flags = 0
    s.psf_a, s.psf_b, s.psf_pa = 5 * scale * 3600, 4 * scale * 3600, 0.0
    return s


class _Watchdog(Exception):
    pass


def run_case(seed, stage=None, extra=None, limit=120):
    """run_case_inner under an alarm: a priorized fit that does not come back is a failure, not a hang"""
    import signal

    def onalarm(signum, frame):
        raise _Watchdog()
    old = signal.signal(signal.SIGALRM, onalarm)
    signal.alarm(limit)
    try:
        return run_case_inner(seed, stage, extra)
    except _Watchdog:
        return [("priorized_fit_completes", "priorized_fit_islands did not finish within %d s" % limit)], {"stage": stage, "extra": extra}
    finally:
        signal.alarm(0)
        signal.signal(signal.SIGALRM, old)


def run_case_inner(seed, stage=None, extra=None):
    """returns (failures, info)"""
    rnd = random.Random(seed)
    shape = (rnd.randint(90, 120), rnd.randint(90, 130))
    h, scale = header(rnd, shape)
    helper = WCSHelper.from_header(h)
    n = rnd.randint(1, 5)
    # well separated sources on a jittered grid (separate islands)
    cells = [(r, c) for r in (22, 60) for c in (22, 60, 95) if r < shape[0] - 20 and c < shape[1] - 20]
    rnd.shuffle(cells)
    srcs = []
    for k, (r, c) in enumerate(cells[:n]):
        srcs.append(mk_source(rnd, helper, r + rnd.uniform(-0.5, 0.5), c + rnd.uniform(-0.5, 0.5), scale, k))
    stage = stage or rnd.choice([1, 2, 3])
    kind_pre = extra if extra is not None else None
    kind = extra if extra is not None else rnd.choice([None, 'edge', 'off', 'nan', 'nopsf', 'edge', 'mixed', 'firstrow', 'nested'])
    if kind == 'edge':       # cut-out truncated at the lower / left / upper image edges
        srcs.append(mk_source(rnd, helper, rnd.uniform(2.0, 5.0), rnd.uniform(2.0, 5.0), scale, 80, size=1.3))
        srcs.append(mk_source(rnd, helper, shape[0] - rnd.uniform(3.0, 6.0), rnd.uniform(40, 50), scale, 81, size=1.2))
    if kind == 'firstrow':   # peak on the first row / first column of the image (pixel coordinate in [-0.5, 0.5))
        srcs.append(mk_source(rnd, helper, rnd.uniform(-0.4, 0.4), rnd.uniform(38, 44), scale, 82, size=1.2))
        srcs.append(mk_source(rnd, helper, rnd.uniform(38, 44), rnd.uniform(-0.4, 0.4), scale, 83, size=1.2))
    if kind == 'nested':     # a compact source inside the square cut-out of a large elongated neighbour, fitted as separate groups
        big = mk_source(rnd, helper, 40.0, 40.0, scale, 84, size=4.0)
        big.b, big.pa = 4 * scale * 3600, 0.0
        w = int(round(4 * (big.a / 3600 / scale) / 2.3548)) + 1
        small = mk_source(rnd, helper, 40.0 + 0.35 * w, 40.0 + 0.35 * w, scale, 85, size=1.0)
        srcs = [big, small]
    img = AeRes.make_model(srcs, shape, helper)
    cat = list(srcs)
    data = img.astype(np.float64)
    if kind == 'off':
        o = mk_source(rnd, helper, -30.0, 40.0, scale, 90)
        o2 = mk_source(rnd, helper, shape[0] + 25.0, 40.0, scale, 91)
        cat = [o] + cat + [o2]
    elif kind == 'nan':
        o = mk_source(rnd, helper, shape[0] - 6.0, shape[1] - 6.0, scale, 92)
        data[shape[0] - 12:, shape[1] - 12:] = np.nan
        cat = cat + [o]
    elif kind == 'mixed':    # an island whose first member is off the image: the accepted members are a sub-sequence
        o = mk_source(rnd, helper, -30.0, 40.0, scale, 93)
        o.island, o.source = srcs[0].island, 0
        srcs[0].source = 1
        cat = [o] + cat
    elif kind == 'nopsf':
        for s in cat:
            s.psf_a = s.psf_b = s.psf_pa = np.nan      # what a table without psf columns loads as
    tmp = tempfile.mkdtemp(prefix="c05_")
    out = []
    try:
        path = os.path.join(tmp, "im.fits")
        fits.PrimaryHDU(data.astype(np.float32), header=h).writeto(path)
        sf = SourceFinder(log=log)
        regroup = rnd.random() < 0.5 and kind not in ('mixed', 'nested')
        if kind not in ('mixed', 'nested'):
            rnd.shuffle(cat)
        try:
            rows = sf.priorized_fit_islands(path, catalogue=cat, rms=0.01, bkg=0.0, cores=1, stage=stage,
                                            doregroup=regroup, ratio=rnd.choice([None, 1]))
        except Exception as e:
            return [("handled_without_error", "priorized_fit_islands raised %r (%s sources, extra=%s)" % (e, len(cat), kind))], {}
    finally:
        shutil.rmtree(tmp, ignore_errors=True)
    by = {}
    for r in rows:
        by.setdefault(r.uuid, []).append(r)
    ids = {s.uuid for s in cat}
    for u, lst in by.items():
        if u not in ids:
            out.append(("uuid_of_the_kth_accepted_source", "returned component carries uuid %s that is not in the catalogue" % u))
        if len(lst) > 1:
            out.append(("accepted_source_is_component_i", "%d components returned for one input source" % len(lst)))
    for s in srcs:
        if s.uuid not in by:
            out.append(("accepted_only_when_on_a_usable_pixel", "an on-image source was dropped (stage %d, extra=%s)" % (stage, kind)))
            continue
        r = by[s.uuid][0]
        px_in = helper.sky2pix([s.ra, s.dec])
        px_out = helper.sky2pix([r.ra, r.dec])
        dpix = float(np.hypot(px_in[0] - px_out[0], px_in[1] - px_out[1]))
        if not int(r.flags) & flags.PRIORIZED or int(r.flags) & ~ALLFLAGS:
            out.append(("flags_gain_PRIORIZED_and_FIXED2PSF_below_stage_2_nothing_else", "flags=%s" % r.flags))
        if not np.isfinite(r.peak_flux) or int(r.flags) & flags.NOTFIT:
            out.append(("component_is_switched_off_exactly_when_its_box_holds_no_data",
                        "stage %d: a source whose peak lies on a valid pixel came back unfitted (peak %r, flags %s, extra=%s)" % (
                            stage, r.peak_flux, r.flags, kind)))
            continue
        if abs(r.peak_flux / s.peak_flux - 1) > 1e-3:
            out.append(("flux_of_noise_free_model_recovered",
                        "stage %d: peak %.5f returned for catalogue peak %.5f (a=%.1f\", cut-out width %d, position moved %.3f pix)" % (
                            stage, r.peak_flux, s.peak_flux, s.a, int(round(4 * s.a / 3600 / scale / 2.3548)) + 1, dpix)))
        if dpix > 0.01:
            out.append(("position_is_sky2pix_minus_one_free_iff_stage_ge_2" if stage < 2 else "position_of_noise_free_model_recovered",
                        "stage %d: position returned %.3f pixel from the catalogue position (a=%.1f\")" % (stage, dpix, s.a)))
        if abs(r.a / s.a - 1) > 1e-3 or abs(r.b / s.b - 1) > 1e-3 or (abs(((r.pa - s.pa + 90) % 180) - 90) > 0.1 and s.a / s.b > 1.05):
            out.append(("shape_is_catalogue_ellipse_in_sigma_free_iff_stage_ge_3" if stage < 3 else "shape_of_noise_free_model_recovered",
                        "stage %d: shape (%.3f, %.3f, %.2f) returned for catalogue (%.3f, %.3f, %.2f)" % (stage, r.a, r.b, r.pa, s.a, s.b, s.pa)))
        if stage < 2 and (r.err_ra != s.err_ra or r.err_dec != s.err_dec):
            out.append(("position_errors_are_the_catalogues_below_stage_2", "err_ra %r -> %r" % (s.err_ra, r.err_ra)))
        if stage < 3 and (r.err_a != s.err_a or r.err_b != s.err_b or r.err_pa != s.err_pa):
            out.append(("shape_errors_are_the_catalogues_below_stage_3", "err_a %r -> %r" % (s.err_a, r.err_a)))
    seen, uniq = set(), []
    for lab, what in out:
        if lab not in seen:
            seen.add(lab)
            uniq.append((lab, what))
    return uniq, {"stage": stage, "extra": kind, "n": len(cat)}


def small_source_case(seed):
    """a catalogue source narrower than 0.8 x the beam's minor axis, shape not fitted (stage 1/2)"""
    rnd = random.Random(seed)
    shape = (80, 80)
    h, scale = header(rnd, shape)
    helper = WCSHelper.from_header(h)
    s = mk_source(rnd, helper, 40.2, 39.7, scale, 0)
    s.a, s.b, s.pa = 5 * scale * 3600 * 1.5, 4 * scale * 3600 * 0.6, 0.0
    img = AeRes.make_model([s], shape, helper)
    tmp = tempfile.mkdtemp(prefix="c05_")
    try:
        path = os.path.join(tmp, "im.fits")
        fits.PrimaryHDU(img.astype(np.float32), header=h).writeto(path)
        rows = SourceFinder(log=log).priorized_fit_islands(path, catalogue=[s], rms=0.01, bkg=0.0, cores=1, stage=rnd.choice([1, 2]),
                                                           doregroup=False)
    finally:
        shutil.rmtree(tmp, ignore_errors=True)
    if rows and (abs(rows[0].b / s.b - 1) > 1e-3 or abs(rows[0].a / s.a - 1) > 1e-3):
        return [("shape_bounds_contain_the_catalogue_shape", "shape not fitted, yet (a, b) = (%.2f, %.2f) returned for catalogue (%.2f, %.2f); beam minor %.2f" % (
            rows[0].a, rows[0].b, s.a, s.b, 4 * scale * 3600))]
    return []


class _FakePSF:
    psf_file = None

    def __init__(self, vary):
        self.vary = vary

    def get_skybeam(self, ra, dec):
        from AegeanTools.wcs_helpers import Beam
        f = 1 + (0.2 * np.sin(np.radians(3 * dec + ra)) if self.vary else 0)
        return Beam(0.02 * f, 0.015 * f, 10.0)

    def get_psf_sky2sky(self, ra, dec):
        f = 1 + (0.1 * np.cos(np.radians(2 * dec - ra)) if self.vary else 0)
        return (0.012 * f, 0.01 * f, 0.0)


def resize_case(seed):
    from AegeanTools import cluster
    rnd = random.Random(seed)
    helper = _FakePSF(vary=rnd.random() < 0.8)
    cols = rnd.random() < 0.5
    cat, want = [], []
    for k in range(rnd.randint(1, 6)):
        s = ComponentSource()
        s.island, s.source = k, 0
        s.ra, s.dec = rnd.uniform(0, 360), rnd.uniform(-80, 80)
        s.a, s.b, s.pa = rnd.uniform(40, 200), rnd.uniform(30, 40), rnd.uniform(-90, 90)
        if cols:
            s.psf_a, s.psf_b, s.psf_pa = rnd.uniform(35, 60), rnd.uniform(25, 35), 0.0
            ca, cb = s.psf_a / 3600, s.psf_b / 3600
        else:
            ca, cb, _ = helper.get_psf_sky2sky(s.ra, s.dec)
        im = helper.get_skybeam(s.ra, s.dec)
        ex = []
        for v, cbm, ibm in ((s.a, ca, im.a), (s.b, cb, im.b)):
            t = (v / 3600) ** 2 - cbm ** 2 + ibm ** 2
            ex.append(ibm * 3600 if t < 0 else np.sqrt(t) * 3600)
        cat.append(s)
        want.append((s.uuid, ex))
    out = cluster.resize(cat, ratio=None, psfhelper=helper)
    got = {s.uuid: (s.a, s.b) for s in out}
    for u, ex in want:
        if u not in got:
            return [("only_this_source_is_dropped", "a source with a known psf was dropped by resize")]
        if not np.allclose(got[u], ex, rtol=1e-9):
            return [("a_is_deconvolved_from_its_own_catalogue_beam_and_convolved_with_the_local_image_beam",
                     "resize gave (a, b) = %s, the source's own beams give %s (psf columns: %s)" % (got[u], tuple(ex), cols))]
    return []


def itergen_case(seed):
    """models.island_itergen (the grouping used with regroup off): every source in exactly one group, one island number
    per group, groups in increasing island order -- whatever the row order, gaps and multiplicities of the island numbers"""
    from AegeanTools.models import island_itergen
    rnd = random.Random(seed)
    n_isl = rnd.randint(1, 7)
    start = rnd.choice([0, 0, 1, 5, -3])
    nums, cur = [], start
    for _ in range(n_isl):
        nums.append(cur)
        cur += rnd.choice([1, 1, 1, 2, 4])
    cat = []
    for isl in nums:
        for k in range(rnd.choice([1, 1, 2, 3, 5])):
            s = ComponentSource()
            s.island, s.source = isl, k
            s.ra, s.dec = rnd.uniform(0, 360), rnd.uniform(-80, 80)
            cat.append(s)
    rnd.shuffle(cat)
    given = list(cat)
    import signal

    def _alarm(*a):
        raise TimeoutError()
    old = signal.signal(signal.SIGALRM, _alarm)
    signal.alarm(10)
    try:
        groups = list(island_itergen(cat))
    except TimeoutError:
        return [("itergen.terminates", "island_itergen did not finish in 10 s on islands %s in row order %s" % (nums, [s.island for s in given]))]
    finally:
        signal.alarm(0)
        signal.signal(signal.SIGALRM, old)
    flat = [s for g in groups for s in g]
    if sorted(id(s) for s in flat) != sorted(id(s) for s in given):
        return [("itergen.every_source_in_exactly_one_group", "%d sources in, %d out (islands %s)" % (len(given), len(flat), nums))]
    if any(len(set(s.island for s in g)) != 1 for g in groups) or len(groups) != len(nums):
        return [("itergen.one_island_per_group", "islands %s grouped as %s" % (nums, [[s.island for s in g] for g in groups]))]
    if [g[0].island for g in groups] != sorted(nums) or any([s.source for s in g] != sorted(s.source for s in g) for g in groups):
        return [("itergen.groups_in_increasing_island_order", "islands %s come out as %s" % (nums, [[(s.island, s.source) for s in g] for g in groups]))]
    if len(given) != len(cat) or any(a is not b for a, b in zip(given, cat)):
        return [("itergen.callers_list_is_not_modified", "the caller's catalogue list was changed")]
    return []


def _small_with_alarm(seed, limit=120):
    import signal

    def onalarm(signum, frame):
        raise _Watchdog()
    old = signal.signal(signal.SIGALRM, onalarm)
    signal.alarm(limit)
    try:
        return small_source_case(seed)
    except _Watchdog:
        return [("priorized_fit_completes", "priorized_fit_islands did not finish within %d s" % limit)]
    finally:
        signal.alarm(0)
        signal.signal(signal.SIGALRM, old)


def crosscheck(p):
    thorough = p.get("tier") == "thorough"
    s0 = p.get("seed", 0) * 6007
    failures, seen, evals = [], set(), 0
    for i in range(2000 if thorough else 300):
        if "itergen.terminates" in seen:
            break
        evals += 1
        try:
            fl = itergen_case(s0 + i)
        except Exception as e:
            fl = [("itergen.no_exception", "island_itergen raised %r" % (e,))]
        for lab, what in fl:
            if lab not in seen:
                seen.add(lab)
                failures.append({"label": lab, "input": {"itergen_seed": s0 + i}, "what": what, "replay_func": "replay_priorized",
                                 "replay_payload": {"itergen": [s0 + i]}})
    for i in range(150 if thorough else 18):
        if "priorized_fit_completes" in seen:
            break
        evals += 1
        try:
            fl, info = run_case(s0 + i, stage=1 + i % 3)
        except Exception as e:
            fl, info = [("harness_error", repr(e))], {}
        for lab, what in fl:
            if lab not in seen:
                seen.add(lab)
                failures.append({"label": lab, "input": {"seed": s0 + i, "stage": 1 + i % 3, **info}, "what": what,
                                 "replay_func": "replay_priorized", "replay_payload": {"cases": [[s0 + i, 1 + i % 3]]}})
    # every special configuration at least once per run, whatever the random draw above picked
    for j, kind in enumerate(('firstrow', 'nested', 'edge', 'mixed', 'off', 'nan', 'nopsf')):
        for stage in ((1, 2, 3) if thorough else (1 + (j + p.get("seed", 0)) % 3,)):
            if "priorized_fit_completes" in seen:
                break
            evals += 1
            try:
                fl, info = run_case(s0 + 500 + j, stage=stage, extra=kind)
            except Exception as e:
                fl, info = [("harness_error", repr(e))], {}
            for lab, what in fl:
                if lab not in seen:
                    seen.add(lab)
                    failures.append({"label": lab, "input": {"seed": s0 + 500 + j, "stage": stage, "extra": kind}, "what": what,
                                     "replay_func": "replay_priorized", "replay_payload": {"cases": [[s0 + 500 + j, stage, kind]]}})
    for i in range(2):
        if "priorized_fit_completes" in seen:
            break
        evals += 1
        for lab, what in _small_with_alarm(s0 + i):
            if lab not in seen:
                seen.add(lab)
                failures.append({"label": lab, "input": {"small_seed": s0 + i}, "what": what, "replay_func": "replay_priorized",
                                 "replay_payload": {"small": [s0 + i]}})
    for i in range(400 if thorough else 60):
        evals += 1
        try:
            fl = resize_case(s0 + i)
        except Exception as e:
            fl = [("resize.no_exception", "resize raised %r" % (e,))]
        for lab, what in fl:
            if lab not in seen:
                seen.add(lab)
                failures.append({"label": lab, "input": {"resize_seed": s0 + i}, "what": what, "replay_func": "replay_priorized",
                                 "replay_payload": {"resize": [s0 + i]}})
    return {"evaluations": evals, "failures": failures,
            "rule": "models.island_itergen partitions shuffled catalogues by island number (gaps, negative start); cluster.resize against per-source beams of a position dependent psf; noise-free model images (AeRes.make_model) of random catalogues (sizes giving odd and even cut-out widths, "
                    "sub-pixel positions, shuffled rows, off-image / NaN-pixel sources, psf columns zero), stages 1-3, regroup on/off, "
                    "ratio None/1 (psf columns NaN = absent): one row per accepted uuid, PRIORIZED, flux 0.1 %, position 0.01 pix, shape 0.1 %, copied errors"}


def replay_priorized(p):
    bad = []
    explicit = 'cases' in p or 'small' in p or 'resize' in p or 'itergen' in p
    for sd in (p.get("itergen") or ([] if explicit else range(300))):
        try:
            fl = itergen_case(sd)
        except Exception as e:
            fl = [("itergen.no_exception", repr(e))]
        if fl:
            bad.append({"itergen": sd, "what": fl})
            break
    for sd in (p.get("resize") or ([] if explicit else range(60))):
        try:
            fl = resize_case(sd)
        except Exception as e:
            fl = [("resize.no_exception", repr(e))]
        if fl:
            bad.append({"resize": sd, "what": fl})
            break
    cases = p.get("cases") or ([] if explicit else [[i, 1 + i % 3] for i in range(18)])
    small = p.get("small") or ([] if explicit else [0])
    want = p.get("obligation", "")
    if not explicit and ('notfit' in want or 'cutout.is_a_copy' in want):
        cases = [[500 + j, st_, kind] for j, kind in enumerate(('firstrow', 'nested')) for st_ in (1, 2, 3)] + cases
    for case in cases:
        seed, stage = case[0], case[1]
        kind = case[2] if len(case) > 2 else None
        fl, info = run_case(seed, stage=stage, extra=kind)
        if fl:
            bad.append({"case": list(case), "what": fl})
            break
    if not bad or 'shape_bounds' in want:
        for sd in small:
            fl = _small_with_alarm(sd)
            if fl:
                bad.append({"small": sd, "what": fl})
                break
    return {"fails": bool(bad), "observed": bad, "replay_func": "replay_priorized",
            "replay_payload": {"cases": [b["case"] for b in bad if "case" in b], "small": [b["small"] for b in bad if "small" in b],
                               "resize": [b["resize"] for b in bad if "resize" in b],
                               "itergen": [b["itergen"] for b in bad if "itergen" in b]}}
