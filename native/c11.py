"""C11 native cross-check: region-restricted find_islands = unrestricted islands filtered by own-pixel membership."""
from c02 import crosscheck as _cc, case_failures, history_failures


def finder_region_failures(seed):
    """the public finder with a Region object as mask: the caller's region must come back covering the same sky, at its own
    resolution, and a second image elsewhere must still see it"""
    import os
    import random
    import shutil
    import tempfile
    import logging
    import numpy as np
    from astropy.io import fits
    from AegeanTools import fitting
    from AegeanTools.regions import Region
    from AegeanTools.source_finder import SourceFinder
    log = logging.getLogger("c11")
    log.addHandler(logging.NullHandler())
    log.propagate = False
    rnd = random.Random(seed)
    K = 1 / (2 * np.sqrt(2 * np.log(2)))
    tmp = tempfile.mkdtemp(prefix="c11_")
    out = []
    try:
        fields = [(rnd.uniform(20, 340), rnd.uniform(-50, 50))]
        fields.append(((fields[0][0] + 25.0) % 360, fields[0][1] + 5.0))
        region = Region(maxdepth=rnd.choice([12, 13, 14]))      # cells of 51, 26, 13 arcsec
        for ra, dec in fields:
            region.add_circles(np.radians(ra), np.radians(dec), np.radians(0.025))    # 9 pixels
        view0 = set(int(v) for v in region.get_demoted()) if seed % 2 else None
        pix0 = {d: set(int(x) for x in v) for d, v in region.pixeldict.items()}
        fresh = Region(maxdepth=region.maxdepth)
        for d_, px in pix0.items():
            if px:
                fresh.add_pixels(np.array(sorted(px)), d_)
        want_view = set(int(v) for v in fresh.get_demoted())
        for k, (ra, dec) in enumerate(fields):
            shape = (60, 60)
            h = fits.Header()
            h['NAXIS'], h['NAXIS1'], h['NAXIS2'] = 2, shape[1], shape[0]
            h['CTYPE1'], h['CTYPE2'], h['CRVAL1'], h['CRVAL2'] = 'RA---SIN', 'DEC--SIN', ra, dec
            h['CDELT1'], h['CDELT2'], h['CRPIX1'], h['CRPIX2'] = -10 / 3600, 10 / 3600, 30.0, 30.0
            h['BMAJ'], h['BMIN'], h['BPA'] = 50 / 3600, 40 / 3600, 0.0
            R_, C_ = np.mgrid[0:shape[0], 0:shape[1]]
            img = np.random.default_rng(seed + k).normal(scale=0.02, size=shape)
            # one source at the field centre (inside the region) and one 20 pixels away (outside)
            img += fitting.elliptical_gaussian(R_, C_, 2.0, 29.0, 29.0, 5 * K, 4 * K, 0.0)
            img += fitting.elliptical_gaussian(R_, C_, 2.0, 9.0, 47.0, 5 * K, 4 * K, 0.0)
            path = os.path.join(tmp, "f%d.fits" % k)
            fits.PrimaryHDU(img.astype(np.float32), header=h).writeto(path)
            rows = SourceFinder(log=log).find_sources_in_image(path, rms=0.02, bkg=0.0, cores=1, mask=region)
            if len(rows) != 1:
                out.append(("accepted_island_has_an_own_pixel_inside_region",
                            "field %d (of two masked with the same Region object): %d components, expected the one source inside the region" % (k, len(rows))))
                break
        got_view = set(int(v) for v in region.get_demoted())
        if got_view != want_view or region.maxdepth != fresh.maxdepth:
            out.append(("load_globals.the_callers_region_object_is_not_modified",
                        "the caller's region covers %d deepest-level pixels after the runs, %d before" % (len(got_view), len(want_view))))
    finally:
        shutil.rmtree(tmp, ignore_errors=True)
    return out[:2]


def crosscheck(p):
    r = _cc(p, with_region=True)
    for f in r["failures"]:
        f["replay_func"] = "replay_region"
    seen = set(f["label"] for f in r["failures"])
    for i in range(2 if p.get("tier") != "thorough" else 10):
        r["evaluations"] = r.get("evaluations", 0) + 1
        sd = p.get("seed", 0) * 101 + i
        try:
            fl = finder_region_failures(sd)
        except Exception as e:
            fl = [("finder_with_region_completes", repr(e))]
        for lab, what in fl:
            if lab not in seen:
                seen.add(lab)
                r["failures"].append({"label": lab, "input": {"finder_seed": sd}, "what": what, "replay_func": "replay_region",
                                      "replay_payload": {"finder": [sd]}})
    return r


def replay_region(p):
    cases = p.get("cases") or ([] if p.get("histories") else [[s, True] for s in range(400)])
    bad = []
    if p.get("finder"):
        for s in p["finder"]:
            fl = finder_region_failures(s)
            if fl:
                bad.append({"finder_seed": s, "what": fl})
        return {"fails": bool(bad), "observed": bad, "replay_func": "replay_region", "replay_payload": {"finder": p["finder"]}}
    for s in p.get("histories") or []:
        fl = history_failures(s)
        if fl:
            bad.append({"seed": s, "what": fl})
    for s, r in cases:
        fl = case_failures(s, True)
        if fl:
            bad.append({"seed": s, "what": fl})
            if len(bad) >= 2:
                break
    return {"fails": bool(bad), "observed": bad, "replay_func": "replay_region",
            "replay_payload": {"cases": [[b["seed"], True] for b in bad]}}
