"""C11 native cross-check: region-restricted find_islands = unrestricted islands filtered by own-pixel membership."""
from c02 import crosscheck as _cc, case_failures, history_failures


def crosscheck(p):
    r = _cc(p, with_region=True)
    for f in r["failures"]:
        f["replay_func"] = "replay_region"
    return r


def replay_region(p):
    cases = p.get("cases") or ([] if p.get("histories") else [[s, True] for s in range(400)])
    bad = []
    for s in p.get("histories") or []:
        fl = history_failures(s)
        if fl:
            bad.append({"seed": s, "what": fl})
    for s, r in cases:
        fl = case_failures(s, True)
        if fl:
            bad.append({"seed": s, "what": fl})
            if len(bad) >= 2:
                break
    return {"fails": bool(bad), "observed": bad, "replay_func": "replay_region",
            "replay_payload": {"cases": [[b["seed"], True] for b in bad]}}
