"""C12 native cross-check: real exports of regions reached through random histories."""
import os
import random
import re
import shutil
import tempfile

import healpy as hp
import numpy as np
from astropy.io import fits
from astropy.coordinates import Angle
import astropy.units as u

from AegeanTools.regions import Region
from c08 import rand_pixels, view


def build_region(rnd, D):
    r = Region(maxdepth=D)
    for _ in range(rnd.randint(0, 4)):
        k = rnd.random()
        if k < 0.4:
            d = rnd.randint(1, D)
            r.add_pixels(np.array(sorted(rand_pixels(rnd, d, rnd.randint(1, 5)))), d)
        elif k < 0.7:
            r.add_circles(rnd.uniform(0, 6.28), rnd.uniform(-1.3, 1.3), rnd.uniform(0.05, 0.5), depth=rnd.randint(1, D))
        elif k < 0.85:
            r.get_demoted()
        else:
            r._renorm()
    return r


def special_region(D, seed):
    """regions around places where sexagesimal formatting is delicate: just south of the equator, RA ~ 0h"""
    r = Region(maxdepth=D)
    if seed <= -3:
        # levels whose only stored pixel is nested pixel 0 (and a level holding pixels 0 and 5)
        r.add_pixels(np.array([0]), 1)
        if D >= 2:
            r.add_pixels(np.array([0 + 16 * 3]), 2) if seed == -4 else r.add_pixels(np.array([0, 5]) + 16 * 7, 2)
        if D >= 3 and seed == -4:
            r.add_pixels(np.array([0]) + 64 * 9, 3)
            r.pixeldict[2] = set([0])
            r.pixeldict[1] = set()
    elif seed == -1:
        r.add_circles(np.radians(10.0), np.radians(-0.3), np.radians(0.5))
    else:
        r.add_circles(np.radians(0.2), np.radians(-0.6), np.radians(0.4))
    return r


def export_failures(r, tmp):
    out = []
    D = r.maxdepth
    stored = sorted((d, int(p)) for d in range(1, D + 1) for p in r.pixeldict[d])
    before = {d: set(v) for d, v in r.pixeldict.items()}
    # MOC FITS
    f = os.path.join(tmp, "m.fits")
    try:
        r.write_fits(f)
        with fits.open(f) as hl:
            u_ = [int(x) for x in hl[1].data['NPIX']]
            order = hl[1].header['MOCORDER']
            ordering = hl[1].header['ORDERING'].strip()
        dec = []
        for x in u_:
            d = (int(np.log2(x // 4)) // 2)
            dec.append((d, x - 4 * 4 ** d))
        if sorted(dec) != stored:
            out.append(("uniq.covers_all_levels", "decoded MOC has %d pixels, region stores %d (first difference %r)" % (
                len(dec), len(stored), sorted(set(dec) ^ set(stored))[:3])))
        if order != D or ordering != 'NUNIQ':
            out.append(("write_fits.order_keyword_is_depth", "MOCORDER=%r ORDERING=%r for depth %d" % (order, ordering, D)))
        if u_ != sorted(u_):
            out.append(("uniq.sorted", "NUNIQ list not sorted"))
    except Exception as e:
        out.append(("write_fits.no_exception", "write_fits/readback raised %r" % (e,)))
    # DS9
    f = os.path.join(tmp, "m.reg")
    try:
        r.write_reg(f)
        lines = [l.strip() for l in open(f) if l.strip()]
        if len(lines) != len(stored):
            out.append(("write_reg.one_polygon_per_stored_pixel", "%d polygons for %d stored pixels" % (len(lines), len(stored))))
        else:
            want = []
            for d, p in stored:
                v = np.array(hp.boundaries(2 ** d, p, step=1, nest=True)).T
                th, ph = hp.vec2ang(v)
                want.append(sorted((round(float(np.degrees(a)) % 360, 3), round(90 - float(np.degrees(t)), 3)) for t, a in zip(th, ph)))
            got = []
            for l in lines:
                m = re.match(r"fk5; polygon\((.*)\)$", l)
                toks = m.group(1).split(',')
                pts = []
                for a, b in zip(toks[0::2], toks[1::2]):
                    pts.append((round(Angle(a, unit=u.hourangle).degree % 360, 3), round(Angle(b, unit=u.degree).degree, 3)))
                got.append(sorted(pts))

            def near(a, b):
                dra = abs(a[0] - b[0]) % 360
                dra = min(dra, 360 - dra)
                return dra < 0.02 / max(np.cos(np.radians(a[1])), 0.01) + 0.01 and abs(a[1] - b[1]) < 0.01

            def close(x, y):
                return all(any(near(a, b) for b in y) for a in x) and all(any(near(a, b) for a in x) for b in y)
            unmatched = [w for w in want if not any(close(w, g) for g in got)]
            if unmatched:
                out.append(("write_reg.line_is_polygon_of_the_pixels_corners", "%d stored pixels have no polygon with their corners" % len(unmatched)))
    except Exception as e:
        out.append(("write_reg.no_exception", "write_reg/readback raised %r" % (e,)))
    # mim
    f = os.path.join(tmp, "m.mim")
    try:
        r.save(f)
        r2 = Region.load(f)
        if r2.maxdepth != D or {d: set(v) for d, v in r2.pixeldict.items()} != before:
            out.append(("save_load.identity", "save/load changed the region"))
    except Exception as e:
        out.append(("save_load.identity", "save/load raised %r" % (e,)))
    if {d: set(v) for d, v in r.pixeldict.items()} != before:
        out.append(("export.region_unchanged", "an export modified the region"))
    return out


def crosscheck_exports(p):
    rnd = random.Random(p.get("seed", 0) + 17)
    n = 40 if p.get("tier") != "thorough" else 400
    tmp = tempfile.mkdtemp(prefix="c12_")
    failures, seen, evals = [], set(), 0
    try:
        cases = [(1, 0), (2, 1), (12, 2), (7, -1), (8, -2), (1, -3), (2, -3), (3, -4), (3, -3)] + [(rnd.randint(1, 6), 100 + i) for i in range(n)]
        for D, seed in cases:
            evals += 1
            r = special_region(D, seed) if seed < 0 else build_region(random.Random(seed), D)
            for lab, what in export_failures(r, tmp):
                if lab not in seen:
                    seen.add(lab)
                    failures.append({"label": lab, "input": {"depth": D, "seed": seed}, "what": what,
                                     "replay_func": "replay_exports", "replay_payload": {"cases": [[D, seed]]}})
    finally:
        shutil.rmtree(tmp, ignore_errors=True)
    return {"evaluations": evals, "failures": failures,
            "rule": "regions built by random histories (incl. queries that demote) at depth 1..6 and 12: MOC FITS decoded, "
                    "DS9 polygons compared with healpy.boundaries, .mim save/load"}


def replay_exports(p):
    cases = p.get("cases") or [(1, 0), (2, 1), (3, 5), (4, 7), (5, 9), (7, -1), (8, -2), (1, -3), (2, -3), (3, -4)] + [(random.Random(i).randint(1, 5), 200 + i) for i in range(60)]
    tmp = tempfile.mkdtemp(prefix="c12_")
    bad = []
    try:
        for D, seed in cases:
            fl = export_failures(special_region(D, seed) if seed < 0 else build_region(random.Random(seed), D), tmp)
            if fl:
                bad.append({"depth": D, "seed": seed, "what": fl[:3]})
                if len(bad) >= 3:
                    break
    finally:
        shutil.rmtree(tmp, ignore_errors=True)
    return {"fails": bool(bad), "observed": bad, "replay_func": "replay_exports",
            "replay_payload": {"cases": [[b["depth"], b["seed"]] for b in bad]}}
