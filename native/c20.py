"""C20 native replay / cross-check against the real AegeanTools.fits_tools.load_image_band."""
import os
import random
import shutil
import tempfile

import numpy as np
from astropy.io import fits

from AegeanTools import fits_tools
from AegeanTools.exceptions import AegeanError


class _FakeHDU:
    def __init__(self, header, shape):
        self.header = header
        self._shape = shape

    class _Sec:
        def __init__(self, outer):
            self.o = outer

        def __getitem__(self, key):
            return _Rec(key)

    @property
    def section(self):
        return _FakeHDU._Sec(self)


class _Rec:
    """records the index; supports *= for BSCALE"""

    def __init__(self, key):
        self.key = key
        self.scale = 1

    def __imul__(self, k):
        self.scale *= k
        return self


class _FakeFits:
    """stands in for astropy.io.fits inside fits_tools: header only, no pixels"""

    def __init__(self, header):
        self.header = header
        self.HDUList = fits.HDUList

    def getheader(self, filename, ext=0):
        return dict(self.header)

    def open(self, filename, **kw):
        outer = self

        class _Ctx:
            def __enter__(s):
                return [_FakeHDU(outer.header, None)]

            def __exit__(s, *a):
                return False
        return _Ctx()


def bounds_mocked(rows, n, i):
    """(lo, hi) used by the real load_image_band with fits I/O mocked"""
    real = fits_tools.fits
    fits_tools.fits = _FakeFits({'NAXIS': 2, 'NAXIS1': 3, 'NAXIS2': rows, 'CRPIX2': 1.0})
    try:
        data, hdr = fits_tools.load_image_band("x.fits", band=(i, n))
    finally:
        fits_tools.fits = real
    sl = data.key[0]
    return (sl.start or 0), sl.stop, hdr


def tiling_failure(rows, n):
    prev = 0
    for i in range(n):
        lo, hi, hdr = bounds_mocked(rows, n, i)
        if lo != prev:
            return {"rows": rows, "n": n, "i": i, "what": "band starts at %d, previous ended at %d" % (lo, prev)}
        if not (lo <= hi <= rows):
            return {"rows": rows, "n": n, "i": i, "what": "range [%d,%d) outside 0..%d" % (lo, hi, rows)}
        prev = hi
    if prev != rows:
        return {"rows": rows, "n": n, "i": n - 1, "what": "last band ends at %d, image has %d rows" % (prev, rows)}
    return None


def _mkfile(d, rows, cols=3, naxis=2, bscale=None, name="im.fits"):
    shape = {2: (rows, cols), 3: (2, rows, cols), 4: (1, 2, rows, cols)}[naxis]
    data = np.arange(int(np.prod(shape)), dtype=np.float32).reshape(shape)
    hdu = fits.PrimaryHDU(data)
    h = hdu.header
    h['CRPIX1'], h['CRPIX2'] = 2.0, 5.5
    h['CDELT1'], h['CDELT2'] = -0.01, 0.01
    h['CRVAL1'], h['CRVAL2'] = 30.0, -20.0
    h['CTYPE1'], h['CTYPE2'] = 'RA---SIN', 'DEC--SIN'
    path = os.path.join(d, name)
    hdu.writeto(path, overwrite=True)
    if bscale is not None:
        with fits.open(path, mode='update', do_not_scale_image_data=True) as f:
            f[0].header['BSCALE'] = bscale
    return path, data


def file_case_failures(rows, n, naxis=2, bscale=None, cube_index=0, compressed=False, factor=2):
    """real files: data rows, header shift, tiling, for all bands"""
    d = tempfile.mkdtemp(prefix="c20_")
    fails = []
    try:
        path, full = _mkfile(d, rows, cols=5, naxis=naxis, bscale=bscale)
        crpix2 = 5.5
        if compressed:
            cpath = os.path.join(d, "c.fits")
            fits_tools.compress(path, factor, cpath)
            exp = fits_tools.expand(cpath)[0].data
            plane, path = exp, cpath
        else:
            plane = full if naxis == 2 else (full[cube_index] if naxis == 3 else full[0, cube_index])
            if bscale is not None:
                plane = plane * bscale
        prev = 0
        for i in range(n):
            data, hdr = fits_tools.load_image_band(path, band=(i, n), cube_index=cube_index)
            lo = prev
            hi = lo + data.shape[0]
            if hdr['NAXIS2'] != data.shape[0]:
                fails.append("band %d: header NAXIS2=%s but %d rows returned" % (i, hdr['NAXIS2'], data.shape[0]))
            if abs(hdr['CRPIX2'] - (crpix2 - lo)) > 1e-9:
                fails.append("band %d: CRPIX2=%s expected %s (rows start at %d)" % (i, hdr['CRPIX2'], crpix2 - lo, lo))
            if data.shape[0] and not np.allclose(np.asarray(data, dtype=float), plane[lo:hi, :], equal_nan=True):
                fails.append("band %d: pixel values differ from image rows %d:%d" % (i, lo, hi))
            if data.shape[1:] != plane.shape[1:]:
                fails.append("band %d: columns %s" % (i, data.shape))
            prev = hi
        if prev != plane.shape[0]:
            fails.append("bands cover %d of %d rows" % (prev, plane.shape[0]))
    finally:
        shutil.rmtree(d, ignore_errors=True)
    return fails


def crosscheck(p):
    """executable contract on the real function: exhaustive small domain (mocked I/O) + real files"""
    rnd = random.Random(p.get("seed", 0))
    evals = 0
    failures = []
    maxrows = 96 if p.get("tier") != "thorough" else 400
    for rows in range(1, maxrows + 1):
        for n in range(1, 65):
            evals += n
            f = tiling_failure(rows, n)
            if f:
                failures.append({"label": "band.last_ends_at_rows", "input": f,
                                 "replay_func": "replay_tiling", "replay_payload": {"pairs": [[rows, n]]}})
                break
        if len(failures) > 3:
            break
    extra = [(rnd.randint(1, 20000), rnd.randint(1, 64)) for _ in range(300 if p.get("tier") != "thorough" else 5000)]
    for rows, n in extra:
        evals += n
        f = tiling_failure(rows, n)
        if f and len(failures) < 6:
            failures.append({"label": "band.last_ends_at_rows", "input": f,
                             "replay_func": "replay_tiling", "replay_payload": {"pairs": [[rows, n]]}})
    cases = [dict(rows=7, n=3), dict(rows=10, n=4, naxis=3, cube_index=1), dict(rows=9, n=2, naxis=4, cube_index=1),
             dict(rows=8, n=3, bscale=2.0), dict(rows=11, n=3, compressed=True, factor=2),
             dict(rows=12, n=5, compressed=True, factor=4)]
    for c in cases:
        evals += c['n']
        fl = file_case_failures(**c)
        if fl:
            lab = "band.header_shift.crpix2" if any("CRPIX2" in x or "NAXIS2" in x for x in fl) else "band.data_rows.plane"
            failures.append({"label": lab, "input": c, "what": fl[:4],
                             "replay_func": "replay_files", "replay_payload": {"cases": [c]}})
    # validation
    for band in [(0, 0), (1, 1), (-1, 2), (2, 2), (0, -1)]:
        evals += 1
        try:
            bounds_mocked(10, band[1], band[0])
            failures.append({"label": "validation.invalid_band_rejected", "input": {"band": band},
                             "replay_func": "replay_validation", "replay_payload": {"bands": [band]}})
        except AegeanError:
            pass
    return {"evaluations": evals, "failures": failures,
            "rule": "all (rows<=%d, n<=64, i<n) with mocked I/O + %d random (rows<=20000) + %d real FITS cases"
                    % (maxrows, len(extra), len(cases))}


def _pairs_from(p):
    pairs = [tuple(x) for x in p.get("pairs", [])]
    for m in p.get("models", []) or []:
        try:
            pairs.append((int(m["rows"]), int(m["n"])))
        except (KeyError, ValueError, TypeError):
            pass
    return pairs


def replay_tiling(p):
    """model values first; then a search over the property's domain (rows 1..20000, n 1..64)"""
    pairs = _pairs_from(p)
    for rows, n in pairs:
        if 1 <= n <= 4096 and 1 <= rows <= 10 ** 7:
            f = tiling_failure(rows, n)
            if f:
                real = file_case_failures(rows, n) if rows <= 50000 else ["(not re-run with a real file)"]
                return {"fails": True, "input": f, "real_file": real[:3],
                        "replay_func": "replay_tiling", "replay_payload": {"pairs": [[rows, n]]}}
    if p.get("pairs") and not p.get("models"):
        return {"fails": False, "tried": pairs}
    for n in range(1, 65):
        for rows in range(1, 20001, 1 if n > 40 else 7):
            f = tiling_failure(rows, n)
            if f:
                real = file_case_failures(rows, n)
                return {"fails": True, "input": f, "real_file": real[:3], "found_by": "native search",
                        "replay_func": "replay_tiling", "replay_payload": {"pairs": [[rows, n]]}}
    return {"fails": False, "tried": pairs, "searched": "rows<=20000 (stride 7 for n<=40), n<=64"}


def replay_files(p):
    out = []
    for c in p.get("cases", []):
        fl = file_case_failures(**c)
        if fl:
            out.append({"case": c, "what": fl[:4]})
    return {"fails": bool(out), "observed": out}


def replay_header(p):
    cases = [dict(rows=11, n=3, compressed=True, factor=2), dict(rows=7, n=3), dict(rows=8, n=3, bscale=2.0),
             dict(rows=10, n=4, naxis=3, cube_index=1)]
    r = replay_files({"cases": cases})
    r["replay_func"] = "replay_files"
    r["replay_payload"] = {"cases": [o["case"] for o in r["observed"]] or cases}
    return r


def replay_data(p):
    cases = [dict(rows=7, n=3), dict(rows=10, n=4, naxis=3, cube_index=1), dict(rows=9, n=2, naxis=4, cube_index=1),
             dict(rows=8, n=3, bscale=2.0), dict(rows=11, n=3, compressed=True, factor=2)]
    r = replay_files({"cases": cases})
    r["replay_func"] = "replay_files"
    r["replay_payload"] = {"cases": [o["case"] for o in r["observed"]] or cases}
    return r


def replay_validation(p):
    bands = [tuple(b) for b in p.get("bands", [])]
    for m in p.get("models", []) or []:
        try:
            bands.append((int(m["i"]), int(m["n"])))
        except (KeyError, ValueError, TypeError):
            pass
    bands += [(0, 0), (1, 1), (-1, 2), (2, 2), (0, -1)]
    bad = []
    for i, n in bands:
        invalid = n <= 0 or i >= n or i < 0
        try:
            bounds_mocked(10, n, i)
            raised = False
        except AegeanError:
            raised = True
        if raised != invalid:
            bad.append({"band": [i, n], "raised": raised, "invalid": invalid})
    return {"fails": bool(bad), "observed": bad, "replay_func": "replay_validation",
            "replay_payload": {"bands": [b["band"] for b in bad]}}
