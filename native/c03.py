"""C03 native cross-check: catalogues of real blind and priorized runs on synthetic images are internally consistent."""
import logging
import os
import random
import shutil
import tempfile

import numpy as np
from astropy.io import fits

from AegeanTools import fitting, flags
from AegeanTools.models import ComponentSource, IslandSource
from AegeanTools.source_finder import SourceFinder
from AegeanTools.wcs_helpers import WCSHelper

K = 1 / (2 * np.sqrt(2 * np.log(2)))
ALLFLAGS = 0x7F
ERRS = ('err_peak_flux', 'err_a', 'err_b', 'err_pa', 'err_ra', 'err_dec', 'err_int_flux')
log = logging.getLogger("c03")
log.addHandler(logging.NullHandler())
log.propagate = False


def mk_image(rnd, shape, positions, crval=None, beam_pix=(5.0, 4.0, 10.0), noise=0.02, amps=None, blank_cols=0, scale=None):
    h = fits.Header()
    h['NAXIS'], h['NAXIS1'], h['NAXIS2'] = 2, shape[1], shape[0]
    h['CTYPE1'], h['CTYPE2'] = 'RA---SIN', 'DEC--SIN'
    ra0, dec0 = crval if crval else (rnd.uniform(5, 355), rnd.uniform(-60, 60))
    h['CRVAL1'], h['CRVAL2'] = ra0, dec0
    s = scale or 10 / 3600
    h['CDELT1'], h['CDELT2'] = -s, s
    h['CRPIX1'], h['CRPIX2'] = shape[1] / 2.0, shape[0] / 2.0
    h['BMAJ'], h['BMIN'], h['BPA'] = beam_pix[0] * s, beam_pix[1] * s, beam_pix[2]
    R, C = np.mgrid[0:shape[0], 0:shape[1]]
    img = np.random.default_rng(rnd.randint(0, 2 ** 31)).normal(scale=noise, size=shape)
    for k, (r, c) in enumerate(positions):
        amp = amps[k] if amps else rnd.uniform(1, 5)
        img += fitting.elliptical_gaussian(R, C, amp, r, c, beam_pix[0] * K * rnd.uniform(1.0, 1.3), beam_pix[1] * K, beam_pix[2])
    img = img.astype(np.float32)
    if blank_cols:
        img[:, :blank_cols] = np.nan
    tmp = tempfile.mkdtemp(prefix="c03_")
    path = os.path.join(tmp, "im.fits")
    fits.PrimaryHDU(img, header=h).writeto(path)
    return path, noise, img


def parse_sex(s):
    sign = -1 if s.strip().startswith('-') else 1
    p = [float(v) for v in s.strip().lstrip('+-').split(':')]
    return sign * (p[0] + p[1] / 60 + p[2] / 3600)


def sex_fields_ok(sx, first_lt):
    p = [float(v) for v in sx.strip().lstrip('+-').split(':')]
    return len(p) == 3 and 0 <= p[0] < first_lt and 0 <= p[1] < 60 and 0 <= p[2] < 60


def strings_failures():
    """ra_str / dec_str of hand-made positions at the wrap and the poles, through the same formatters the finder uses"""
    from AegeanTools.angle_tools import dec2hms, dec2dms
    for ra in (0.0, 359.99998, 359.9999792, 359.99999, 359.9999999, 14.99999999, 180.0, 359.5):
        sx = dec2hms(ra)
        if not sex_fields_ok(sx, 24) or abs(((parse_sex(sx) * 15 - ra + 180) % 360) - 180) > 1e-5 * 15:
            return [("strings_are_sexagesimal_of_stored_decimals", "dec2hms(%r) = %s" % (ra, sx))]
    for dec in (-90.0, -89.9999999, -0.0000001, 0.0, 0.99999999, 45.0, 89.9999999, 90.0):
        sx = dec2dms(dec)
        if not sex_fields_ok(sx, 91) or abs(parse_sex(sx) - dec) > 1e-5:
            return [("strings_are_sexagesimal_of_stored_decimals", "dec2dms(%r) = %s" % (dec, sx))]
    return []


def row_failures(rows, psf_ok=True):
    """rows: list of ComponentSource / IslandSource"""
    out = []
    comps = [r for r in rows if isinstance(r, ComponentSource)]
    keys = [(r.island, r.source) for r in comps]
    if len(set(keys)) != len(keys):
        dup = sorted(k for k in set(keys) if keys.count(k) > 1)[:3]
        out.append(("island_numbers_injective", "duplicate (island, source) pairs %s among %d components" % (dup, len(keys))))
    by_island = {}
    for r in comps:
        by_island.setdefault(r.island, []).append(r.source)
    for isl, srcs in by_island.items():
        if sorted(srcs) != list(range(len(srcs))):
            out.append(("numbered_island_and_position", "island %s has component numbers %s" % (isl, sorted(srcs))))
            break
    for r in comps:
        bad = None
        fin = all(np.isfinite([r.ra, r.dec, r.a, r.b, r.pa]))
        if fin:
            if not r.a >= r.b > 0:
                bad = ("a_ge_b_positive", "a=%r b=%r" % (r.a, r.b))
            elif not -90 < r.pa <= 90:
                bad = ("pa_in_range", "pa=%r" % r.pa)
            elif not 0 <= r.ra < 360:
                bad = ("ra_wrapped", "ra=%r" % r.ra)
            elif not sex_fields_ok(r.ra_str, 24) or not sex_fields_ok(r.dec_str, 91):
                bad = ("strings_are_sexagesimal_of_stored_decimals", "field out of range: ra_str=%s dec_str=%s" % (r.ra_str, r.dec_str))
            elif abs(parse_sex(r.ra_str) * 15 - r.ra) > 1e-5 * 15 or abs(parse_sex(r.dec_str) - r.dec) > 1e-5:
                bad = ("strings_are_sexagesimal_of_stored_decimals", "ra=%r %s dec=%r %s" % (r.ra, r.ra_str, r.dec, r.dec_str))
            elif psf_ok and r.psf_a > 0 and np.isfinite(r.int_flux) and r.peak_flux != 0 and \
                    abs(r.int_flux / (r.peak_flux * r.a * r.b / (r.psf_a * r.psf_b)) - 1) > 0.01:
                bad = ("int_flux_formula", "int_flux=%r but peak*a*b/(psf_a*psf_b)=%r" % (r.int_flux, r.peak_flux * r.a * r.b / (r.psf_a * r.psf_b)))
        elif not int(r.flags) & flags.WCSERR:
            bad = ("unprojectable_component_flagged_wcserr", "non-finite sky parameters without WCSERR")
        if bad is None and (int(r.flags) != r.flags or int(r.flags) & ~ALLFLAGS or int(r.flags) < 0):
            bad = ("flags_use_only_documented_bits", "flags=%r" % (r.flags,))
        if bad is None:
            for e in ERRS:
                v = getattr(r, e)
                if not (v == -1 or (np.isfinite(v) and v > 0)):
                    bad = ("each_error_masked_or_positive." + e, "%s=%r (island %s source %s flags %s)" % (e, v, r.island, r.source, r.flags))
                    break
        if bad:
            out.append(bad)
            break
    return out


def island_failures(rows, img, innerclip, outerclip, rmsval):
    """island rows vs an independent labelling of the detected pixels (rms constant, bkg 0)"""
    from scipy.ndimage import label, find_objects
    out = []
    isl = [r for r in rows if isinstance(r, IslandSource)]
    comps = [r for r in rows if isinstance(r, ComponentSource)]
    nums = [r.island for r in isl]
    if len(set(nums)) != len(nums):
        out.append(("blind.island_numbers_strictly_increase_by_one_per_fitted_island", "duplicate island rows %s" % nums))
    for r in isl:
        n = len([c for c in comps if c.island == r.island])
        if r.components != n:
            out.append(("island_row_component_count", "island %s row says %s components, catalogue has %d" % (r.island, r.components, n)))
            break
    with np.errstate(invalid='ignore'):
        snr = np.abs(img) / rmsval
        lab, nl = label(snr > outerclip, structure=np.ones((3, 3)))      # islands are 8-connected groups (C02)
    ref = []
    for k, sl in enumerate(find_objects(lab), start=1):
        own = lab[sl] == k
        if np.nanmax(np.where(own, snr[sl], 0)) > innerclip:
            ref.append((sl[0].start, sl[0].stop, sl[1].start, sl[1].stop, int(own.sum())))
    got = [tuple(int(v) for v in r.extent) + (int(r.pixels),) for r in isl]
    for r in isl:       # the peak is an extreme pixel of the island's own detected pixels
        xmin, xmax, ymin, ymax = [int(v) for v in r.extent]
        if 0 <= xmin < xmax <= img.shape[0] and 0 <= ymin < ymax <= img.shape[1]:
            cut, lc = img[xmin:xmax, ymin:ymax], lab[xmin:xmax, ymin:ymax]
            ks = [k for k in np.unique(lc) if k and (lc == k).sum() == r.pixels]
            ext = [f(np.where(lc == k, cut, np.nan)) for k in ks for f in (np.nanmax, np.nanmin)]
            if ks and not any(np.isclose(r.peak_flux, e, rtol=1e-5) for e in ext):
                out.append(("island_row_peak", "island %s: peak_flux %r is not an extreme pixel of its detected pixels" % (r.island, r.peak_flux)))
                break
    if sorted(got) != sorted(ref):
        d1 = sorted(set(got) - set(ref))[:2]
        d2 = sorted(set(ref) - set(got))[:2]
        out.append(("island.mask_false_exactly_on_own_pixels",
                    "island rows (extent, pixels, peak) differ from the labelled detected pixels: rows only %s, labelling only %s" % (d1, d2)))
    return out


def grid_positions(nr, nc, step, off=20):
    return [(off + step * i, off + step * j) for i in range(nr) for j in range(nc)]


def blind_case(seed):
    rnd = random.Random(seed)
    shape = (rnd.randint(90, 130), rnd.randint(90, 140))
    n = rnd.randint(2, 7)
    pos = [(rnd.uniform(8, shape[0] - 8), rnd.uniform(8, shape[1] - 8)) for _ in range(n)]
    if rnd.random() < 0.5:
        pos.append((pos[0][0] + 4.0, pos[0][1] + 3.0))          # blended pair -> multi-component island
    amps = [rnd.choice([1, -1]) * rnd.uniform(1, 5) for _ in pos]
    crval = rnd.choice([None, (0.02, rnd.uniform(-40, 40)), (rnd.uniform(0, 360), -89.9), (359.99, 20.0)])
    path, noise, img = mk_image(rnd, shape, pos, crval=crval, amps=amps, blank_cols=rnd.choice([0, 0, 6]))
    try:
        sf = SourceFinder(log=log)
        inner = rnd.choice([5, 6])
        rows = sf.find_sources_in_image(path, rms=noise, bkg=0.0, cores=1, doislandflux=True, max_summits=rnd.choice([None, 1, 3]),
                                        innerclip=inner, outerclip=4)
    finally:
        shutil.rmtree(os.path.dirname(path), ignore_errors=True)
    out = row_failures(rows) + island_failures(rows, img, inner, 4, noise)
    return out, rows


def _sep(ra1, dec1, ra2, dec2):
    r = np.radians
    a = np.sin(r(dec2 - dec1) / 2) ** 2 + np.cos(r(dec1)) * np.cos(r(dec2)) * np.sin(r(ra2 - ra1) / 2) ** 2
    return np.degrees(2 * np.arcsin(np.sqrt(a)))


def widefield_case(seed):
    """a 40 degree SIN field: sources up to 25 degrees from the reference pixel"""
    rnd = random.Random(seed)
    shape = (160, 160)
    pos = [(20 + 40 * i + rnd.uniform(-3, 3), 20 + 40 * j + rnd.uniform(-3, 3)) for i in range(4) for j in range(4)]
    crval = (rnd.uniform(30, 300), rnd.uniform(-30, 30))
    path, noise, img = mk_image(rnd, shape, pos, crval=crval, scale=0.25)
    try:
        rows = SourceFinder(log=log).find_sources_in_image(path, rms=noise, bkg=0.0, cores=1)
    finally:
        shutil.rmtree(os.path.dirname(path), ignore_errors=True)
    near = [r for r in rows if isinstance(r, ComponentSource) and _sep(r.ra, r.dec, crval[0], crval[1]) <= 15]
    far = [r for r in rows if isinstance(r, ComponentSource) and _sep(r.ra, r.dec, crval[0], crval[1]) > 15]
    out = row_failures(near)
    # beyond ~15 degrees from the reference pixel the sky ellipse (a, b) of a sheared projection no longer has the area ratio of
    # the pixel ellipse: a separate label (known finding), every other clause is still checked
    for lab, what in row_failures(far):
        out.append((lab + ".wide_field" if lab == "int_flux_formula" else lab, what))
    return out, rows


def priorized_case(seed, many=False):
    rnd = random.Random(seed)
    if many:
        pos = grid_positions(5, rnd.randint(5, 9), 24)
        shape = (5 * 24 + 30, max(c for _, c in pos) + 30)
    else:
        shape = (100, 110)
        pos = [(rnd.uniform(10, 90), rnd.uniform(10, 100)) for _ in range(rnd.randint(2, 6))]
    path, noise, img = mk_image(rnd, shape, pos)
    try:
        sf = SourceFinder(log=log)
        found = [r for r in sf.find_sources_in_image(path, rms=noise, bkg=0.0, cores=1) if isinstance(r, ComponentSource)]
        if not found:
            return [], []
        sf2 = SourceFinder(log=log)
        dropped = 0
        if many and found:
            # a catalogue row that cannot be fitted (off the image) among the first batch of groups
            import copy as _copy
            ghost = _copy.copy(found[0])
            ghost.uuid = 'ghost'
            ghost.ra, ghost.dec = (found[0].ra + 2.0) % 360, found[0].dec
            ghost.island, ghost.source = 100000, 0
            found = found[:3] + [ghost] + found[3:]
            dropped = 1
        rows = sf2.priorized_fit_islands(path, catalogue=found, rms=noise, bkg=0.0, cores=1, stage=rnd.choice([1, 2, 3]),
                                         doregroup=rnd.random() < 0.7, regroup_eps=rnd.choice([None, 0.5]))
        # a prior catalogue that is itself the product of priorized fitting (flags already carry PRIORIZED)
        rows2 = SourceFinder(log=log).priorized_fit_islands(path, catalogue=rows, rms=noise, bkg=0.0, cores=1, stage=rnd.choice([1, 2, 3]),
                                                            doregroup=False) if rows else []
    finally:
        shutil.rmtree(os.path.dirname(path), ignore_errors=True)
    out = row_failures(rows) + row_failures(rows2)
    if len(rows) != len(found) - dropped:
        out.append(("one_row_per_component", "priorized fit of %d usable input components returned %d rows" % (len(found) - dropped, len(rows))))
    return out, rows


class _Par:
    def __init__(self, value, stderr, vary=True):
        self.value, self.stderr, self.vary = value, stderr, vary


def errors_case(seed):
    """fitting.errors on hand-made models whose stderr are -2 (singular covariance), NaN, None or tiny"""
    rnd = random.Random(seed)
    h = fits.Header()
    h['NAXIS'], h['NAXIS1'], h['NAXIS2'] = 2, 100, 100
    h['CTYPE1'], h['CTYPE2'], h['CRVAL1'], h['CRVAL2'] = 'RA---SIN', 'DEC--SIN', 30.0, -20.0
    h['CDELT1'], h['CDELT2'], h['CRPIX1'], h['CRPIX2'] = -0.003, 0.003, 50.0, 50.0
    h['BMAJ'], h['BMIN'], h['BPA'] = 0.015, 0.012, 0.0
    helper = WCSHelper.from_header(h)

    def se(vary):
        if not vary:
            return rnd.choice([None, float('nan')])
        return rnd.choice([-2, float('nan'), rnd.uniform(0.01, 0.5), rnd.uniform(0.01, 0.5), rnd.uniform(0.01, 0.5)])
    model = {}
    vals = dict(amp=rnd.choice([1, -1]) * rnd.uniform(0.5, 3), xo=rnd.uniform(20, 80), yo=rnd.uniform(20, 80), sx=rnd.uniform(1.5, 4), sy=rnd.uniform(1.5, 4),
                theta=rnd.uniform(-90, 90))
    for k, v in vals.items():
        vary = rnd.random() < 0.8
        model['c0_' + k] = _Par(v, se(vary), vary)
    s = ComponentSource()
    s.source, s.flags = 0, rnd.choice([0, 0, 0, flags.FIXED2PSF, flags.PRIORIZED])
    s.peak_flux, s.a, s.b, s.pa, s.int_flux = vals['amp'], 40.0, 30.0, 10.0, vals['amp'] * 1.2
    s.ra, s.dec = helper.pix2sky([vals['xo'], vals['yo']])
    fitting.errors(s, model, helper)
    for e in ERRS:
        v = getattr(s, e)
        if not (v == -1 or (v is not None and np.isfinite(v) and v > 0)):
            return [("each_error_masked_or_positive." + e, "%s=%r for stderr %s" % (e, v, {k: (p.stderr, p.vary) for k, p in model.items()}))]
    return []


def _collect(failures, seen, fl, inp, payload):
    for lab, what in fl:
        if lab not in seen:
            seen.add(lab)
            failures.append({"label": lab, "input": inp, "what": what, "replay_func": "replay_catalogue", "replay_payload": payload})


def crosscheck(p):
    thorough = p.get("tier") == "thorough"
    s0 = p.get("seed", 0) * 7919
    failures, seen, evals = [], set(), 0
    for i in range(40 if thorough else 6):
        evals += 1
        try:
            fl = blind_case(s0 + i)[0]
        except Exception as e:
            fl = [("blind_run_completes", "find_sources_in_image raised %r" % (e,))]
        _collect(failures, seen, fl, {"blind_seed": s0 + i}, {"blind_seeds": [s0 + i]})
    for i in range(12 if thorough else 3):
        evals += 1
        try:
            fl = priorized_case(s0 + i, many=(i % 3 == 0))[0]
        except Exception as e:
            fl = [("priorized_run_completes", "priorized_fit_islands raised %r" % (e,))]
        _collect(failures, seen, fl, {"priorized_seed": s0 + i, "many": i % 3 == 0},
                 {"priorized_seeds": [[s0 + i, i % 3 == 0]]})
    evals += 1
    _collect(failures, seen, strings_failures(), {"strings": True}, {"strings": True})
    for i in ([0] + [s0 + j for j in range(1, 4 if thorough else 1)]):
        evals += 1
        try:
            fl = widefield_case(i)[0]
        except Exception as e:
            fl = [("blind_run_completes", "wide-field find_sources_in_image raised %r" % (e,))]
        _collect(failures, seen, fl, {"widefield_seed": i}, {"widefield_seeds": [i]})
    for i in range(3000 if thorough else 400):
        evals += 1
        try:
            fl = errors_case(s0 + i)
        except Exception as e:
            fl = [("errors.no_exception", "errors() raised %r" % (e,))]
        _collect(failures, seen, fl, {"errors_seed": s0 + i}, {"errors_seeds": [s0 + i]})
    return {"evaluations": evals, "failures": failures,
            "rule": "real blind runs (random SIN images incl. RA wrap, pole, blended pairs, negative sources, blanked columns, "
                    "max_summits) and priorized runs (incl. >20 island groups): unique (island, source), a>=b, pa range, ra range, "
                    "flag bits, errors -1 or positive, int_flux vs peak*a*b/psf within 1 %, sexagesimal strings, island rows; "
                    "fitting.errors on random stderr patterns (-2, NaN, None)"}


def replay_catalogue(p):
    bad = []
    ob = p.get("obligation", "")
    explicit = any(k in p for k in ("blind_seeds", "priorized_seeds", "errors_seeds", "strings", "widefield_seeds"))
    if p.get("strings") or (not explicit and ('dec2hms' in ob or 'dec2dms' in ob or 'field' in ob or 'strings' in ob)):
        fl = strings_failures()
        if fl:
            bad.append({"strings": True, "what": fl})
    for sd in p.get("widefield_seeds") or ([] if explicit or 'beamarea' not in ob else [0]):
        fl = widefield_case(sd)[0]
        if fl:
            bad.append({"widefield_seed": sd, "what": fl})
            break
    bl = p.get("blind_seeds") or ([] if explicit else range(6))
    pr = p.get("priorized_seeds") or ([] if explicit else [[0, True], [1, False], [2, False]])
    er = p.get("errors_seeds") or ([] if explicit else range(400))
    if not explicit:
        if 'errors' in ob:
            bl, pr = [], []
        elif 'priorized' in ob or 'batching' in ob or 'refit' in ob:
            bl, er = [], []
    for s in bl:
        try:
            fl = blind_case(s)[0]
        except Exception as e:
            fl = [("blind_run_completes", repr(e))]
        if fl:
            bad.append({"blind_seed": s, "what": fl})
            break
    for s, many in pr:
        try:
            fl = priorized_case(s, many)[0]
        except Exception as e:
            fl = [("priorized_run_completes", repr(e))]
        if fl:
            bad.append({"priorized_seed": [s, many], "what": fl})
            break
    for s in er:
        try:
            fl = errors_case(s)
        except Exception as e:
            fl = [("errors.no_exception", repr(e))]
        if fl:
            bad.append({"errors_seed": s, "what": fl})
            break
    return {"fails": bool(bad), "observed": bad, "replay_func": "replay_catalogue",
            "replay_payload": {"blind_seeds": [b["blind_seed"] for b in bad if "blind_seed" in b],
                               "priorized_seeds": [b["priorized_seed"] for b in bad if "priorized_seed" in b],
                               "errors_seeds": [b["errors_seed"] for b in bad if "errors_seed" in b],
                               "widefield_seeds": [b["widefield_seed"] for b in bad if "widefield_seed" in b],
                               "strings": any("strings" in b for b in bad)}}
