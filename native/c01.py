"""C01 native closed loop: inject one elliptical Gaussian (pixel space), run the real blind finder, compare with the truth.
Expected sky values are computed with astropy.wcs only (great-circle separations / position angles from the centre)."""
import logging
import os
import random
import shutil
import tempfile

import numpy as np
from astropy.io import fits
from astropy.wcs import WCS

from AegeanTools.models import ComponentSource
from AegeanTools.source_finder import SourceFinder

FW = 2 * np.sqrt(2 * np.log(2))
log = logging.getLogger("c01")
log.addHandler(logging.NullHandler())
log.propagate = False


def sep(ra1, dec1, ra2, dec2):
    r = np.radians
    a = np.sin(r(dec2 - dec1) / 2) ** 2 + np.cos(r(dec1)) * np.cos(r(dec2)) * np.sin(r(ra2 - ra1) / 2) ** 2
    return np.degrees(2 * np.arcsin(np.sqrt(a)))


def bearing(ra1, dec1, ra2, dec2):
    r = np.radians
    dl = r(ra2 - ra1)
    y = np.sin(dl) * np.cos(r(dec2))
    x = np.cos(r(dec1)) * np.sin(r(dec2)) - np.sin(r(dec1)) * np.cos(r(dec2)) * np.cos(dl)
    return np.degrees(np.arctan2(y, x))


def make_case(seed, overrides=None):
    rnd = random.Random(seed)
    c = dict(nx=rnd.randint(70, 110), ny=rnd.randint(70, 110), proj=rnd.choice(['SIN', 'TAN', 'ZEA', 'ARC', 'STG']),
             crval=rnd.choice([(rnd.uniform(0, 360), rnd.uniform(-60, 60)), (0.01, rnd.uniform(-30, 30)), (359.99, 10.0),
                               (rnd.uniform(0, 360), rnd.choice([-1, 1]) * rnd.uniform(70, 85))]),
             scale=rnd.choice([1.0, 5.0, 20.0, 60.0]) / 3600, beam_pix=None, phi=rnd.uniform(0, 180), amp=rnd.choice([1.0, 0.05, 30.0, 4e-6]) * rnd.uniform(0.5, 2),
             docov=rnd.random() < 0.5, noise=0.0, negative=False)
    bmaj = rnd.uniform(3.0, 7.0)
    c['beam_pix'] = (bmaj, bmaj * rnd.uniform(0.6, 1.0), rnd.uniform(-90, 90))
    f = rnd.uniform(1.0, 1.8)
    c['fwhm'] = (max(c['beam_pix'][0] * f, c['beam_pix'][0]), max(c['beam_pix'][0] * f * rnd.uniform(0.55, 1.0), c['beam_pix'][0]))
    c['fx'] = c['nx'] / 2 + rnd.uniform(-8, 8)
    c['fy'] = c['ny'] / 2 + rnd.uniform(-8, 8)
    if rnd.random() < 0.3:
        c['fx'], c['fy'] = round(c['fx']) + rnd.choice([0.0, 0.5, 0.49]), round(c['fy']) + rnd.choice([0.0, 0.5, -0.5])
    c.update(overrides or {})
    return c


def header(c):
    h = fits.Header()
    h['SIMPLE'], h['BITPIX'], h['NAXIS'], h['NAXIS1'], h['NAXIS2'] = True, -64, 2, c['nx'], c['ny']
    h['CTYPE1'], h['CTYPE2'] = 'RA---' + c['proj'], 'DEC--' + c['proj']
    h['CRPIX1'], h['CRPIX2'] = c['nx'] / 2 + 0.3, c['ny'] / 2 - 0.2
    h['CRVAL1'], h['CRVAL2'] = c['crval']
    h['CDELT1'], h['CDELT2'] = -c['scale'], c['scale']
    # the header beam is a sky quantity: choose it so that it is ~ beam_pix pixels; pa east of north
    h['BMAJ'], h['BMIN'], h['BPA'] = c['beam_pix'][0] * c['scale'], c['beam_pix'][1] * c['scale'], c['beam_pix'][2]
    h['BUNIT'] = 'Jy/beam'
    return h


def truth(c, h):
    """sky position, FWHMs (arcsec), PA (east of north) of the injected pixel-space Gaussian, via astropy only"""
    w = WCS(h)
    ra0, dec0 = [float(v) for v in w.all_pix2world(c['fx'], c['fy'], 0)]
    cs, sn = np.cos(np.radians(c['phi'])), np.sin(np.radians(c['phi']))
    sa, sb = c['fwhm'][0], c['fwhm'][1]
    ra1, dec1 = [float(v) for v in w.all_pix2world(c['fx'] + sa * cs, c['fy'] + sa * sn, 0)]
    ra2, dec2 = [float(v) for v in w.all_pix2world(c['fx'] - sb * sn, c['fy'] + sb * cs, 0)]
    a = sep(ra0, dec0, ra1, dec1) * 3600
    b = sep(ra0, dec0, ra2, dec2) * 3600
    pa = bearing(ra0, dec0, ra1, dec1)
    return dict(ra=ra0 % 360, dec=dec0, a=a, b=b, pa=pa)


def image(c):
    yy, xx = np.mgrid[0:c['ny'], 0:c['nx']].astype(float)
    cs, sn = np.cos(np.radians(c['phi'])), np.sin(np.radians(c['phi']))
    u = (xx - c['fx']) * cs + (yy - c['fy']) * sn
    v = -(xx - c['fx']) * sn + (yy - c['fy']) * cs
    amp = -c['amp'] if c.get('negative') else c['amp']
    img = amp * np.exp(-0.5 * ((u / (c['fwhm'][0] / FW)) ** 2 + (v / (c['fwhm'][1] / FW)) ** 2))
    if c['noise']:
        # image-plane noise of a radio map: white noise smoothed by the synthesised beam, scaled to the requested rms
        white = np.random.default_rng(c.get('noise_seed', 1)).normal(size=img.shape)
        if c.get('white'):
            return img + white * c['noise']
        ba, bb, bpa = c['beam_pix']
        ky, kx = np.mgrid[-15:16, -15:16].astype(float)
        # header BPA is east of north; for these small images north is +y and east is -x
        t = np.radians(90 + bpa)
        uu = kx * np.cos(t) + ky * np.sin(t)
        vv = -kx * np.sin(t) + ky * np.cos(t)
        ker = np.exp(-0.5 * ((uu / (ba / FW)) ** 2 + (vv / (bb / FW)) ** 2))
        from scipy.signal import fftconvolve
        sm = fftconvolve(white, ker, mode='same')
        img = img + sm * (c['noise'] / sm.std())
    return img


class _Watchdog(Exception):
    pass


def run_case(c, limit=240):
    """run_case_inner under an alarm: a finder that does not come back (e.g. one image-sized island) is a failure, not a hang"""
    import signal

    def onalarm(signum, frame):
        raise _Watchdog()
    old = signal.signal(signal.SIGALRM, onalarm)
    signal.alarm(limit)
    try:
        return run_case_inner(c)
    except _Watchdog:
        return [("finder_completes", "find_sources_in_image did not finish within %d s | case %s" % (limit, c))], {}, []
    finally:
        signal.alarm(0)
        signal.signal(signal.SIGALRM, old)


def run_case_inner(c):
    h = header(c)
    img = image(c)
    tmp = tempfile.mkdtemp(prefix="c01_")
    try:
        path = os.path.join(tmp, "im.fits")
        fits.PrimaryHDU(img, header=h).writeto(path)
        rms = c['noise'] if c['noise'] else c['amp'] * c.get('rms_frac', 1e-3)
        off = c.get('bkg_offset', 0.0)
        if off:
            fits.PrimaryHDU(img + off, header=h).writeto(path, overwrite=True)
        if c.get('estimate_bkg'):
            # a constant level plus a little noise; the noise is forced, the background is left to the finder
            fits.PrimaryHDU(img + c['level'], header=h).writeto(path, overwrite=True)
            rows = SourceFinder(log=log).find_sources_in_image(path, rms=rms, cores=1, docov=c['docov'])
        elif c.get('default_polarity'):
            rows = SourceFinder(log=log).find_sources_in_image(path, rms=rms, bkg=off, cores=1, docov=c['docov'])
        else:
            rows = SourceFinder(log=log).find_sources_in_image(path, rms=rms, bkg=off, cores=1, docov=c['docov'],
                                                               nonegative=not c.get('negative'), nopositive=False)
    finally:
        shutil.rmtree(tmp, ignore_errors=True)
    rows = [r for r in rows if isinstance(r, ComponentSource)]
    t = truth(c, h)
    w = WCS(h)
    out = []
    if c['noise'] and len(rows) > 1:
        # noise can add a faint spurious component on the flank of the island: only a companion above 20 % of the peak counts
        rows = sorted(rows, key=lambda r_: -abs(r_.peak_flux))
        if abs(rows[1].peak_flux) <= 0.2 * c['amp']:
            rows = rows[:1]
    if c['noise'] and c.get('white') and len(rows) != 1:
        # pixel-to-pixel white noise puts spurious summits on the source itself and the island is fitted as a blend:
        # this sample cannot be judged (the statement's noise is image noise, i.e. beam-correlated); only single-component
        # outcomes of the white-noise cases are used (for the size of the reported errors)
        return [], t, rows
    if len(rows) != 1:
        a_ = np.abs(img)
        if not c['noise'] and len(rows) > 1 and int((a_ >= a_.max() * (1 - 1e-12)).sum()) > 1:
            return [("exactly_one_component.tied_brightest_pixels",
                     "%d components for one Gaussian whose centre is equidistant from %d pixels (exactly equal brightest pixels) | case %s" % (
                         len(rows), int((a_ >= a_.max() * (1 - 1e-12)).sum()), c))], t, rows
        return [("exactly_one_component", "%d components reported for one injected Gaussian | case %s" % (len(rows), c))], t, rows
    r = rows[0]
    px = w.all_world2pix(r.ra, r.dec, 0)
    dpix = float(np.hypot(px[0] - c['fx'], px[1] - c['fy']))
    amp = -c['amp'] if c.get('negative') else c['amp']
    bw = FW * FW / (2 * np.pi)       # not needed: int_flux / peak = a*b/(beam_a*beam_b)
    beam_a, beam_b = c['beam_pix'][0] * c['scale'] * 3600, c['beam_pix'][1] * c['scale'] * 3600
    int_true = amp * t['a'] * t['b'] / (beam_a * beam_b)
    dpa = abs(((r.pa - t['pa'] + 90) % 180) - 90)
    if c['noise']:
        k = 8      # the clause says 5 sigma; 8 keeps a calibrated estimator from ever raising a (statistical) false alarm
        dra = (r.ra - t['ra'] + 180.0) % 360.0 - 180.0        # RA difference across the 0/360 wrap
        checks = [("position", abs(dra) * np.cos(np.radians(t['dec'])) <= k * max(r.err_ra, 0) + 1e-9 or r.err_ra < 0,
                   "ra %r vs %r +- %r" % (r.ra, t['ra'], r.err_ra)),
                  ("peak_flux", abs(r.peak_flux - amp) <= k * r.err_peak_flux or r.err_peak_flux < 0, "peak %r vs %r +- %r" % (r.peak_flux, amp, r.err_peak_flux)),
                  ("major_axis", abs(r.a - t['a']) <= k * r.err_a or r.err_a < 0, "a %r vs %r +- %r" % (r.a, t['a'], r.err_a)),
                  ("minor_axis", abs(r.b - t['b']) <= k * r.err_b or r.err_b < 0, "b %r vs %r +- %r" % (r.b, t['b'], r.err_b))]
    else:
        checks = [("position", dpix <= 0.02, "position %.4f pixel off (ra %r dec %r vs %r %r)" % (dpix, r.ra, r.dec, t['ra'], t['dec'])),
                  ("peak_flux", abs(r.peak_flux / amp - 1) <= 1e-3, "peak %r vs injected %r" % (r.peak_flux, amp)),
                  ("major_axis", abs(r.a / t['a'] - 1) <= 5e-3, "a %r vs injected %r arcsec" % (r.a, t['a'])),
                  ("minor_axis", abs(r.b / t['b'] - 1) <= 5e-3, "b %r vs injected %r arcsec" % (r.b, t['b'])),
                  ("position_angle", dpa <= 0.5 or t['a'] / t['b'] < 1.05, "pa %r vs injected %r (east of north)" % (r.pa, t['pa'])),
                  ("int_flux", abs(r.int_flux / int_true - 1) <= 5e-3, "int_flux %r vs %r" % (r.int_flux, int_true))]
    if not c['noise']:
        rmsv = c['amp'] * c.get('rms_frac', 1e-3)
        pixmax = float(np.max(np.abs(img)))
        capped = 1.05 * pixmax + 5 * rmsv < c['amp'] * (1 - 1e-3)
        if capped and any(not ok for _, ok, _ in checks):
            return [("start.upper_amplitude_bound_is_above_the_injected_peak",
                     "brightest pixel %.4f of a peak %.4f source: the upper amplitude bound 1.05*max+5*rms = %.4f excludes the true peak; "
                     "reported peak %r | case %s" % (pixmax, c['amp'], 1.05 * pixmax + 5 * rmsv, r.peak_flux, c))], t, rows
    for lab, ok, what in checks:
        if not ok:
            out.append((lab, what + " | case %s" % {k_: (round(v, 4) if isinstance(v, float) else v) for k_, v in c.items()}))
    return out, t, rows


_BASE = {'proj': 'SIN', 'crval': (50.0, -30.0), 'scale': 10 / 3600, 'amp': 1.0, 'docov': False, 'nx': 80, 'ny': 80}
CORNER_CASES = [dict(_BASE, beam_pix=(3.0, 3.0, 0.0), fwhm=(3.0, 3.0), fx=40.5, fy=40.5),
                dict(_BASE, beam_pix=(4.0, 4.0, 0.0), fwhm=(4.0, 4.0), fx=40.5, fy=40.5),
                dict(_BASE, beam_pix=(3.0, 2.5, 20.0), fwhm=(3.2, 3.0), fx=40.5, fy=40.5),
                dict(_BASE, beam_pix=(6.0, 5.0, 20.0), fwhm=(7.0, 6.0), fx=40.5, fy=40.5),
                # elongated sources along rows / columns / diagonal (the major axis may lie along the short side of the island box)
                dict(_BASE, beam_pix=(4.0, 4.0, 0.0), fwhm=(9.0, 4.2), phi=0.0, fx=40.3, fy=39.8),
                dict(_BASE, beam_pix=(4.0, 4.0, 0.0), fwhm=(9.0, 4.2), phi=90.0, fx=40.3, fy=39.8),
                dict(_BASE, beam_pix=(4.0, 4.0, 0.0), fwhm=(9.0, 4.2), phi=45.0, fx=40.3, fy=39.8, rms_frac=0.02),
                dict(_BASE, beam_pix=(5.0, 4.0, 30.0), fwhm=(8.0, 5.0), phi=115.0, fx=37.37, fy=43.21, rms_frac=0.05),
                dict(_BASE, nx=120, ny=100, beam_pix=(5.0, 4.0, -30.0), fwhm=(17.5, 5.0), phi=0.0, fx=57.37, fy=53.21, rms_frac=0.03),
                dict(_BASE, nx=120, ny=100, beam_pix=(5.0, 4.0, -30.0), fwhm=(17.5, 5.0), phi=90.0, fx=57.37, fy=53.21, rms_frac=0.03),
                # celestial pole within the field (beam under an arcminute, oblique beam PA)
                dict(_BASE, crval=(120.0, 89.8), scale=5 / 3600, beam_pix=(6.0, 4.5, 35.0), fwhm=(8.0, 6.0), phi=70.0, fx=41.3, fy=38.6),
                dict(_BASE, crval=(300.0, -89.7), scale=8 / 3600, beam_pix=(5.0, 4.0, -50.0), fwhm=(6.5, 5.0), phi=20.0, fx=39.2, fy=42.4),
                # a non-zero (forced) background, faint and bright source
                dict(_BASE, beam_pix=(5.0, 4.0, 30.0), fwhm=(6.0, 5.0), phi=30.0, fx=40.2, fy=39.9, bkg_offset=0.7, rms_frac=0.05),
                dict(_BASE, beam_pix=(5.0, 4.0, 30.0), fwhm=(6.0, 5.0), phi=30.0, fx=40.2, fy=39.9, bkg_offset=-3.0)]


def crosscheck(p):
    thorough = p.get("tier") == "thorough"
    s0 = p.get("seed", 0) * 3001
    failures, seen, evals = [], set(), 0
    for i in range(300 if thorough else 40):
        evals += 1
        over = {}
        if i % 5 == 4:
            over = {'negative': True}
        if i % 7 == 6:    # beam-correlated noise, covariance weighting on (the estimator's own noise model)
            over = {'noise': 0.02, 'amp': 1.0, 'noise_seed': s0 + i, 'docov': True}
        c = make_case(s0 + i, over)
        try:
            fl = run_case(c)[0]
        except Exception as e:
            fl = [("finder_completes", repr(e))]
        for lab, what in fl:
            if lab not in seen:
                seen.add(lab)
                failures.append({"label": lab, "input": {"seed": s0 + i, "overrides": over}, "what": what, "replay_func": "replay_recovery",
                                 "replay_payload": {"cases": [[s0 + i, over]]}})
    for k_, over in enumerate(CORNER_CASES):
        evals += 1
        try:
            fl = run_case(make_case(5, over))[0]
        except Exception as e:
            fl = [("finder_completes", repr(e))]
        for lab, what in fl:
            if lab not in seen:
                seen.add(lab)
                failures.append({"label": lab, "input": {"seed": 5, "overrides": over}, "what": what, "replay_func": "replay_recovery",
                                 "replay_payload": {"cases": [[5, over]]}})
    # default options (no polarity keywords) on a negative source; forced rms with the background left to the internal estimate
    for label, over in (("defaults_negative", dict(_BASE, negative=True, default_polarity=True, beam_pix=(5.0, 4.0, 20.0), fwhm=(6.0, 5.0),
                                                   phi=40.0, fx=40.2, fy=39.7)),
                        ("forced_rms_estimated_bkg", dict(_BASE, nx=100, ny=100, beam_pix=(5.0, 4.0, 20.0), fwhm=(6.0, 5.0), phi=40.0,
                                                           fx=50.2, fy=49.7, level=0.5, noise=0.01, white=True, noise_seed=3, estimate_bkg=True))):
        evals += 1
        try:
            fl = run_case(make_case(5, over))[0]
        except Exception as e:
            fl = [("finder_completes", repr(e))]
        for lab, what in fl:
            if lab not in seen:
                seen.add(lab)
                failures.append({"label": lab, "input": {"seed": 5, "overrides": over}, "what": what, "replay_func": "replay_recovery",
                                 "replay_payload": {"cases": [[5, over]]}})
    # two images of the same field and beam with different cell sizes, one after the other in this process
    for over in (dict(_BASE, scale=10 / 3600, beam_pix=(5.0, 4.0, 20.0), fwhm=(6.0, 5.0), phi=40.0, fx=40.2, fy=39.7),
                 dict(_BASE, scale=5 / 3600, beam_pix=(10.0, 8.0, 20.0), fwhm=(12.0, 10.0), phi=40.0, fx=40.2, fy=39.7)):
        evals += 1
        try:
            fl = run_case(make_case(5, over))[0]
        except Exception as e:
            fl = [("finder_completes", repr(e))]
        for lab, what in fl:
            if lab not in seen:
                seen.add(lab)
                failures.append({"label": lab, "input": {"seed": 5, "overrides": over, "after": "the same field at another cell size"},
                                 "what": what, "replay_func": "replay_recovery", "replay_payload": {"sequence": True}})
    # white noise well above 1 in image units, no covariance weighting: the reported errors must still be in image units
    for j in range(6 if thorough else 2):
        evals += 1
        over = {'noise': 20.0, 'amp': 1000.0, 'noise_seed': s0 + j, 'docov': False, 'white': True}
        try:
            fl = run_case(make_case(s0 + 900 + j, over))[0]
        except Exception as e:
            fl = [("finder_completes", repr(e))]
        for lab, what in fl:
            if lab not in seen:
                seen.add(lab)
                failures.append({"label": lab, "input": {"seed": s0 + 900 + j, "overrides": over}, "what": what,
                                 "replay_func": "replay_recovery", "replay_payload": {"cases": [[s0 + 900 + j, over]]}})
    return {"evaluations": evals, "failures": failures,
            "rule": "one isolated pixel-space Gaussian (FWHM >= beam major in both axes, beam 3-7 pixels, random sub-pixel position incl. "
                    "exact half pixels, orientation, axis ratio, amplitude, pixel scale 1-60 arcsec, CRVAL incl. RA wrap and |dec| 70-85, "
                    "SIN/TAN/ZEA/ARC/STG, docov on/off, negative sources, noisy cases) -> blind finder -> compare with astropy-only truth "
                    "(0.02 pix, 0.1 %, 0.5 %, 0.5 deg, 0.5 %; noisy: 5 sigma)"}


def replay_recovery(p):
    bad = []
    ob = p.get("obligation", "")
    if p.get("sequence"):
        for over in (dict(_BASE, scale=10 / 3600, beam_pix=(5.0, 4.0, 20.0), fwhm=(6.0, 5.0), phi=40.0, fx=40.2, fy=39.7),
                     dict(_BASE, scale=5 / 3600, beam_pix=(10.0, 8.0, 20.0), fwhm=(12.0, 10.0), phi=40.0, fx=40.2, fy=39.7)):
            fl = run_case(make_case(5, over))[0]
            if fl:
                return {"fails": True, "observed": [{"sequence": True, "what": fl}], "replay_func": "replay_recovery",
                        "replay_payload": {"sequence": True}}
        return {"fails": False, "observed": [], "replay_func": "replay_recovery", "replay_payload": {"sequence": True}}
    cases = p.get("cases") or ([[5, CORNER_CASES[0]]] if 'upper_amplitude_bound' in ob else [[i, {}] for i in range(40)])
    for seed, over in cases:
        fl = run_case(make_case(seed, over))[0]
        if fl:
            bad.append({"case": [seed, over], "what": fl})
            break
    return {"fails": bool(bad), "observed": bad, "replay_func": "replay_recovery", "replay_payload": {"cases": [b["case"] for b in bad]}}
