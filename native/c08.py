"""C08/C12 native cross-check: histories of Region operations against a reference model
(frozensets of deepest-level pixels)."""
import itertools
import os
import random
import shutil
import tempfile

import healpy as hp
import numpy as np

from AegeanTools.regions import Region


def view(r):
    """deepest-level pixel set described by pixeldict (independent of r.demoted)"""
    D = r.maxdepth
    out = set()
    for d, pixels in r.pixeldict.items():
        for p in pixels:
            if p == int(p):
                p = int(p)
            if d <= D:
                k = 4 ** (D - d)
                base = p * k
                out.update(base + j for j in range(k))
            else:
                out.add(p // 4 ** (d - D))
    return out


def wf_problems(r, normalised):
    out = []
    D = r.maxdepth
    for d in range(1, D + 1):
        if d not in r.pixeldict:
            out.append("level %d missing" % d)
            continue
        for p in r.pixeldict[d]:
            if p != int(p) or not (0 <= p < 12 * 4 ** d):
                out.append("invalid pixel id %r at level %d" % (p, d))
                break
    for d in r.pixeldict:
        if not (1 <= d <= D) and r.pixeldict[d]:
            out.append("pixels stored at level %r outside 1..%d" % (d, D))
    if normalised and not out:
        seen = {}
        for d in range(1, D + 1):
            for p in r.pixeldict[d]:
                k = 4 ** (D - d)
                for j in sorted({0, k - 1}):
                    q = int(p) * k + j
                    if q in seen:
                        out.append("sky patch of pixel %d represented at levels %d and %d" % (q, seen[q], d))
                        break
                    seen[q] = d
                if out:
                    break
            if out:
                break
        if not out:
            total = sum(len(r.pixeldict[d]) * 4 ** (D - d) for d in range(1, D + 1))
            if total != len(view(r)):
                out.append("some sky patch is represented twice (%d stored vs %d distinct)" % (total, len(view(r))))
    return out


def area_of(ref, D):
    return len(ref) * hp.nside2pixarea(2 ** D, degrees=True)


def rand_pixels(rnd, depth, n):
    return set(rnd.randrange(12 * 4 ** depth) for _ in range(n))


def desc(pix, depth, D):
    k = 4 ** (D - depth)
    return set(p * k + j for p in pix for j in range(k))


def anc(pix, depth, D):
    return set(p // 4 ** (depth - D) for p in pix)


OPS = ['add_pixels', 'add_circle', 'union_same', 'union_coarser', 'union_finer', 'without', 'intersect', 'symdiff',
       'q_demoted', 'q_within', 'q_area', 'pickle', 'q_uniq', 'swap_same_count', 'fill_base', 'q_within']


def run_history(hist, D, seed):
    """apply a list of op names; returns None or (step, op, message)"""
    rnd = random.Random(seed)
    r = Region(maxdepth=D)
    ref = set()
    tmp = None
    for step, op in enumerate(hist):
        normalised = False
        try:
            if op == 'add_pixels':
                depth = rnd.randint(1, D)
                pix = rand_pixels(rnd, depth, rnd.randint(1, 6))
                r.add_pixels(np.array(sorted(pix)), depth)
                ref |= desc(pix, depth, D)
            elif op == 'add_circle':
                ra, dec, rad = rnd.uniform(0, 2 * np.pi), rnd.uniform(-1.4, 1.4), rnd.uniform(0.05, 0.6)
                depth = rnd.randint(1, D)
                pix = hp.query_disc(2 ** depth, hp.ang2vec(np.pi / 2 - dec, ra), rad, inclusive=True, nest=True)
                r.add_circles(ra, dec, rad, depth=depth)
                ref |= desc(set(int(p) for p in pix), depth, D)
                normalised = True
            elif op.startswith('union') or op in ('without', 'intersect', 'symdiff'):
                Do = D
                if op == 'union_coarser':
                    Do = max(1, D - 1)
                elif op == 'union_finer':
                    Do = D + rnd.randint(1, 2)
                o = Region(maxdepth=Do)
                for _ in range(rnd.randint(1, 3)):
                    dd = rnd.randint(1, Do)
                    o.add_pixels(np.array(sorted(rand_pixels(rnd, dd, rnd.randint(1, 8)))), dd)
                if rnd.random() < 0.5:
                    o._renorm()
                if rnd.random() < 0.5:
                    o.get_demoted()
                # bias towards overlap with the current region
                if ref and Do == D and rnd.random() < 0.7:
                    o.add_pixels(np.array(rnd.sample(sorted(ref), min(len(ref), 5))), D)
                vo = view(o)
                if op.startswith('union'):
                    r.union(o)
                    if Do == D:
                        ref |= vo
                    elif Do < D:
                        ref |= desc(vo, Do, D)
                    else:
                        ref |= anc(vo, Do, D)
                elif op == 'without':
                    r.without(o)
                    ref -= vo
                elif op == 'intersect':
                    r.intersect(o)
                    ref &= vo
                else:
                    r.symmetric_difference(o)
                    ref ^= vo
                normalised = True
                if view(o) != vo:
                    return (step, op, "the other operand was modified")
                for d in r.pixeldict:
                    for d2 in o.pixeldict:
                        if r.pixeldict[d] is o.pixeldict[d2]:
                            return (step, op, "a pixel set object is shared between the two regions")
            elif op == 'swap_same_count':
                # remove k covered pixels and add k uncovered ones: the number of deepest-level pixels does not change
                inside = sorted(ref)
                k = min(len(inside), rnd.randint(1, 3))
                outside = [q for q in rnd.sample(range(12 * 4 ** D), min(12 * 4 ** D, 40)) if q not in ref][:k]
                if k and len(outside) == k:
                    o1, o2 = Region(maxdepth=D), Region(maxdepth=D)
                    take = rnd.sample(inside, k)
                    o1.add_pixels(np.array(sorted(take)), D)
                    o2.add_pixels(np.array(sorted(outside)), D)
                    r.without(o1)
                    r.union(o2)
                    ref -= set(take)
                    ref |= set(outside)
                    normalised = True
            elif op == 'fill_base':
                # a whole HEALPix base pixel (all four depth-1 children), through a normalising operation
                b = rnd.randrange(12)
                o = Region(maxdepth=D)
                o.add_pixels(np.array([4 * b, 4 * b + 1, 4 * b + 2, 4 * b + 3]), 1)
                r.union(o)
                ref |= desc({4 * b, 4 * b + 1, 4 * b + 2, 4 * b + 3}, 1, D)
                normalised = True
            elif op == 'q_demoted':
                got = set(int(p) for p in r.get_demoted())
                if got != ref:
                    return (step, op, "get_demoted differs from the reference (%d vs %d pixels)" % (len(got), len(ref)))
            elif op == 'q_within':
                pts = sorted(ref)[:3] + [rnd.randrange(12 * 4 ** D) for _ in range(4)]
                th, ph = hp.pix2ang(2 ** D, pts, nest=True)
                ans = r.sky_within(ph, np.pi / 2 - th)
                for p, a in zip(pts, ans):
                    if bool(a) != (p in ref):
                        return (step, op, "sky_within(centre of pixel %d) = %s, reference %s" % (p, bool(a), p in ref))
            elif op == 'q_area':
                a = r.get_area()
                if all(k in ('add_circle', 'union_same', 'union_coarser', 'union_finer', 'without', 'intersect', 'symdiff',
                             'q_demoted', 'q_within', 'q_area', 'pickle', 'q_uniq', 'swap_same_count', 'fill_base') for k in hist[:step]) and \
                        any(k not in ('q_demoted', 'q_within', 'q_area', 'pickle', 'q_uniq') for k in hist[:step]):
                    # only meaningful when the state is normalised (no bare add_pixels before)
                    last_mut = [k for k in hist[:step] if k not in ('q_demoted', 'q_within', 'q_area', 'pickle', 'q_uniq')]
                    if last_mut and last_mut[-1] != 'add_pixels' and abs(a - area_of(ref, D)) > 1e-9 * max(1, a):
                        return (step, op, "area %.6f, reference %.6f" % (a, area_of(ref, D)))
            elif op == 'pickle':
                tmp = tmp or tempfile.mkdtemp(prefix="c08_")
                f = os.path.join(tmp, "r.mim")
                r.save(f)
                r2 = Region.load(f)
                if r2.maxdepth != r.maxdepth or view(r2) != view(r) or \
                        {d: set(v) for d, v in r2.pixeldict.items()} != {d: set(v) for d, v in r.pixeldict.items()}:
                    return (step, op, "save/load changed the region")
                r = r2
            elif op == 'q_uniq':
                u = r._uniq()
                want = sorted(4 * 4 ** d + int(p) for d in range(1, D + 1) for p in r.pixeldict[d])
                if list(u) != want:
                    return (step, op, "NUNIQ list has %d entries, stored pixels %d" % (len(u), len(want)))
        except Exception as e:
            return (step, op, "raised %r" % (e,))
        v = view(r)
        if v != ref:
            return (step, op, "deepest-level pixel set differs from the reference (%d extra, %d missing)" % (
                len(v - ref), len(ref - v)))
        pr = wf_problems(r, normalised)
        if pr:
            return (step, op, pr[0])
    if tmp:
        shutil.rmtree(tmp, ignore_errors=True)
    return None


def label_for(op, msg):
    if 'raised' in msg:
        return "no_exception"
    if op == 'add_pixels' or 'get_demoted' in msg or 'sky_within' in msg:
        return "later_query_sees_new_pixels" if op.startswith('q_') else "view_is_union_with_descendants"
    if 'invalid pixel id' in msg:
        return "wf.ids_valid_integers"
    if 'twice' in msg or 'represented at levels' in msg:
        return "norm.no_patch_of_sky_twice"
    if 'other operand' in msg or 'shared' in msg:
        return "other_operand_view_unchanged"
    if op == 'q_uniq':
        return "uniq.covers_all_levels"
    if op == 'q_area':
        return "get_area"
    return "view_is_set_operation"


def crosscheck(p):
    rnd = random.Random(p.get("seed", 0))
    thorough = p.get("tier") == "thorough"
    failures, seen, evals = [], set(), 0
    hists = []
    # bounded-exhaustive: all sequences of length <= 3 over a small alphabet at depth 2 (and depth 1)
    small = ['add_pixels', 'union_same', 'without', 'q_demoted', 'union_finer', 'q_uniq', 'intersect']
    for L in (1, 2, 3):
        for h in itertools.product(small, repeat=L):
            hists.append((list(h), 2 if L > 1 else 1))
    # directed: a cached query followed by a change that keeps the pixel count; whole base pixels
    for D_ in (1, 2, 3):
        hists.append((['add_pixels', 'q_within', 'swap_same_count', 'q_within', 'q_demoted'], D_))
        hists.append((['add_circle', 'q_within', 'swap_same_count', 'q_within', 'swap_same_count', 'q_within'], D_))
        hists.append((['fill_base', 'q_demoted', 'q_area', 'q_within', 'fill_base', 'q_demoted', 'q_uniq'], D_))
        hists.append((['add_pixels', 'fill_base', 'without', 'fill_base', 'q_demoted', 'q_within'], D_))
    for _ in range(150 if not thorough else 3000):
        L = rnd.randint(3, 12)
        hists.append(([rnd.choice(OPS) for _ in range(L)], rnd.randint(1, 5)))
    for i, (h, D) in enumerate(hists):
        evals += 1
        res = run_history(h, D, seed=p.get("seed", 0) * 100003 + i)
        if res:
            step, op, msg = res
            lab = label_for(op, msg)
            if lab not in seen:
                seen.add(lab)
                failures.append({"label": lab, "input": {"history": h[:step + 1], "depth": D, "seed": p.get("seed", 0) * 100003 + i},
                                 "what": "step %d (%s): %s" % (step, op, msg), "replay_func": "replay_history",
                                 "replay_payload": {"cases": [[h[:step + 1], D, p.get("seed", 0) * 100003 + i]]}})
    return {"evaluations": evals, "failures": failures,
            "rule": "all histories of length<=3 over %d operations at depth 2 + random histories (length 3..12, depth 1..5) "
                    "against a frozenset reference model; WF, view, area, frame and cache checks after every step" % len(small)}


def replay_history(p):
    cases = p.get("cases")
    bad = []
    if cases:
        for h, D, seed in cases:
            res = run_history(h, D, seed)
            if res:
                bad.append({"history": h, "depth": D, "seed": seed, "what": "step %d (%s): %s" % res})
    else:
        rnd = random.Random(11)
        for i in range(4000):
            L = rnd.randint(1, 8)
            h = [rnd.choice(OPS) for _ in range(L)]
            D = rnd.randint(1, 4)
            res = run_history(h, D, i)
            if res:
                bad.append({"history": h[:res[0] + 1], "depth": D, "seed": i, "what": "step %d (%s): %s" % res})
                if len(bad) >= 3:
                    break
    return {"fails": bool(bad), "observed": bad[:3], "replay_func": "replay_history",
            "replay_payload": {"cases": [[b["history"], b["depth"], b["seed"]] for b in bad[:3]]}}
