"""C02 / C11 native cross-check: real find_islands against an independent flood-fill reference."""
import random

import numpy as np
from astropy.wcs import WCS

from AegeanTools import source_finder as sf
from AegeanTools.regions import Region


class Helper:
    def __init__(self, w):
        self.wcs = w


def reference_islands(im, bkg, rms, seed, flood):
    """8-connected components of finite |snr| >= flood having an own pixel with |snr| > seed (pure python flood fill)"""
    with np.errstate(all='ignore'):
        snr = np.abs(im - bkg) / rms
    a = np.isfinite(snr) & (snr >= flood)
    seen = np.zeros(a.shape, dtype=bool)
    comps = []
    for r in range(a.shape[0]):
        for c in range(a.shape[1]):
            if a[r, c] and not seen[r, c]:
                stack, comp = [(r, c)], []
                seen[r, c] = True
                while stack:
                    y, x = stack.pop()
                    comp.append((y, x))
                    for dy in (-1, 0, 1):
                        for dx in (-1, 0, 1):
                            yy, xx = y + dy, x + dx
                            if 0 <= yy < a.shape[0] and 0 <= xx < a.shape[1] and a[yy, xx] and not seen[yy, xx]:
                                seen[yy, xx] = True
                                stack.append((yy, xx))
                comps.append(comp)
    return [frozenset(c) for c in comps if any(snr[p] > seed for p in c)], snr


def island_pixels(isl):
    (x0, x1), (y0, y1) = isl.bounding_box
    m = np.array(isl.mask)
    if m.shape != (x1 - x0, y1 - y0):
        return None
    return frozenset((int(x0 + r), int(y0 + c)) for r, c in zip(*np.where(~m)))


def make_image(rnd, shape):
    im = np.array([[rnd.gauss(0, 1) for _ in range(shape[1])] for _ in range(shape[0])])
    kind = rnd.random()
    # blobs of various shapes: compact, diagonal lines, L shapes, nested
    for _ in range(rnd.randint(1, 5)):
        r, c = rnd.randrange(shape[0]), rnd.randrange(shape[1])
        amp = rnd.choice([4.5, 6.0, 10.0, -8.0])
        L = rnd.randint(1, 6)
        dr, dc = rnd.choice([(0, 1), (1, 0), (1, 1), (1, -1)])
        for k in range(L):
            rr, cc = r + k * dr, c + k * dc
            if 0 <= rr < shape[0] and 0 <= cc < shape[1]:
                im[rr, cc] = amp
    if rnd.random() < 0.4 and min(shape) >= 4:
        # an extended source: a filled block (it has interior pixels)
        h_, w_ = rnd.randint(3, min(6, shape[0])), rnd.randint(3, min(6, shape[1]))
        r0, c0 = rnd.randint(0, shape[0] - h_), rnd.randint(0, shape[1] - w_)
        im[r0:r0 + h_, c0:c0 + w_] = rnd.choice([7.0, 12.0, -9.0])
    im = np.round(im * 2) / 2          # ties at the thresholds
    for _ in range(rnd.randint(0, 4)):
        im[rnd.randrange(shape[0]), rnd.randrange(shape[1])] = np.nan
    return im


def case_failures(seed_, with_region):
    rnd = random.Random(seed_)
    shape = (rnd.randint(1, 12), rnd.randint(1, 12))
    im = make_image(rnd, shape)
    bkg = np.zeros(shape) if rnd.random() < 0.6 else np.full(shape, rnd.choice([0.5, -1.0, 5.0]))
    if rnd.random() < 0.3:
        # a pixel whose value is exactly 0 although it is far from the background
        im[rnd.randrange(shape[0]), rnd.randrange(shape[1])] = 0.0
    rms = np.full(shape, rnd.choice([1.0, 0.5]))
    if rnd.random() < 0.4:
        # noise that varies across the image (mosaic seam): peak flux and peak S/N need not coincide
        rms = np.array([[rnd.choice([0.5, 1.0, 2.0]) for _ in range(shape[1])] for _ in range(shape[0])])
    flood = rnd.choice([3.0, 4.0, 4.5])
    seedc = flood + rnd.choice([0.0, 0.5, 1.0, 2.0])
    if rnd.random() < 0.3:
        # pixels a hair (1e-9 relative) on either side of the thresholds: they must be decided in double precision
        for thr in (flood, seedc):
            r_, c_ = rnd.randrange(shape[0]), rnd.randrange(shape[1])
            im[r_, c_] = bkg[r_, c_] + thr * rms[r_, c_] * (1 + rnd.choice([-1e-9, 1e-9]))
    out = []
    ref, snr = reference_islands(im, bkg, rms, seedc, flood)
    region, helper, w = None, None, None
    if with_region:
        w = WCS(naxis=2)
        w.wcs.crpix = [shape[1] / 2.0, shape[0] / 2.0]
        # sometimes a projection that does not cover every pixel (the limb of a SIN hemisphere crosses the image)
        big = rnd.random() < 0.25
        w.wcs.cdelt = [-14.0, 14.0] if big else [-1.0, 1.0]
        # longitudes on both sides of zero: a negative CRVAL1 makes the WCS report negative longitudes
        w.wcs.crval = [rnd.choice([rnd.uniform(10, 350), rnd.uniform(-40, -2), rnd.uniform(-3, 3)]), rnd.uniform(-60, 60)]
        w.wcs.ctype = ["RA---SIN", "DEC--SIN"]
        interior = [p for comp in ref for p in comp
                    if all((p[0] + dr, p[1] + dc) in comp for dr in (-1, 0, 1) for dc in (-1, 0, 1))]
        if interior and rnd.random() < 0.5:
            # a small deep region that lies wholly inside an island, around the centre of one of its interior pixels
            pr, pc = rnd.choice(sorted(interior))
            region = Region(maxdepth=12)
            ra, dec = w.wcs_pix2world(pc, pr, 0)
            if not (np.isfinite(ra) and np.isfinite(dec)):
                ra, dec = w.wcs.crval            # the chosen pixel is off the sky: centre the small region on the reference position
            region.add_circles(np.radians(float(ra)), np.radians(float(dec)), np.radians(0.08))
        else:
            region = Region(maxdepth=8)
            if big:
                ra, dec = w.wcs.crval
                region.add_circles(np.radians(float(ra)), np.radians(float(dec)), np.radians(rnd.uniform(40.0, 80.0)))
            else:
                ra, dec = w.wcs_pix2world(rnd.uniform(-1, shape[1]), rnd.uniform(-1, shape[0]), 0)
                region.add_circles(np.radians(float(ra)), np.radians(float(dec)), np.radians(rnd.uniform(0.7, 4.0)))
        helper = Helper(w)
        keep = []
        for comp in ref:
            pts = np.array(sorted(comp))
            ras, decs = w.wcs_pix2world(pts[:, 1], pts[:, 0], 0)
            # the reference asks with longitudes in [0, 360): the finder may pass the negative ones the WCS reports
            if region.sky_within(np.mod(ras, 360.0), decs, degin=True).any():
                keep.append(comp)
        ref = keep
    im0 = im.copy()
    try:
        isl = sf.find_islands(im, bkg, rms, seed_clip=seedc, flood_clip=flood, region=region, wcs=helper)
    except Exception as e:
        return [("no_exception", "find_islands raised %r" % (e,))]
    if not np.array_equal(im, im0, equal_nan=True):
        out.append(("inputs_not_modified", "the image was modified"))
    got = [island_pixels(i) for i in isl]
    if any(g is None for g in got):
        out.append(("mask_has_the_shape_of_the_box", "an island's mask shape differs from its bounding box"))
        got = [g for g in got if g is not None]
    gs, rs = set(got), set(ref)
    extra, missing = gs - rs, rs - gs
    if extra:
        e = sorted(next(iter(extra)))
        lab = "accepted_island_has_an_own_pixel_inside_region" if with_region and frozenset(e) in set(reference_islands(im0, bkg, rms, seedc, flood)[0]) \
            else "accepted_island_has_an_own_pixel_above_seed"
        out.append((lab, "island %r is reported but fails the rule (seed %.1f, flood %.1f, max |snr| of own pixels %.2f)" % (
            e[:4], seedc, flood, max(snr[p] for p in e))))
    if missing:
        m = sorted(next(iter(missing)))
        out.append(("rejected_label_fails_the_seed_or_region_rule", "island %r satisfies the rule but is not reported" % (m[:4],)))
    if len(got) != len(gs):
        out.append(("at_most_one_island_per_label", "duplicate islands"))
    for g in got:
        for h in got:
            if g is not h and g & h:
                out.append(("mask_false_exactly_on_own_pixels", "two islands share pixels"))
    for i, g in zip(isl, [island_pixels(i) for i in isl]):
        if g:
            rr = [p[0] for p in g]
            cc = [p[1] for p in g]
            want = [[min(rr), max(rr) + 1], [min(cc), max(cc) + 1]]
            if np.array(i.bounding_box).tolist() != want:
                out.append(("bounding_box_is_the_tight_box_of_own_pixels", "box %r, tight box %r" % (np.array(i.bounding_box).tolist(), want)))
    return out[:4]


def history_failures(seed_):
    """the same Region object is queried, then shrunk (without / intersect), then used again"""
    rnd = random.Random(seed_)
    shape = (rnd.randint(6, 12), rnd.randint(6, 12))
    im = make_image(rnd, shape)
    bkg, rms = np.zeros(shape), np.ones(shape)
    flood, seedc = 4.0, 5.0
    w = WCS(naxis=2)
    w.wcs.crpix = [shape[1] / 2.0, shape[0] / 2.0]
    w.wcs.cdelt = [-1.0, 1.0]
    w.wcs.crval = [rnd.uniform(10, 350), rnd.uniform(-60, 60)]
    w.wcs.ctype = ["RA---SIN", "DEC--SIN"]
    region = Region(maxdepth=8)
    ra, dec = w.wcs_pix2world(shape[1] / 2.0, shape[0] / 2.0, 0)
    region.add_circles(np.radians(float(ra)), np.radians(float(dec)), np.radians(20.0))
    helper = Helper(w)
    sf.find_islands(im, bkg, rms, seed_clip=seedc, flood_clip=flood, region=region, wcs=helper)     # fills any cache
    hole = Region(maxdepth=8)
    ra2, dec2 = w.wcs_pix2world(rnd.uniform(0, shape[1]), rnd.uniform(0, shape[0]), 0)
    hole.add_circles(np.radians(float(ra2)), np.radians(float(dec2)), np.radians(rnd.uniform(2.0, 5.0)))
    if rnd.random() < 0.5:
        region.without(hole)
    else:
        region.intersect(hole)
    ref, snr = reference_islands(im, bkg, rms, seedc, flood)
    keep = []
    for comp in ref:
        pts = np.array(sorted(comp))
        ras, decs = w.wcs_pix2world(pts[:, 1], pts[:, 0], 0)
        fresh = Region(maxdepth=8)
        fresh.pixeldict = {d: set(v) for d, v in region.pixeldict.items()}
        if fresh.sky_within(ras, decs, degin=True).any():
            keep.append(comp)
    isl = sf.find_islands(im, bkg, rms, seed_clip=seedc, flood_clip=flood, region=region, wcs=helper)
    got = set(island_pixels(i) for i in isl)
    if got != set(keep):
        return [("region_answers_follow_region_changes",
                 "after the region was changed, %d islands are returned where %d have a pixel inside the new region" % (
                     len(got), len(keep)))]
    return []


def crosscheck(p, with_region=False):
    n = 150 if p.get("tier") != "thorough" else 3000
    s0 = p.get("seed", 0) * 100000
    failures, seen, evals = [], set(), 0
    for i in range(n):
        evals += 1
        for lab, what in case_failures(s0 + i, with_region):
            if lab not in seen:
                seen.add(lab)
                failures.append({"label": lab, "input": {"seed": s0 + i, "with_region": with_region}, "what": what,
                                 "replay_func": "replay_islands", "replay_payload": {"cases": [[s0 + i, with_region]]}})
    if with_region:
        for i in range(max(10, n // 6)):
            evals += 1
            for lab, what in history_failures(s0 + i):
                if lab not in seen:
                    seen.add(lab)
                    failures.append({"label": lab, "input": {"history_seed": s0 + i}, "what": what,
                                     "replay_func": "replay_islands", "replay_payload": {"histories": [s0 + i]}})
    return {"evaluations": evals, "failures": failures,
            "rule": "random small images (1x1..12x12, NaNs, ties at thresholds, diagonal/L-shaped/nested blobs, nonzero bkg, exact "
                    "zeros) against a pure-python 8-connected flood fill%s" % (" + WCS/circle region filter" if with_region else "")}


def replay_islands(p):
    cases = p.get("cases") or ([] if p.get("histories") else [[s, r] for s in range(400) for r in (False,)])
    bad = []
    for s in p.get("histories") or []:
        fl = history_failures(s)
        if fl:
            bad.append({"seed": s, "with_region": "history", "what": fl})
    for s, r in cases:
        fl = case_failures(s, r)
        if fl:
            bad.append({"seed": s, "with_region": r, "what": fl})
            if len(bad) >= 2:
                break
    return {"fails": bool(bad), "observed": bad, "replay_func": "replay_islands",
            "replay_payload": {"cases": [[b["seed"], b["with_region"]] for b in bad]}}
