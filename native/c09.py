"""C09 native cross-check: real circles / polygons against angular distances."""
import random

import healpy as hp
import numpy as np

from AegeanTools.regions import Region
from AegeanTools.angle_tools import gcd


def sep_deg(ra1, d1, ra2, d2):
    v1 = hp.ang2vec(np.radians(90 - d1), np.radians(ra1))
    v2 = hp.ang2vec(np.radians(90 - d2), np.radians(ra2))
    c = np.cross(v1, v2)
    return np.degrees(np.arctan2(np.sqrt((c * c).sum(-1)), (v1 * v2).sum(-1)))


def circle_failures(seed):
    rnd = random.Random(seed)
    depth = rnd.randint(3, 9)
    ra = rnd.choice([0.0, 359.99, rnd.uniform(0, 360)])
    dec = rnd.choice([90.0, -90.0, 89.5, rnd.uniform(-89, 89)])
    rad = 10 ** rnd.uniform(-1.5, 1.6)
    maxd = rnd.choice([depth, depth + 1])
    reg = Region(maxdepth=maxd)
    vector_form = rnd.random() < 0.5
    if vector_form:
        # concentric circles, the larger one first or second
        radii = [rad, rad * 0.5] if rnd.random() < 0.5 else [rad * 0.5, rad]
        reg.add_circles(np.radians([ra, ra]), np.radians([dec, dec]), np.radians(radii), depth=depth)
    else:
        reg.add_circles(np.radians(ra), np.radians(dec), np.radians(rad), depth=depth)
    pixsize = np.degrees(hp.nside2resol(2 ** depth))
    out = []
    n = 300
    u = np.array([rnd.random() for _ in range(n)])
    rr = np.concatenate([rad * np.sqrt(u[:n // 2]), rad + pixsize * (3.01 + 5 * u[n // 2:])])
    th = np.array([rnd.uniform(0, 360) for _ in range(n)])
    from AegeanTools.angle_tools import translate
    pra, pdec = translate(ra, min(max(dec, -89.9999), 89.9999), rr, th)
    pra = np.mod(pra, 360)
    d = sep_deg(ra, dec, pra, pdec)
    for degin in (True, False):
        if degin:
            ans = reg.sky_within(pra, pdec, degin=True)
        else:
            ans = reg.sky_within(np.radians(pra), np.radians(pdec))
        inside_missing = np.where((d <= rad * (1 - 1e-9)) & ~ans)[0]
        far_inside = np.where((d > rad + 3 * pixsize) & ans)[0]
        if len(inside_missing):
            k = inside_missing[0]
            out.append(("cover", "position %.5f deg from the centre (radius %.5f) is not in the region (degin=%s, depth %d)" % (d[k], rad, degin, depth)))
        if len(far_inside):
            k = far_inside[0]
            out.append(("margin", "position %.5f deg from the centre (radius %.5f + 3 pix = %.5f) is in the region" % (d[k], rad, rad + 3 * pixsize)))
    # scalar query and NaN
    a1 = reg.sky_within(ra, dec, degin=True)
    if not (len(a1) == 1 and a1[0]):
        out.append(("cover", "the centre itself is not inside (scalar query)"))
    an = reg.sky_within(np.array([np.nan, ra, ra]), np.array([dec, np.nan, dec]), degin=True)
    if an[0] or an[1] or not an[2]:
        out.append(("nan_is_false", "NaN coordinates answered %r" % (list(an),)))
    # NaN must stay False whatever the region covers (poles, RA=0, dec=0 are where a zero-filled NaN would land)
    wide = Region(maxdepth=6)
    wide.add_circles(np.radians([0.0, 0.0, 0.0, ra]), np.radians([90.0, -90.0, 0.0, 0.0]), np.radians([5.0, 5.0, 5.0, 5.0]))
    wide.add_circles(np.radians(0.0), np.radians(dec), np.radians(5.0))
    an = wide.sky_within(np.array([np.nan, ra, np.nan]), np.array([dec, np.nan, np.nan]), degin=True)
    if an.any():
        out.append(("nan_is_false", "NaN coordinates answered %r for a region covering the poles / RA=0 / dec=0" % (list(an),)))
    # area between caps
    cap = lambda r: 2 * np.pi * (1 - np.cos(np.radians(min(r, 180)))) * (180 / np.pi) ** 2
    area = reg.get_area()
    if not (cap(rad) * (1 - 1e-9) <= area <= cap(rad + 3 * pixsize) * (1 + 1e-9)):
        out.append(("area", "area %.5f not between caps %.5f .. %.5f" % (area, cap(rad), cap(rad + 3 * pixsize))))
    return out[:4]


def poly_failures(seed):
    rnd = random.Random(seed)
    depth = rnd.randint(4, 8)
    c_ra, c_dec = rnd.uniform(0, 360), rnd.uniform(-75, 75)
    nv = rnd.randint(3, 8)
    R = rnd.uniform(1, 12)
    angs = sorted(rnd.uniform(0, 360) for _ in range(nv))
    # keep it convex: vertices on a small circle, angular gaps < 180
    if max(np.diff(angs + [angs[0] + 360])) >= 175:
        return []
    from AegeanTools.angle_tools import translate
    vra, vdec = translate(c_ra, c_dec, R, np.array(angs))
    reg = Region(maxdepth=depth)
    pos = list(zip(np.radians(np.mod(vra, 360))[::-1], np.radians(vdec)[::-1]))
    try:
        reg.add_poly(pos)
    except Exception as e:
        reg = Region(maxdepth=depth)
        try:
            reg.add_poly(pos[::-1])
        except Exception as e2:
            return [("poly", "add_poly raised %r" % (e2,))]
    pixsize = np.degrees(hp.nside2resol(2 ** depth))
    out = []
    # interior points: convex combinations near the centre
    n = 200
    rr = np.array([R * np.cos(np.radians(max(np.diff(angs + [angs[0] + 360])) / 2)) * 0.95 * np.sqrt(rnd.random()) for _ in range(n)])
    th = np.array([rnd.uniform(0, 360) for _ in range(n)])
    pra, pdec = translate(c_ra, c_dec, rr, th)
    ans = reg.sky_within(np.mod(pra, 360), pdec, degin=True)
    if not ans.all():
        out.append(("cover", "%d interior positions of a %d-gon are not in the region" % (int((~ans).sum()), nv)))
    rr = np.array([R + pixsize * (3.01 + 4 * rnd.random()) for _ in range(n)])
    pra, pdec = translate(c_ra, c_dec, rr, th)
    ans = reg.sky_within(np.mod(pra, 360), pdec, degin=True)
    if ans.any():
        out.append(("margin", "%d positions farther than 3 pixels outside the circumscribed circle are in the region" % int(ans.sum())))
    return out


def concentric_failures():
    """vector input with repeated centres: every listed circle must be covered, whatever the order of the radii"""
    out = []
    for ra, dec, radii in ((40.0, -30.0, [1.0, 4.0]), (200.0, 60.0, [2.0, 6.0, 3.0]), (0.0, 0.0, [5.0, 5.0, 0.5, 9.0])):
        reg = Region(maxdepth=7)
        reg.add_circles(np.radians([ra] * len(radii)), np.radians([dec] * len(radii)), np.radians(radii), depth=7)
        big = max(radii)
        from AegeanTools.angle_tools import translate
        for frac in (0.3, 0.6, 0.9, 0.97):
            for th in (10.0, 130.0, 250.0):
                pra, pdec = translate(ra, dec, frac * big, th)
                if not reg.sky_within(float(np.mod(pra, 360)), float(pdec), degin=True)[0]:
                    out.append(("cover", "concentric circles %s at (%g, %g): a position %.2f deg from the centre is not in the region" % (
                        radii, ra, dec, frac * big)))
                    return out
    return out


def crosscheck(p):
    n = 25 if p.get("tier") != "thorough" else 400
    s0 = p.get("seed", 0) * 7919
    failures, seen, evals = [], set(), 0
    for i in range(n):
        evals += 1
        for lab, what in circle_failures(s0 + i):
            if lab not in seen:
                seen.add(lab)
                failures.append({"label": lab, "input": {"circle_seed": s0 + i}, "what": what, "replay_func": "replay_cover",
                                 "replay_payload": {"circles": [s0 + i]}})
        evals += 1
        for lab, what in poly_failures(s0 + i):
            if "poly_" + lab not in seen:
                seen.add("poly_" + lab)
                failures.append({"label": "poly_" + lab, "input": {"poly_seed": s0 + i}, "what": what, "replay_func": "replay_cover",
                                 "replay_payload": {"polys": [s0 + i]}})
    evals += 1
    for lab, what in concentric_failures():
        if lab not in seen:
            seen.add(lab)
            failures.append({"label": lab, "input": {"concentric": True}, "what": what, "replay_func": "replay_cover",
                             "replay_payload": {"concentric": True}})
    return {"evaluations": evals, "failures": failures,
            "rule": "concentric vector circles in every order; random circles (poles, RA wrap, radius 0.03-40 deg, depth 3-9, scalar/vector, depth<maxdepth) and convex polygons: "
                    "300 probe positions each, degin True/False, NaN, area between caps"}


def replay_cover(p):
    bad = []
    cs = p.get("circles")
    ps = p.get("polys")
    if p.get("concentric") or (cs is None and ps is None):
        fl = concentric_failures()
        if fl:
            bad.append({"concentric": True, "what": fl})
        if p.get("concentric"):
            return {"fails": bool(bad), "observed": bad, "replay_func": "replay_cover", "replay_payload": {"concentric": True}}
    if cs is None and ps is None:
        cs, ps = list(range(60)), list(range(60))
    for s in cs or []:
        fl = circle_failures(s)
        if fl:
            bad.append({"circle_seed": s, "what": fl})
            break
    for s in ps or []:
        fl = poly_failures(s)
        if fl:
            bad.append({"poly_seed": s, "what": fl})
            break
    return {"fails": bool(bad), "observed": bad, "replay_func": "replay_cover",
            "replay_payload": {"circles": [b["circle_seed"] for b in bad if "circle_seed" in b],
                               "polys": [b["poly_seed"] for b in bad if "poly_seed" in b]}}
