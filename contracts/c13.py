"""C13 — sign symmetry and polarity filters of the source finder (AegeanTools/source_finder.py).

Relational (two-run) contracts: the real statements are executed twice on the same path, once on an image and once on its
negation (data -> -data, bkg -> -bkg, curvature -> -curvature, rms unchanged), and the two results are compared.
  filter          : the polarity filter keeps a row iff not (peak > 0 and nopositive) and not (peak < 0 and nonegative);
                    hence positive-only rows have no negative peak, negative-only no positive peak, a row kept by both
                    has a peak that is neither > 0 nor < 0, and positive-only U negative-only = both-polarities;
  snr             : the detection statistic of find_islands and _gen_flood_wrap is the same for both images;
  polarity class  : estimate_lmfit_parinfo classifies the negated island with the opposite polarity
                    (KNOWN FINDING: false for islands holding pixels of both signs);
  summit selection: kappa_sigma of the negated island = -kappa_sigma, pixel by pixel (same blanks);
  summit -> params: for the same summit the second run adds amp = -amp with mirrored bounds (min' = -max, max' = -min) and
                    identical position / shape / flags / vary, or both runs skip the summit;
  components      : result_to_components: peak' = -peak, int_flux' = -int_flux, all else equal (lemma over the C03 contract).
NOT decided: that lmfit returns mirrored optima for mirrored problems (native cross-check on real runs).
"""
import ast

import z3

from pyvc.engine import (Ctx, PyObj, Model, Namespace, Obj, run_stmts, find_function, Env, Undecided, PyRaise, LoopSpec, SeqList,
                         Opaque, unparse, ExcValue)
from pyvc.values import Sym, And, Or, Not, Implies, ite, NaN, NaNType
from pyvc import lib
from contracts.models import PNAMES
from contracts.arrays import SArr, reset_uids, uid, np_where3
from contracts.c05 import AddParams

PROPERTY = "C13"
FILE = "AegeanTools/source_finder.py"
QE = "SourceFinder.estimate_lmfit_parinfo"

ASSUMPTIONS = [
    "the optimiser is equivariant under (data, amp, amp bounds) -> (-data, -amp, mirrored bounds): assumed (lmfit); cross-checked on real runs",
    "maximum_filter / minimum_filter curvature of the negated image is the negated curvature except on exactly flat 3x3 plateaus (not modelled)",
    "nanmax(-S) = -nanmin(S), nanargmax(-S) = nanargmin(S) (numpy reductions, first occurrence on ties)",
    "a summit of a single-signed island has the island's sign (it is a selection of its pixels)",
    "floats as reals",
]

R = z3.RealSort()
I = z3.IntSort()
FLAGS = Namespace('flags', FITERRSMALL=1, FITERR=2, FIXED2PSF=4, FIXEDCIRCULAR=8, NOTFIT=16, WCSERR=32, PRIORIZED=64)


def sym(n):
    return Sym(z3.Real(n), True)


# ---------------------------------------------------------------------------
# polarity filter
# ---------------------------------------------------------------------------

def t_filter(ctx):
    fn = find_function(FILE, 'SourceFinder.find_sources_in_image')
    loop = None
    for node in ast.walk(fn):
        if isinstance(node, ast.For) and unparse(node.iter) == 'srcs' and unparse(node.target) == 'src':
            loop = node
    if loop is None:
        raise Undecided("polarity filter loop not found")
    ctx.info = ctx.session.register_function(FILE, 'SourceFinder.find_sources_in_image', fn, mode="region")
    peak_nan = ctx.free_branch()
    peak = NaN if peak_nan else sym('peak_flux')

    def run(nopos, noneg):
        kept = []

        class L(PyObj):
            def getattr_(s, c, name):
                if name == 'append':
                    return Model(lambda c2, x: kept.append(x), 'append')
                raise Undecided("list." + name)
        src = Obj('ComponentSource', peak_flux=peak)
        env = Env({'src': src, 'nopositive': nopos, 'nonegative': noneg, 'sources': L()})
        ctx.interp.relpath = FILE
        from pyvc.engine import _Continue
        try:
            ctx.interp.exec_block(loop.body, env)
        except _Continue:
            pass
        if len(kept) > 1 or (kept and kept[0] is not src):
            raise Undecided("filter body appends something else than the row")
        return bool(kept)
    both = run(False, False)
    pos_only = run(False, True)
    neg_only = run(True, False)
    none = run(True, True)
    gt0 = False if peak_nan else peak > 0
    lt0 = False if peak_nan else peak < 0
    ctx.oblige("post", "filter.both_polarities_keeps_every_row", both)
    ctx.oblige("post", "filter.positive_only_has_no_negative_peak", Implies(pos_only, Not(lt0)))
    ctx.oblige("post", "filter.negative_only_has_no_positive_peak", Implies(neg_only, Not(gt0)))
    ctx.oblige("post", "filter.positive_only_keeps_every_positive_row", Implies(gt0, pos_only))
    ctx.oblige("post", "filter.negative_only_keeps_every_negative_row", Implies(lt0, neg_only))
    ctx.oblige("post", "filter.row_in_both_single_polarity_catalogues_has_no_sign", Implies(And(pos_only, neg_only), And(Not(gt0), Not(lt0))))
    ctx.oblige("post", "filter.union_of_single_polarity_catalogues_is_the_both_catalogue", Or(pos_only, neg_only) == both)


# ---------------------------------------------------------------------------
# detection statistic
# ---------------------------------------------------------------------------

def t_snr(ctx):
    reset_uids()
    shape = (Sym(z3.Int('R')), Sym(z3.Int('C')))
    ctx.assume(And(shape[0] >= 1, shape[1] >= 1))
    im, bkg, rms = [SArr.fresh(n, shape, with_nan=True) for n in ('im', 'bkg', 'rms')]
    r_, c_ = Sym(z3.Int('r')), Sym(z3.Int('c'))
    ctx.assume(And(r_ >= 0, r_ < shape[0], c_ >= 0, c_ < shape[1]))
    for qn, names in (('find_islands', ('im', 'bkg', 'rms')), ('SourceFinder._gen_flood_wrap', ('data', None, 'rmsimg'))):
        fn = find_function(FILE, qn)
        st = [s for s in fn.body if isinstance(s, ast.Assign) and unparse(s.targets[0]) == 'snr']
        if len(st) != 1:
            raise Undecided("%s: snr statement not found" % qn)
        outs = []
        for sign in (1, -1):
            env = {names[0]: im if sign == 1 else ctx.interp.binop('neg', im, None) if False else _neg(ctx, im), names[2]: rms}
            if names[1]:
                env[names[1]] = bkg if sign == 1 else _neg(ctx, bkg)
            out = run_stmts(ctx, FILE, qn, st, env, globals_={'np': lib.std_np()}, region_desc="the detection statistic")
            outs.append(out.env.lookup('snr'))
        a, b = outs
        if not (isinstance(a, SArr) and isinstance(b, SArr)):
            raise Undecided("snr is not an array")
        ctx.oblige("post", "snr.%s_same_for_the_negated_image" % qn.split('.')[-1],
                   And(a.at((r_, c_)) == b.at((r_, c_)), Sym(Sym.lift(a.isnan((r_, c_))) == Sym.lift(b.isnan((r_, c_))))))


def _neg(ctx, arr):
    b = arr.snapshot()
    return SArr(uid("neg"), b.shape_, lambda idx: -b.at(idx), lambda idx: b.isnan(idx))


# ---------------------------------------------------------------------------
# signed abstract arrays (reductions of an array and of its negation)
# ---------------------------------------------------------------------------

class SgnArr(PyObj):
    """an array known only through its reductions; `sign` = -1 stands for the negated array"""
    typename = 'ndarray'

    def __init__(self, name, sign, shape, box=None, kind='val'):
        self.name, self.sign, self.shape_, self.box, self.kind = name, sign, shape, box, kind

    def key(self):
        return self.name + ("" if self.box is None else "[" + ",".join(str(Sym.lift(b)) for b in self.box) + "]")

    def getattr_(self, ctx, name):
        if name == 'shape':
            return self.shape_
        raise PyRaise(ExcValue('AttributeError', (name,)))

    def getitem_(self, ctx, k):
        if isinstance(k, FiniteMask) and k.arr is self:
            return self
        if isinstance(k, tuple) and len(k) == 2 and all(isinstance(s, slice) for s in k):
            box = (k[0].start, k[0].stop, k[1].start, k[1].stop)
            return SgnArr(self.name, self.sign, (k[0].stop - k[0].start, k[1].stop - k[1].start), box, self.kind)
        if isinstance(k, tuple) and len(k) == 2 and all(isinstance(s, (int, Sym)) for s in k):
            f = z3.Function('px_' + self.name, I, I, R)
            v = Sym(f(Sym.lift(k[0]), Sym.lift(k[1])), True)
            if self.kind == 'rms':
                ctx.assume(v > 0)
            return v * self.sign if self.sign == -1 else v
        raise Undecided("index of abstract array")

    def binop_(self, ctx, op, other, swapped):
        if op == 'truediv' and isinstance(other, SgnArr) and not swapped and other.kind == 'rms':
            return SgnArr(self.name + "/" + other.key(), self.sign, self.shape_, self.box, 'ratio')
        if op == 'mul' and isinstance(other, (int, float)) and other in (-1, -1.0, 1, 1.0):
            return SgnArr(self.name, self.sign * int(other), self.shape_, self.box, self.kind)
        return NotImplemented

    def abs_(self, ctx):
        return SgnArr("abs(" + self.name + ")", 1, self.shape_, self.box, 'abs')


class FiniteMask(PyObj):
    def __init__(self, arr):
        self.arr = arr


def red(name, arr):
    return Sym(z3.Real("%s_%s" % (name, arr.key())), True)


def m_nanmax(c, a):
    if isinstance(a, SgnArr):
        return red('nanmax', a) if a.sign == 1 else -red('nanmin', a)
    raise Undecided("nanmax of %s" % type(a).__name__)


def m_nanmin(c, a):
    if isinstance(a, SgnArr):
        return red('nanmin', a) if a.sign == 1 else -red('nanmax', a)
    raise Undecided("nanmin of %s" % type(a).__name__)


def m_argmax(c, a):
    if isinstance(a, SgnArr):
        return Sym(z3.Int("%s_%s" % ('argmax' if a.sign == 1 else 'argmin', a.key())))
    raise Undecided("nanargmax")


def m_argmin(c, a):
    if isinstance(a, SgnArr):
        return Sym(z3.Int("%s_%s" % ('argmin' if a.sign == 1 else 'argmax', a.key())))
    raise Undecided("nanargmin")


def m_abs(c, a):
    if isinstance(a, SgnArr):
        return a.abs_(c)
    return lib.m_abs(c, a)


def m_unravel(c, k, shape):
    return (k // shape[1], k % shape[1])


def np_model():
    return lib.std_np(nanmax=Model(m_nanmax), nanmin=Model(m_nanmin), nanargmax=Model(m_argmax), nanargmin=Model(m_argmin),
                      unravel_index=Model(m_unravel), abs=Model(m_abs),
                      isfinite=Model(lambda c, x: FiniteMask(x) if isinstance(x, SgnArr) else lib.m_isfinite(c, x)),
                      all=Model(lambda c, x: And(*[v for v in x if isinstance(v, Sym)]) if all(isinstance(v, (Sym, bool)) for v in x) and all(v is not False for v in x) else False))


# ---------------------------------------------------------------------------
# polarity class of the island
# ---------------------------------------------------------------------------

def t_polarity_class(ctx):
    fn = find_function(FILE, QE)
    st = [s for s in fn.body if isinstance(s, ast.Assign) and unparse(s.targets[0]) == 'isnegative']
    if len(st) != 1:
        raise Undecided("isnegative statement not found")
    shape = (Sym(z3.Int('R')), Sym(z3.Int('C')))
    res = []
    for sign in (1, -1):
        data = SgnArr('island', sign, shape)
        out = run_stmts(ctx, FILE, QE, st, {'data': data}, globals_={'np': np_model()}, region_desc="polarity class of the island")
        res.append(out.env.lookup('isnegative'))
    a, b = res
    mx, mn = red('nanmax', SgnArr('island', 1, shape)), red('nanmin', SgnArr('island', 1, shape))
    ctx.assume(mn <= mx)
    # every pixel of an island has |data| > outerclip * rms > 0: no pixel is zero
    ctx.assume(And(mn != 0, mx != 0))
    ctx.oblige("post", "polarity_class.single_signed_island_is_classified_opposite_when_negated",
               Implies(Or(mn > 0, mx < 0), Sym(Sym.lift(b) == z3.Not(Sym.lift(a)))))
    ctx.oblige("post", "polarity_class.negated_island_is_classified_opposite", Sym(Sym.lift(b) == z3.Not(Sym.lift(a))))


# ---------------------------------------------------------------------------
# summit selection (kappa_sigma), pixel by pixel
# ---------------------------------------------------------------------------

def t_summit_selection(ctx):
    reset_uids()
    fn = find_function(FILE, QE)
    target = None
    for node in ast.walk(fn):
        if isinstance(node, ast.If) and unparse(node.test) == 'isnegative' and any(
                isinstance(s, ast.Assign) and unparse(s.targets[0]) == 'kappa_sigma' for s in node.body):
            target = node
    if target is None:
        raise Undecided("kappa_sigma selection not found")
    shape = (Sym(z3.Int('R')), Sym(z3.Int('C')))
    ctx.assume(And(shape[0] >= 1, shape[1] >= 1))
    data = SArr.fresh('data', shape, with_nan=True)
    curve = SArr.fresh('curve', shape, sort='int')
    rms = SArr.fresh('rms', shape)
    oc = sym('outerclip')
    r_, c_ = Sym(z3.Int('r')), Sym(z3.Int('c'))
    ctx.assume(And(r_ >= 0, r_ < shape[0], c_ >= 0, c_ < shape[1], oc > 0, rms.at((r_, c_)) > 0))
    outs = []
    g = {'np': lib.std_np(where=Model(np_where3))}
    for sign in (1, -1):
        isneg = ctx.free_branch() if sign == 1 else (not outs[0][1])
        env = {'isnegative': isneg, 'data': data if sign == 1 else _neg(ctx, data), 'curve': curve if sign == 1 else _neg(ctx, curve),
               'rmsimg': rms, 'outerclip': oc}
        out = run_stmts(ctx, FILE, QE, [target], env, globals_=g, region_desc="summit selection (kappa_sigma)")
        outs.append((out.env.lookup('kappa_sigma'), isneg))
    k1, k2 = outs[0][0], outs[1][0]
    p = (r_, c_)
    ctx.oblige("post", "summit_selection.negated_island_selects_the_same_pixels_with_negated_values",
               And(Sym(Sym.lift(k1.isnan(p)) == Sym.lift(k2.isnan(p))), Implies(Not(k1.isnan(p)), k2.at(p) == -k1.at(p))))


# ---------------------------------------------------------------------------
# summit -> parameters
# ---------------------------------------------------------------------------

def t_summit_params(ctx):
    fn = find_function(FILE, QE)
    loop = None
    for node in fn.body:
        if isinstance(node, ast.For) and 'summits' in unparse(node.iter):
            loop = node
    if loop is None:
        raise Undecided("summit loop not found")
    shape = (Sym(z3.Int('R')), Sym(z3.Int('C')))
    sshape = (Sym(z3.Int('SR')), Sym(z3.Int('SC')))
    box = [Sym(z3.Int(n)) for n in ('xmin', 'xmax', 'ymin', 'ymax')]
    ctx.assume(And(shape[0] >= 1, shape[1] >= 1, sshape[0] >= 1, sshape[1] >= 1, box[0] >= 0, box[2] >= 0))
    i0 = Sym(z3.Int('i'))
    ctx.assume(i0 >= 0)
    isflag = ctx.choice(3, "island flag")          # 0, FIXED2PSF, FITERRSMALL|FIXED2PSF (what the head can produce)
    isflag = [0, 4, 5][isflag]
    ms_none = ctx.free_branch()
    max_summits = None if ms_none else Sym(z3.Int('max_summits'))
    innerclip, outerclip = sym('innerclip'), sym('outerclip')
    ctx.assume(And(innerclip > 0, outerclip > 0, outerclip <= innerclip))
    PIX = [z3.Function('pixbeam_' + q, R, R, R) for q in ('a', 'b', 'pa')]
    psf_bad = ctx.free_branch()

    def pix2pix(c, s, x, y):
        if psf_bad:
            return (NaN, NaN, NaN)
        xe, ye = [z3.ToReal(Sym.lift(v)) if z3.is_int(Sym.lift(v)) else Sym.lift(v) for v in (x, y)]
        a, b, pa = [Sym(f(xe, ye), True) for f in PIX]
        c.assume(And(a > 0, b > 0))
        return (a, b, pa)
    psf = Obj('PSFHelper')
    psf.methods['get_psf_pix2pix'] = pix2pix
    gd = Obj('gd', psfhelper=psf)
    F2C = sym('FWHM2CC')
    ctx.assume(F2C > 0)
    g = {'np': np_model(), 'flags': FLAGS, 'Beam': Model(lambda c, a, b, pa: Obj('Beam', a=a, b=b, pa=pa), 'Beam'),
         'FWHM2CC': F2C, 'CC2FHWM': sym('CC2FHWM'), 'math': Namespace('math', sqrt=Model(lib.m_sqrt)), 'abs': Model(m_abs)}
    isneg1 = ctx.free_branch()
    S = SgnArr('summit', 1, sshape)
    mx, mn = red('nanmax', S), red('nanmin', S)
    # a summit of a single-signed island has the island's sign
    ctx.assume(And(mn <= mx, (mx < 0) if isneg1 else (mn > 0)))
    am, an = m_argmax(ctx, S), m_argmin(ctx, S)
    ctx.assume(And(am >= 0, am < sshape[0] * sshape[1], an >= 0, an < sshape[0] * sshape[1]))
    runs = []
    for sign in (1, -1):
        P = AddParams('P%d' % (1 if sign == 1 else 2), i0)
        env = {'self': Obj('self', log=Namespace('log'), global_data=gd), 'global_data': gd,
               'summit': SgnArr('summit', sign, sshape), 'xmin': box[0], 'xmax': box[1], 'ymin': box[2], 'ymax': box[3],
               'data': SgnArr('island', sign, shape), 'rmsimg': SgnArr('rmsimg', 1, shape, kind='rms'),
               'isnegative': isneg1 if sign == 1 else (not isneg1), 'innerclip': innerclip, 'outerclip': outerclip,
               'offsets': (Sym(z3.Int('off0')), Sym(z3.Int('off1'))), 'max_summits': max_summits, 'i': i0, 'params': P,
               'is_flag': isflag, 'summits_considered': Sym(z3.Int('considered')), 'debug_on': False}
        out = run_stmts(ctx, FILE, QE, loop.body, env, globals_=g, region_desc="one summit -> initial parameters and bounds")
        runs.append((out, P))
    (o1, P1), (o2, P2) = runs
    if o1.kind == 'raise' or o2.kind == 'raise':
        ctx.oblige("post", "summit_params.both_runs_raise_or_neither", o1.kind == o2.kind)
        return
    ctx.oblige("post", "summit_params.both_runs_skip_the_summit_or_neither", (o1.kind == 'continue') == (o2.kind == 'continue'))
    if o1.kind == 'continue' or o2.kind == 'continue':
        return
    V = lambda P, f, pn: P.sym(f, i0, pn)
    ctx.oblige("post", "summit_params.amplitude_is_negated_with_mirrored_bounds",
               And(V(P2, 'value', 'amp') == -V(P1, 'value', 'amp'), V(P2, 'min', 'amp') == -V(P1, 'max', 'amp'),
                   V(P2, 'max', 'amp') == -V(P1, 'min', 'amp')))
    same = []
    for pn in ('xo', 'yo', 'sx', 'sy', 'theta'):
        same.append(V(P2, 'value', pn) == V(P1, 'value', pn))
        if pn != 'theta':
            same += [V(P2, 'min', pn) == V(P1, 'min', pn), V(P2, 'max', pn) == V(P1, 'max', pn)]
    ctx.oblige("post", "summit_params.position_and_shape_start_values_and_bounds_are_the_same", And(*same))
    ctx.oblige("post", "summit_params.same_parameters_free_and_same_flags",
               And(*([V(P2, 'vary', pn) == V(P1, 'vary', pn) for pn in PNAMES] + [V(P2, 'value', 'flags') == V(P1, 'value', 'flags')])))
    ctx.oblige("post", "summit_params.component_counter_advances_alike", o1.env.lookup('i') == o2.env.lookup('i'))
    ctx.oblige("post", "summit_params.same_parameters_added", [x[1] for x in P1.added] == [x[1] for x in P2.added])


# ---------------------------------------------------------------------------
# order of the summits
# ---------------------------------------------------------------------------

def t_sort_key(ctx):
    fn = find_function(FILE, QE)
    loop = None
    for node in fn.body:
        if isinstance(node, ast.For) and 'summits' in unparse(node.iter):
            loop = node
    if loop is None:
        raise Undecided("summit loop not found")
    it = loop.iter
    if not (isinstance(it, ast.Call) and getattr(it.func, 'id', '') == 'sorted' and unparse(it.args[0]) == 'summits'):
        raise Undecided("summit loop does not iterate sorted(summits, ...)")
    ctx.info = ctx.session.register_function(FILE, QE, fn, mode="region")
    keyf = [k.value for k in it.keywords if k.arg == 'key']
    rev = [k.value for k in it.keywords if k.arg == 'reverse']
    sshape = (Sym(z3.Int('SR')), Sym(z3.Int('SC')))
    S = SgnArr('summit', 1, sshape)
    mx, mn = red('nanmax', S), red('nanmin', S)
    ctx.assume(mn <= mx)
    ctx.assume(Or(mn > 0, mx < 0))
    A = SgnArr('abs(summit)', 1, sshape, kind='abs')
    # |S| reductions in terms of S for a single-signed summit
    ctx.assume(And(red('nanmax', A) == ite(mn > 0, mx, -mn), red('nanmin', A) == ite(mn > 0, mn, -mx)))
    ctx.interp.relpath = FILE
    vals = []
    for sign in (1, -1):
        env = Env({'np': np_model(), 'abs': Model(m_abs)})
        item = [SgnArr('summit', sign, sshape), 0, 1, 0, 1]
        if keyf:
            f = ctx.interp.eval(keyf[0], env)
            vals.append(ctx.interp.call(f, [item], {}))
        else:
            raise Undecided("summits sorted without a key")
    ctx.oblige("post", "summit_order.sort_key_is_the_same_for_the_negated_summit", vals[0] == vals[1])


# ---------------------------------------------------------------------------
# background subtraction in load_globals
# ---------------------------------------------------------------------------

def t_background(ctx):
    reset_uids()
    qn = 'SourceFinder.load_globals'
    fn = find_function(FILE, qn)
    a = next((k for k, st in enumerate(fn.body) if isinstance(st, ast.If) and 'rmsin and bkgin' in unparse(st.test)), None)
    b = next((k for k, st in enumerate(fn.body) if isinstance(st, ast.Assign) and unparse(st.targets[0]) == 'self.global_data.blank'), None)
    if a is None or b is None or b <= a:
        raise Undecided("load_globals: background region not found")
    stmts = fn.body[a:b]
    shape = (Sym(z3.Int('R')), Sym(z3.Int('C')))
    ctx.assume(And(shape[0] >= 1, shape[1] >= 1))
    img = SArr.fresh('image', shape, with_nan=True)
    img0 = img.snapshot()
    BK = {k: SArr.fresh('bkg_' + k, shape, with_nan=True) for k in ('made', 'file', 'zeros')}
    RM = {k: SArr.fresh('rms_' + k, shape, with_nan=True) for k in ('made', 'file', 'zeros')}
    gd = Obj('GlobalFittingData', img=img, bkgimg=BK['zeros'], rmsimg=RM['zeros'], header=Opaque('header'))
    me = Obj('self', global_data=gd, log=Namespace('log'))

    def mk(c, s, **kw):
        gd.fields['bkgimg'], gd.fields['rmsimg'] = BK['made'], RM['made']
    me.methods['_make_bkg_rms'] = mk
    me.methods['_load_aux_image'] = lambda c, s, im, f: BK['file'] if f == 'bkg.fits' else RM['file']
    bkgin = 'bkg.fits' if ctx.free_branch() else None
    rmsin = 'rms.fits' if ctx.free_branch() else None
    env = {'self': me, 'img': img, 'bkgin': bkgin, 'rmsin': rmsin, 'verb': False, 'debug': False, 'rms': None, 'bkg': None, 'cores': 1,
           'filename': 'im.fits'}
    g = {'np': lib.std_np(nanmax=Model(lambda c, x: c.fresh_real('nanmax')), nanmin=Model(lambda c, x: c.fresh_real('nanmin')),
                          any=Model(lambda c, x: c.free_branch()), all=Model(lambda c, x: c.free_branch()))}
    out = run_stmts(ctx, FILE, qn, stmts, env, globals_=g, region_desc="background / noise maps and the background subtraction")
    if out.kind != 'fallthrough':
        ctx.oblige("safe", "background.no_exception_or_early_exit", False)
        return
    res, bk = gd.fields['img'], gd.fields['bkgimg']
    if not isinstance(res, SArr) or not isinstance(bk, SArr):
        ctx.oblige("post", "background.image_and_background_are_arrays", False)
        return
    r_, c_ = Sym(z3.Int('r')), Sym(z3.Int('c'))
    ctx.assume(And(r_ >= 0, r_ < shape[0], c_ >= 0, c_ < shape[1]))
    p = (r_, c_)
    want_bk = BK['file'] if bkgin else BK['made']
    ctx.oblige("post", "background.map_is_the_file_if_given_else_the_estimate", bk is want_bk)
    ctx.oblige("post", "background.finder_image_is_image_minus_background_at_every_pixel",
               And(Sym(Sym.lift(res.isnan(p)) == Sym.lift(Or(img0.isnan(p), want_bk.isnan(p)))),
                   Implies(Not(res.isnan(p)), res.at(p) == img0.at(p) - want_bk.at(p))))


# ---------------------------------------------------------------------------
# auxiliary maps are loaded as they are; peaks and troughs of the curvature map use the same neighbourhood
# ---------------------------------------------------------------------------

def t_aux_image(ctx):
    reset_uids()
    shape = (Sym(z3.Int('R')), Sym(z3.Int('C')))
    ctx.assume(And(shape[0] >= 1, shape[1] >= 1))
    aux = SArr.fresh('aux_file_data', shape, with_nan=True)
    same_shape = True
    image = Obj('image', shape=shape)
    from pyvc.engine import ExcClass
    g = {'load_image_band': Model(lambda c, f, **kw: (aux, Opaque('header')), 'load_image_band'), 'AegeanError': ExcClass('AegeanError'),
         'np': lib.std_np(abs=Model(m_abs), nan_to_num=Model(lambda c, v, **k: Opaque('nan_to_num')), fabs=Model(m_abs))}
    from pyvc.engine import run_function
    out = run_function(ctx, FILE, 'SourceFinder._load_aux_image', [Obj('self', log=Namespace('log')), image, 'bkg.fits'], globals_=g)
    if not same_shape:
        ctx.oblige("post", "aux_image.shape_mismatch_is_an_error", out.kind == 'raise')
        return
    r_, c_ = Sym(z3.Int('r')), Sym(z3.Int('c'))
    ctx.assume(And(r_ >= 0, r_ < shape[0], c_ >= 0, c_ < shape[1]))
    ok = out.kind == 'return' and isinstance(out.value, SArr)
    ctx.oblige("post", "aux_image.background_and_noise_files_are_used_as_they_are",
               And(out.value.at((r_, c_)) == aux.at((r_, c_)), Sym(Sym.lift(out.value.isnan((r_, c_))) == Sym.lift(aux.isnan((r_, c_)))))
               if ok else False)


def t_curvature(ctx):
    """_fit_island: local maxima and local minima are found with the same neighbourhood on the same pixels, and marked -1 / +1"""
    qn = 'SourceFinder._fit_island'
    fn = find_function(FILE, qn)
    a = next((k for k, st in enumerate(fn.body) if isinstance(st, ast.Assign) and unparse(st.targets[0]) == 'icurve'), None)
    b = next((k for k, st in enumerate(fn.body) if isinstance(st, ast.Assign) and unparse(st.targets[0]) == 'icurve' and
              'icurve[' in unparse(st.value)), None)
    if a is None or b is None or b <= a:
        raise Undecided("_fit_island: curvature region not found")
    calls = []

    class Arr(PyObj):
        def __init__(s, tag):
            s.tag = tag

        def getitem_(s, c, k):
            return Arr((s.tag, 'slice', unparse_key(k)))

        def setitem_(s, c, k, v):
            calls.append(('set', s.tag, k, v))

        def getattr_(s, c, name):
            if name == 'shape':
                return (Sym(z3.Int('ir')), Sym(z3.Int('ic')))
            raise Undecided("array." + name)

        def binop_(s, c, op, other, swapped):
            if op == 'Eq' and isinstance(other, Arr):
                return Arr(('eq', s.tag, other.tag))
            return NotImplemented

    def unparse_key(k):
        return tuple((str(Sym.lift(x.start)) if x.start is not None else None, str(Sym.lift(x.stop)) if x.stop is not None else None)
                     if isinstance(x, slice) else str(x) for x in (k if isinstance(k, tuple) else (k,)))

    def filt(kind):
        def f(c, arr, size=None, footprint=None, **kw):
            calls.append((kind, arr.tag if isinstance(arr, Arr) else None, size, footprint, tuple(sorted(kw))))
            return Arr((kind, arr.tag if isinstance(arr, Arr) else None))
        return Model(f, kind)
    img = Arr('img')
    gd = Obj('gd', img=img)
    xmin, xmax, ymin, ymax = [Sym(z3.Int(n)) for n in ('xmin', 'xmax', 'ymin', 'ymax')]
    g = {'np': lib.std_np(zeros=Model(lambda c, shape=None, dtype=None, **k: Arr('icurve')), where=Model(lambda c, x: ('where', x.tag if isinstance(x, Arr) else None)),
                          int8=Opaque('int8')),
         'maximum_filter': filt('maximum_filter'), 'minimum_filter': filt('minimum_filter')}
    env = {'self': Obj('self', global_data=gd, log=Namespace('log')), 'global_data': gd, 'xmin': xmin, 'xmax': xmax, 'ymin': ymin, 'ymax': ymax,
           'buffx': [Sym(z3.Int('bx0')), Sym(z3.Int('bx1'))], 'buffy': [Sym(z3.Int('by0')), Sym(z3.Int('by1'))]}
    out = run_stmts(ctx, FILE, qn, fn.body[a:b], env, globals_=g, region_desc="curvature map of the island")
    if out.kind != 'fallthrough':
        ctx.oblige("safe", "curvature.no_exception", False)
        return
    mx = [c for c in calls if c[0] == 'maximum_filter']
    mn = [c for c in calls if c[0] == 'minimum_filter']
    ok = len(mx) == 1 and len(mn) == 1
    ctx.oblige("post", "curvature.one_maximum_and_one_minimum_filter", ok)
    if ok:
        ctx.oblige("post", "curvature.peaks_and_troughs_use_the_same_pixels_and_the_same_neighbourhood", mx[0][1:] == mn[0][1:])
    sets = [c for c in calls if c[0] == 'set']
    ok2 = len(sets) == 2 and sets[0][3] == -1 and sets[1][3] == 1 and \
        sets[0][2] == ('where', ('eq', ('maximum_filter', mx[0][1]) if ok else None, mx[0][1] if ok else None)) and \
        sets[1][2] == ('where', ('eq', ('minimum_filter', mn[0][1]) if ok else None, mn[0][1] if ok else None))
    ctx.oblige("post", "curvature.local_maxima_marked_minus_one_local_minima_plus_one_on_the_pixels_they_were_found_on", ok2)


# ---------------------------------------------------------------------------
# components (lemma over the C03 contract of result_to_components)
# ---------------------------------------------------------------------------

def t_components_lemma(ctx):
    amp, sx, sy, k, ba = [sym(n) for n in ('amp', 'sx', 'sy', 'CC2FHWM', 'beam_area_pix')]
    ctx.assume(ba > 0)
    p1, i1, p2, i2 = [sym(n) for n in ('peak1', 'int1', 'peak2', 'int2')]
    # C03 contract, instantiated for amp and for -amp (everything else the same arguments)
    ctx.assume(And(p1 == amp, i1 * ba == p1 * (sx * k) * (sy * k) * Sym(lib.PI, True)))
    ctx.assume(And(p2 == -amp, i2 * ba == p2 * (sx * k) * (sy * k) * Sym(lib.PI, True)))
    ctx.oblige("lemma", "components.fluxes_negated", And(p2 == -p1, i2 == -i1), timeout_ms=30000)


def _find_islands(ctx):
    from contracts import c02
    return c02.t_find_islands(ctx, False)


def _island_loop(ctx):
    from contracts import c03
    return c03.t_blind_numbers(ctx)


def verify(S):
    targets = [("source_finder.SourceFinder.find_sources_in_image[filter]", t_filter),
               ("source_finder.find_islands[snr]", t_snr),
               # the islands depend on |snr| only: the find_islands contract of C02 (mask = finite and |snr| >= flood, seeds |snr| > seed)
               ("source_finder.find_islands", _find_islands),
               ("source_finder.SourceFinder.estimate_lmfit_parinfo[polarity_class]", t_polarity_class),
               ("source_finder.SourceFinder.estimate_lmfit_parinfo[summit_selection]", t_summit_selection),
               ("source_finder.SourceFinder.estimate_lmfit_parinfo[summit_params]", t_summit_params),
               ("source_finder.SourceFinder.estimate_lmfit_parinfo[summit_order]", t_sort_key),
               ("source_finder.SourceFinder.load_globals[background]", t_background),
               ("source_finder.SourceFinder._load_aux_image", t_aux_image),
               ("source_finder.SourceFinder._fit_island[curvature]", t_curvature),
               ("source_finder.SourceFinder.find_sources_in_image[island_loop]", _island_loop),
               ("source_finder.SourceFinder.result_to_components[mirror]", t_components_lemma)]
    for name, fn in targets:
        if S.only and S.only not in name:
            continue
        ctx = Ctx(S, name)
        try:
            ctx.explore(fn)
        except Undecided as u:
            S.undecided.append("%s: %s" % (name, u))


REPLAY = {"*": "replay_symmetry"}
NATIVE_CHECKS = [{"func": "crosscheck", "payload": {}, "timeout": 1500}]
