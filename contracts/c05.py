"""C05 — priorized fitting measures the catalogued sources where and as catalogued (SourceFinder._refit_islands).

The body of the island loop of _refit_islands is verified region by region (each region is the real statement list,
re-read on every run; the regions are found by their first/last statement shapes):
  placement  : the `for src in isle` loop (loop invariant + generic iteration): a source is skipped exactly when its rounded
               0-based pixel is outside the image or on a NaN pixel of the image / rms map; an accepted source becomes component
               i = number accepted so far, with amp = catalogue peak (free), xo/yo = sky2pix - 1 (free iff stage >= 2),
               sx/sy/theta = sky2pix_ellipse * FWHM2CC (free iff stage >= 3), flags 0; the cut-out bounds stay whole pixels
               inside the image, only grow, and contain the source's pixel; included_sources[i] is that source;
  shift      : the shift loop subtracts exactly xmin / ymin from value, min and max of xo / yo of component k only, and the
               cut-out handed to the fitter starts at pixel (xmin, ymin) of the image -- with the whole-pixel invariant this is the
               registration of model and data;
  hand-over  : result_to_components receives the island number of this island and the offsets used above;
  copy-back  : the k-th returned component gets the uuid of the k-th accepted source, PRIORIZED (and FIXED2PSF below stage 2)
               on top of its flags and nothing undocumented, the catalogue's position errors below stage 2 and shape errors below
               stage 3, and no other error is touched.
NOT decided here: that the optimiser returns the catalogue values on a noise-free model image (lmfit; native cross-check only),
cluster.resize / catalogue loading (native cross-check).
"""
import ast

import z3

from pyvc.engine import (Ctx, PyObj, Model, Namespace, Obj, run_stmts, find_function, Env, Undecided, PyRaise, LoopSpec,
                         SymList, SeqList, Opaque, unparse, b_round)
from pyvc.values import Sym, And, Or, Not, Implies, ite, NaN, NaNType
from pyvc import lib
from contracts.models import Params, FlagWord, PNAMES, parse_key
from contracts.arrays import SArr, reset_uids

PROPERTY = "C05"
FILE = "AegeanTools/source_finder.py"
QN = "SourceFinder._refit_islands"
ALLFLAGS = 0x7F

ASSUMPTIONS = [
    "WCSHelper.sky2pix / sky2pix_ellipse / PSFHelper.get_psf_sky2pix return finite numbers with positive axes (C16 contracts)",
    "the regions of _refit_islands are composed by hand: placement -> shift -> fit -> hand-over -> copy-back; what the optimiser "
    "(lmfit) returns for the free parameters is not modelled -- fixed parameters are not changed by it (lmfit, assumed)",
    "result_to_components returns one row per component, in component order (proved under C03)",
    "floats as reals; round() is round-half-even on reals",
]

R = z3.RealSort()
I = z3.IntSort()


def sym(n):
    return Sym(z3.Real(n), True)


def island_loop():
    fn = find_function(FILE, QN)
    for st in fn.body:
        if isinstance(st, ast.For) and 'group' in unparse(st.iter):
            return fn, st
    raise Undecided("_refit_islands: island loop not found")


def region(body, first, last):
    """statements body[a..b] where a is the first statement matching `first`, b the first at/after a matching `last`"""
    a = next((k for k, st in enumerate(body) if first(st)), None)
    if a is None:
        raise Undecided("region start not found")
    b = next((k for k in range(a, len(body)) if last(body[k])), None)
    if b is None:
        raise Undecided("region end not found")
    return body[a:b + 1]


def is_assign_to(name):
    return lambda st: isinstance(st, ast.Assign) and any(unparse(t) == name for t in st.targets)


def is_for_over(txt):
    return lambda st: isinstance(st, ast.For) and txt in unparse(st.iter)


class AddParams(Params):
    """lmfit.Parameters built with .add(name, value=, vary=, min=, max=)"""

    def __init__(self, name, ncomp):
        Params.__init__(self, name, ncomp, split_stderr=False)
        self.added = []

    def getattr_(self, ctx, name):
        if name == 'add':
            def add(c, key, value=None, vary=True, min=None, max=None, **kw):
                k = parse_key(key)
                if k == 'components':
                    self.ncomp = value
                    self.added.append(('components', value))
                    return None
                i, pn = k
                self.added.append((i, pn))
                self.write(c, 'value', i, pn, value)
                self.write(c, 'vary', i, pn, vary)
                if min is not None:
                    self.write(c, 'min', i, pn, min)
                if max is not None:
                    self.write(c, 'max', i, pn, max)
                self.bounded = getattr(self, 'bounded', []) + [(i, pn, min is not None, max is not None)]
            return Model(add, 'Parameters.add')
        raise Undecided("Parameters.%s" % name)


class HookList(SymList):
    def __init__(self, ctx, name):
        base = SymList.fresh(ctx, name, sort='int')
        SymList.__init__(self, name, base.length, base.elem)
        self.appended = []

    def getattr_(self, ctx, name):
        if name == 'append':
            def app(c, s):
                self.appended.append((self.length, s))
                self.length = self.length + 1
            return Model(app, 'list.append')
        return SymList.getattr_(self, ctx, name)


WX, WY = z3.Function('wcs_x', I, R), z3.Function('wcs_y', I, R)
ESX, ESY, ETH = z3.Function('ell_sx', I, R), z3.Function('ell_sy', I, R), z3.Function('ell_theta', I, R)
PBA, PBB, PBP = z3.Function('pixbeam_a', I, R), z3.Function('pixbeam_b', I, R), z3.Function('pixbeam_pa', I, R)
SRC = {k: z3.Function('cat_' + k, I, R) for k in ('ra', 'dec', 'a', 'b', 'pa', 'peak_flux', 'err_ra', 'err_dec', 'err_a', 'err_b', 'err_pa')}
UUID = z3.Function('cat_uuid', I, I)
F2C = z3.Real('FWHM2CC')


def cat_source(k):
    o = Obj('ComponentSource', **{q: Sym(f(Sym.lift(k)), True) for q, f in SRC.items()})
    o.fields['uuid'] = Sym(UUID(Sym.lift(k)))
    o.fields['island'] = Sym(z3.Int('cat_island'))
    o.fields['source'] = Sym(Sym.lift(k))
    o.ghost_k = k
    return o


def mk_world(ctx):
    Rr, Cc = Sym(z3.Int('R')), Sym(z3.Int('C'))
    ctx.assume(And(Rr >= 1, Cc >= 1, Sym(F2C, True) > 0))
    data = SArr.fresh("img", (Rr, Cc), with_nan=True)
    rms = SArr.fresh("rmsimg", (Rr, Cc), with_nan=True)

    def gk(args):
        # the source the call is about: identified through its (ra, dec) terms
        ra = args[0] if not isinstance(args[0], (list, tuple)) else args[0][0]
        e = Sym.lift(ra)
        if z3.is_app(e) and e.decl().name() == 'cat_ra':
            return e.arg(0)
        raise Undecided("WCS call with a position that is not a catalogue position")
    wcs = Obj('WCSHelper')
    wcs.methods['sky2pix'] = lambda c, s, pos: (Sym(WX(gk([pos])), True), Sym(WY(gk([pos])), True))

    def s2p_ell(c, s, pos, a, b, pa):
        k = gk([pos])
        src = {q: SRC[q](k) for q in ('a', 'b', 'pa')}
        c.oblige("pre", "sky2pix_ellipse_called_with_catalogue_axes_in_degrees",
                 And(a == Sym(src['a']) / 3600, b == Sym(src['b']) / 3600, pa == Sym(src['pa'])))
        c.assume(And(Sym(ESX(k)) > 0, Sym(ESY(k)) > 0))
        return (Sym(WX(k), True), Sym(WY(k), True), Sym(ESX(k), True), Sym(ESY(k), True), Sym(ETH(k), True))
    wcs.methods['sky2pix_ellipse'] = s2p_ell
    psf = Obj('PSFHelper')

    def g_psf(c, s, ra, dec):
        k = gk([ra])
        c.assume(And(Sym(PBA(k)) > 0, Sym(PBB(k)) > 0))
        return (Sym(PBA(k), True), Sym(PBB(k), True), Sym(PBP(k), True))
    psf.methods['get_psf_sky2pix'] = g_psf
    gd = Obj('GlobalFittingData', img=data, rmsimg=rms, wcshelper=wcs, psfhelper=psf, docov=True)
    g = {'np': lib.std_np(), 'FWHM2CC': Sym(F2C, True), 'Beam': Model(lambda c, a, b, pa: Obj('Beam', a=a, b=b, pa=pa), 'Beam'),
         'lmfit': Namespace('lmfit'), 'flags': Namespace('flags', FITERRSMALL=1, FITERR=2, FIXED2PSF=4, FIXEDCIRCULAR=8, NOTFIT=16,
                                                          WCSERR=32, PRIORIZED=64)}
    return Rr, Cc, data, rms, gd, g


# ---------------------------------------------------------------------------
# placement: the `for src in isle` loop
# ---------------------------------------------------------------------------

def t_placement(ctx):
    reset_uids()
    fn, loop = island_loop()
    stmts = region(loop.body, is_assign_to('i'), is_for_over('isle'))
    Rr, Cc, data, rms, gd, g = mk_world(ctx)
    stage = Sym(z3.Int('stage'))
    ctx.assume(And(stage >= 1, stage <= 3))
    n = Sym(z3.Int('n_isle'))
    ctx.assume(n >= 1)
    cache = {}

    def item(k):
        key = str(Sym.lift(k))
        if key not in cache:
            cache[key] = cat_source(k)
        return cache[key]
    isle = SeqList(ctx, n, item)
    P0 = AddParams('P', Sym(z3.Int('P_n0')))
    g['lmfit'].members['Parameters'] = Model(lambda c: P0, 'lmfit.Parameters')
    st = {}

    def whole(e):
        """e is a whole number: decided structurally where possible (sums / products / selections of whole numbers)"""
        if z3.is_int(e) or z3.is_int_value(e):
            return z3.BoolVal(True)
        if z3.is_rational_value(e):
            return z3.BoolVal(e.denominator_as_long() == 1)
        if z3.is_app(e):
            k = e.decl().kind()
            if k == z3.Z3_OP_TO_REAL:
                return z3.BoolVal(True)
            if k == z3.Z3_OP_ITE:
                return z3.And(whole(e.arg(1)), whole(e.arg(2)))
            if k in (z3.Z3_OP_ADD, z3.Z3_OP_SUB, z3.Z3_OP_MUL, z3.Z3_OP_UMINUS):
                return z3.Or(z3.And(*[whole(a) for a in e.children()]), z3.IsInt(e))
        return z3.IsInt(e)

    def isint(v):
        return Sym(z3.simplify(whole(Sym.lift(v))))

    def inv(c, env, k):
        i = env.lookup('i')
        b = [env.lookup(q) for q in ('xmin', 'xmax', 'ymin', 'ymax')]
        inc = env.lookup('included_sources')
        return [("component_index_is_number_accepted", And(i >= 0, i <= k, Sym(Sym.lift(len_of(inc)) == Sym.lift(i)))),
                ("cut_out_bounds_are_whole_pixels_inside_the_image",
                 And(isint(b[0]), isint(b[1]), isint(b[2]), isint(b[3]), b[0] >= 0, b[0] <= Rr, b[1] >= 0, b[1] <= Rr,
                     b[2] >= 0, b[2] <= Cc, b[3] >= 0, b[3] <= Cc))]

    def len_of(v):
        return v.length if isinstance(v, SymList) else len(v)

    def havoc(c, env):
        P = AddParams('Pl', Sym(z3.Int('Pl_n')))
        env.vars['params'] = P
        env.vars['included_sources'] = HookList(c, 'included')

    def before(c, env, k):
        st['k'] = k
        st['i0'] = env.lookup('i')
        st['b0'] = [env.lookup(q) for q in ('xmin', 'xmax', 'ymin', 'ymax')]
        st['P'] = env.lookup('params')
        st['inc'] = env.lookup('included_sources')
        st['w0'] = {f: len(w) for f, w in st['P'].writes.items()}

    def after(c, env, k):
        P, inc = st['P'], st['inc']
        kk = Sym.lift(k)
        px = b_round(c, Sym(WX(kk), True) - 1)
        py = b_round(c, Sym(WY(kk), True) - 1)
        usable = And(px >= 0, px < Rr, py >= 0, py < Cc, Not(data.isnan((px, py))), Not(rms.isnan((px, py))))
        b1 = [env.lookup(q) for q in ('xmin', 'xmax', 'ymin', 'ymax')]
        b0 = st['b0']
        lab = "placement"
        if env.lookup('params') is not P or env.lookup('included_sources') is not inc:
            c.oblige("post", lab + ".parameters_and_source_list_are_extended_in_place", False)
            return
        if not inc.appended:
            c.oblige("post", lab + ".skipped_only_when_off_image_or_on_a_blank_pixel", Not(usable))
            c.oblige("post", lab + ".skipped_source_changes_nothing",
                     And(env.lookup('i') == st['i0'], *[x == y for x, y in zip(b1, b0)])
                     if all(len(w) == st['w0'][f] for f, w in P.writes.items()) else False)
            return
        c.oblige("post", lab + ".accepted_only_when_on_a_usable_pixel", usable)
        i0 = st['i0']
        pos, s = inc.appended[-1]
        c.oblige("post", lab + ".accepted_source_is_component_i",
                 And(env.lookup('i') == i0 + 1, pos == i0) if (len(inc.appended) == 1 and getattr(s, 'ghost_k', None) is k) else False)
        V = lambda f, pn: P.sym(f, i0, pn)
        wx, wy = Sym(WX(kk), True) - 1, Sym(WY(kk), True) - 1
        sx, sy = Sym(ESX(kk), True) * Sym(F2C, True), Sym(ESY(kk), True) * Sym(F2C, True)
        c.oblige("post", lab + ".amp_is_catalogue_peak_and_free", And(V('value', 'amp') == Sym(SRC['peak_flux'](kk)), V('vary', 'amp')))
        c.oblige("post", lab + ".position_is_sky2pix_minus_one_free_iff_stage_ge_2",
                 And(V('value', 'xo') == wx, V('value', 'yo') == wy, V('vary', 'xo') == (stage >= 2), V('vary', 'yo') == (stage >= 2)))
        c.oblige("post", lab + ".position_bounds_bracket_the_catalogue_position",
                 And(V('min', 'xo') < wx, V('max', 'xo') > wx, V('min', 'yo') < wy, V('max', 'yo') > wy))
        c.oblige("post", lab + ".shape_is_catalogue_ellipse_in_sigma_free_iff_stage_ge_3",
                 And(V('value', 'sx') == sx, V('value', 'sy') == sy, V('value', 'theta') == Sym(ETH(kk)),
                     V('vary', 'sx') == (stage >= 3), V('vary', 'sy') == (stage >= 3), V('vary', 'theta') == (stage >= 3)))
        c.oblige("post", lab + ".shape_bounds_contain_the_catalogue_shape",
                 And(V('min', 'sx') <= sx, V('max', 'sx') >= sx, V('min', 'sy') <= sy, V('max', 'sy') >= sy))
        c.oblige("post", lab + ".component_flags_start_at_zero_and_fixed", And(V('value', 'flags') == 0, Not(V('vary', 'flags'))))
        names = sorted(pn for (ii, pn) in P.added if ii is i0 or (isinstance(ii, Sym) and isinstance(i0, Sym) and ii.e.eq(i0.e)))
        c.oblige("post", lab + ".exactly_the_seven_parameters_of_component_i_are_added", names == sorted(PNAMES) and len(P.added) == 7)
        c.oblige("post", lab + ".cut_out_only_grows_and_contains_the_source_pixel",
                 And(b1[0] <= b0[0], b1[1] >= b0[1], b1[2] <= b0[2], b1[3] >= b0[3],
                     b1[0] <= px, px < b1[1], b1[2] <= py, py < b1[3]))
    spec = LoopSpec(inv, havoc=havoc, label="placement",
                    modifies=lambda c, env: [env.vars['params'], env.vars['included_sources']],
                    types={'i': 'int', 'x': 'int', 'y': 'int', 'xmin': 'real', 'xmax': 'real', 'ymin': 'real', 'ymax': 'real',
                           'xwidth': 'int', 'ywidth': 'int'})
    spec.before_body, spec.after_body = before, after
    ctx.interp.loops["for src in isle"] = spec
    env = {'self': Obj('self', global_data=gd, log=Namespace('log')), 'global_data': gd, 'data': data, 'rmsimg': rms, 'isle': isle,
           'stage': stage, 'inum': Sym(z3.Int('inum'))}
    out = run_stmts(ctx, FILE, QN, stmts, env, globals_=g, region_desc="placement of the catalogued sources of one island")
    if out.kind == 'raise':
        ctx.oblige("safe", "placement.no_exception", False)
        return
    e = out.env
    ctx.cover("placement.loop_exit_reachable")


# ---------------------------------------------------------------------------
# shift + cut-out
# ---------------------------------------------------------------------------

def t_shift(ctx):
    reset_uids()
    fn, loop = island_loop()
    stmts = region(loop.body, lambda st: isinstance(st, ast.Expr) and "params.add('components'" in unparse(st),
                   is_assign_to('idata'))
    Rr, Cc, data, rms, gd, g = mk_world(ctx)
    i = Sym(z3.Int('i'))
    ctx.assume(i >= 1)
    P = AddParams('P', Sym(z3.Int('P_n0')))
    b = {q: sym(q) for q in ('xmin', 'xmax', 'ymin', 'ymax')}
    # exported by the placement invariant
    ctx.assume(And(*[Sym(z3.IsInt(v.e)) for v in b.values()]))
    ctx.assume(And(b['xmin'] >= 0, b['xmin'] < b['xmax'], b['xmax'] <= Rr, b['ymin'] >= 0, b['ymin'] < b['ymax'], b['ymax'] <= Cc))
    st = {}

    def inv(c, env, k):
        return []

    def before(c, env, k):
        st['old'] = {(f, pn): P.sym(f, k, pn) for f in ('value', 'min', 'max') for pn in ('xo', 'yo')}
        j = c.fresh_int("other_component")
        c.assume(j != k)
        st['j'] = j
        st['oldj'] = {(f, pn): P.sym(f, j, pn) for f in ('value', 'min', 'max') for pn in PNAMES[:6]}
        st['oldk'] = {(f, pn): P.sym(f, k, pn) for f in ('value', 'min', 'max') for pn in ('amp', 'sx', 'sy', 'theta')}

    def after(c, env, k):
        if env.lookup('params') is not P:
            c.oblige("post", "shift.parameters_shifted_in_place", False)
            return
        for pn, off in (('xo', 'xmin'), ('yo', 'ymin')):
            c.oblige("post", "shift.%s_value_min_max_move_by_the_cut_out_origin" % pn,
                     And(*[P.sym(f, k, pn) == st['old'][(f, pn)] - b[off] for f in ('value', 'min', 'max')]))
        c.oblige("post", "shift.other_components_and_parameters_untouched",
                 And(*([P.sym(f, st['j'], pn) == v for (f, pn), v in st['oldj'].items()] +
                       [P.sym(f, k, pn) == v for (f, pn), v in st['oldk'].items()])))
    spec = LoopSpec(inv, label="shift", modifies=lambda c, env: [P], types={'i': 'int'})
    spec.before_body, spec.after_body = before, after
    ctx.interp.loops["for i in range(int(params['components'].value))"] = spec
    env = {'self': Obj('self', global_data=gd, log=Namespace('log')), 'data': data, 'rmsimg': rms, 'params': P, 'i': i,
           'src': cat_source(Sym(z3.Int('last'))), **b}
    out = run_stmts(ctx, FILE, QN, stmts, env, globals_=g, region_desc="shift of the parameters into cut-out coordinates and the cut-out itself")
    if out.kind == 'continue':
        ctx.oblige("post", "shift.island_with_components_is_not_skipped", False)
        return
    if out.kind != 'fallthrough':
        ctx.oblige("safe", "shift.no_exception", False)
        return
    idata = out.env.lookup('idata')
    if not isinstance(idata, SArr) or len(idata.shape_) != 2:
        ctx.oblige("post", "cutout.is_a_2d_array", False)
        return
    a_, b_ = Sym(z3.Int('cut_r')), Sym(z3.Int('cut_c'))
    x0, y0 = Sym(z3.ToInt(b['xmin'].e)), Sym(z3.ToInt(b['ymin'].e))
    ctx.assume(And(a_ >= 0, a_ < idata.shape_[0], b_ >= 0, b_ < idata.shape_[1]))
    ctx.oblige("post", "cutout.shape_is_the_bounds", And(idata.shape_[0] == b['xmax'] - b['xmin'], idata.shape_[1] == b['ymax'] - b['ymin']))
    ctx.oblige("post", "cutout.pixel_rc_is_image_pixel_xmin_plus_r_ymin_plus_c",
               And(idata.at((a_, b_)) == data.at((x0 + a_, y0 + b_)),
                   Sym(Sym.lift(idata.isnan((a_, b_))) == Sym.lift(data.isnan((x0 + a_, y0 + b_))))))
    # the cut-out is masked in place later on (idata[mask] = nan): it must not be a view of the image shared by all islands
    ctx.oblige("post", "cutout.is_a_copy_not_a_view_of_the_image", getattr(idata, 'view_of', None) is None)
    ctx.oblige("post", "cutout.components_count_is_number_accepted", Sym(Sym.lift(P.ncomp) == Sym.lift(i)) if isinstance(P.ncomp, (int, Sym)) else False)


# ---------------------------------------------------------------------------
# the "is there any data under this component" test
# ---------------------------------------------------------------------------

def t_notfit(ctx):
    reset_uids()
    fn, loop = island_loop()
    cands = [st for st in loop.body if isinstance(st, ast.For) and "params['components']" in unparse(st.iter)
             and any(isinstance(n_, ast.Assign) and unparse(n_.targets[0]) == 'square' for n_ in ast.walk(st))]
    if len(cands) != 1:
        raise Undecided("_refit_islands: the per-component data test loop was not found")
    inner = cands[0]
    R_, C_ = Sym(z3.Int('cut_rows')), Sym(z3.Int('cut_cols'))
    ctx.assume(And(R_ >= 1, C_ >= 1))
    idata = SArr.fresh("cutout", (R_, C_), with_nan=True)
    ncomp = Sym(z3.Int('ncomp'))
    ctx.assume(ncomp >= 1)
    P = AddParams('P', ncomp)
    P.flagword = lambda i: FlagWord(z3.BitVecVal(0, FlagWord.W))
    st = {}
    anyres = []

    def m_any(c, x):
        st['any_arg'] = x
        v = c.free_branch()
        anyres.append(v)
        return v

    def m_isfinite(c, x):
        st['square'] = x
        return ('finite', x)

    def m_clip(c, v, lo, hi):
        return lib.m_clip(c, v, lo, hi)
    g = {'np': lib.std_np(any=Model(m_any), isfinite=Model(m_isfinite), nan=NaN), 'flags': Namespace('flags', NOTFIT=16, FIXED2PSF=4)}

    def before(c, env, k):
        del anyres[:]
        st.pop('square', None)
        st['w0'] = {f: len(w) for f, w in P.writes.items()}
        st['cx'], st['cy'] = P.sym('value', k, 'xo'), P.sym('value', k, 'yo')

    def after(c, env, k):
        sq = st.get('square')
        ok = isinstance(sq, SArr) and getattr(sq, 'view_axes', None) is not None and len(anyres) == 1 and \
            isinstance(st.get('any_arg'), tuple) and st['any_arg'][1] is sq
        c.oblige("post", "notfit.data_test_looks_at_a_box_of_the_cut_out", ok)
        if not ok:
            return
        ax = sq.view_axes
        cx, cy = st['cx'], st['cy']
        # the component's own pixel (when it lies on the cut-out) is inside the box, and the box never wraps around
        for a_, cen, n_, nm in ((ax[0], cx, R_, 'rows'), (ax[1], cy, C_, 'columns')):
            lo, cnt = a_.start, a_.count
            c.oblige("post", "notfit.box_is_within_the_cut_out_and_holds_the_components_pixel.%s" % nm,
                     And(lo >= 0, lo + cnt <= n_,
                         Implies(And(cen >= 0, cen <= n_ - 1), And(lo <= b_round(c, cen), b_round(c, cen) < lo + cnt))),
                     timeout_ms=60000)
        flagged = any(len(w) != st['w0'][f] for f, w in P.writes.items())
        c.oblige("post", "notfit.component_is_switched_off_exactly_when_its_box_holds_no_data", flagged == (anyres[0] is False))
        if flagged:
            c.oblige("post", "notfit.switched_off_component_is_fixed_with_nan_amplitude_and_flagged",
                     And(*[Not(P.sym('vary', k, pn)) for pn in PNAMES[:6]]) if any(isinstance(w[2], NaNType) for w in P.writes['value'][st['w0']['value']:]) else False)
    spec = LoopSpec(lambda c, env, k: [], label="data_test", modifies=lambda c, env: [P],
                    types={'i': 'int', 'xmx': 'int', 'xmn': 'int', 'ymx': 'int', 'ymn': 'int'})
    spec.before_body, spec.after_body = before, after
    ctx.interp.loops["for i in range(int(params['components'].value))"] = spec
    env = {'self': Obj('self', log=Namespace('log')), 'idata': idata, 'params': P}
    out = run_stmts(ctx, FILE, QN, [inner], env, globals_=g, region_desc="per component: is there data under it (else NOTFIT)")
    if out.kind == 'raise':
        ctx.oblige("safe", "notfit.no_exception", False)


# ---------------------------------------------------------------------------
# hand-over to result_to_components and copy-back
# ---------------------------------------------------------------------------

def t_copy_back(ctx):
    reset_uids()
    fn, loop = island_loop()
    stmts = region(loop.body, is_assign_to('offsets'), is_for_over('new_src'))
    stage = Sym(z3.Int('stage'))
    ctx.assume(And(stage >= 1, stage <= 3))
    n = Sym(z3.Int('n_comp'))
    ctx.assume(n >= 1)
    b = {q: sym(q) for q in ('xmin', 'xmax', 'ymin', 'ymax')}
    inum = Sym(z3.Int('inum'))
    NFL = z3.Function('new_flags', I, z3.BitVecSort(FlagWord.W))
    NERR = {q: z3.Function('new_' + q, I, R) for q in ('err_ra', 'err_dec', 'err_a', 'err_b', 'err_pa', 'err_peak_flux', 'err_int_flux')}
    NUU = z3.Function('new_uuid', I, I)
    cache, cache2 = {}, {}

    def new_item(k):
        key = str(Sym.lift(k))
        if key not in cache:
            o = Obj('ComponentSource', flags=FlagWord(NFL(Sym.lift(k))), uuid=Sym(NUU(Sym.lift(k))),
                    **{q: Sym(f(Sym.lift(k)), True) for q, f in NERR.items()})
            o.ghost_k = k
            cache[key] = o
        return cache[key]

    def cat_item(k):
        key = str(Sym.lift(k))
        if key not in cache2:
            cache2[key] = cat_source(k)
        return cache2[key]
    included = SeqList(ctx, n, cat_item)
    # the island's members: the accepted ones are a sub-sequence, at positions the contract knows nothing about
    ISLE_OF = z3.Function('catalogue_row_of_island_member', I, I)
    isle = SeqList(ctx, Sym(z3.Int('n_isle')), lambda k: cat_item(Sym(ISLE_OF(Sym.lift(k)))))
    ctx.assume(Sym(z3.Int('n_isle')) >= n)
    got = {}

    def m_ifd(c, *a, **kw):
        names = ['isle_num', 'i', 'scalars', 'offsets', 'doislandflux']
        d = dict(zip(names, a))
        d.update(kw)
        got['ifd'] = d
        return Obj('IslandFittingData', **d)

    def m_r2c(c, s, result, model, island_data, isflags):
        got['r2c'] = (result, model, island_data, isflags)
        return SeqList(c, n, new_item)
    me = Obj('self', log=Namespace('log'))
    me.methods['result_to_components'] = m_r2c
    idata, result, model = Opaque('idata'), Opaque('result'), Opaque('model')
    sources = []
    st = {}

    def before(c, env, k):
        kk = Sym.lift(k)
        c.assume(FlagWord(NFL(kk)).subset_of(ALLFLAGS))        # result_to_components: documented bits only (C03)
        st['k'] = k

    def after(c, env, k):
        ns, s = new_item(k), cat_item(k)
        kk = Sym.lift(k)
        f = ns.fields
        lab = "copy_back"
        c.oblige("post", lab + ".uuid_of_the_kth_accepted_source", f['uuid'] == Sym(UUID(kk)))
        fw = f['flags']
        want = NFL(kk) | z3.BitVecVal(64, FlagWord.W) | z3.If(Sym.lift(stage < 2), z3.BitVecVal(4, FlagWord.W), z3.BitVecVal(0, FlagWord.W))
        c.oblige("post", lab + ".flags_gain_PRIORIZED_and_FIXED2PSF_below_stage_2_nothing_else",
                 Sym(fw.bv == want) if isinstance(fw, FlagWord) else False)
        c.oblige("post", lab + ".flags_use_only_documented_bits", fw.subset_of(ALLFLAGS) if isinstance(fw, FlagWord) else False)
        for q in ('err_ra', 'err_dec'):
            c.oblige("post", lab + ".position_errors_are_the_catalogues_below_stage_2",
                     And(Implies(stage < 2, f[q] == Sym(SRC[q](kk))), Implies(stage >= 2, f[q] == Sym(NERR[q](kk)))))
        for q in ('err_a', 'err_b', 'err_pa'):
            c.oblige("post", lab + ".shape_errors_are_the_catalogues_below_stage_3",
                     And(Implies(stage < 3, f[q] == Sym(SRC[q](kk))), Implies(stage >= 3, f[q] == Sym(NERR[q](kk)))))
        for q in ('err_peak_flux', 'err_int_flux'):
            c.oblige("post", lab + ".flux_errors_untouched", f[q] == Sym(NERR[q](kk)))
    spec = LoopSpec(lambda c, env, k: [], label="copy_back", modifies=lambda c, env: list(cache.values()), types={})
    spec.before_body, spec.after_body = before, after
    ctx.interp.loops["for *"] = spec
    g = {'IslandFittingData': Model(m_ifd, 'IslandFittingData'),
         'flags': Namespace('flags', FITERRSMALL=1, FITERR=2, FIXED2PSF=4, FIXEDCIRCULAR=8, NOTFIT=16, WCSERR=32, PRIORIZED=64)}
    lastflags, pre = FlagWord.fresh('cat_flags')
    ctx.assume(pre)
    src = cat_source(Sym(z3.Int('last')))
    src.fields['flags'] = lastflags
    env = {'self': me, 'idata': idata, 'result': result, 'model': model, 'inum': inum, 'included_sources': included, 'stage': stage,
           'src': src, 'sources': sources, 'isle': isle, **b}
    out = run_stmts(ctx, FILE, QN, stmts, env, globals_=g, region_desc="hand-over to result_to_components and copy-back of uuid / fixed errors")
    if out.kind != 'fallthrough' and out.kind != 'return':
        ctx.oblige("safe", "copy_back.no_exception", False)
        return
    if 'r2c' in got and 'ifd' in got:
        d = got['ifd']
        ctx.oblige("post", "hand_over.island_number_and_offsets_are_this_islands",
                   And(d.get('isle_num') == inum, *[x == b[q] for x, q in zip(d.get('offsets', (0, 0, 0, 0)), ('xmin', 'xmax', 'ymin', 'ymax'))])
                   if isinstance(d.get('offsets'), tuple) and len(d['offsets']) == 4 else False)
        ctx.oblige("post", "hand_over.fitted_model_and_cut_out_are_passed_on",
                   got['r2c'][0] is result and got['r2c'][1] is model and d.get('i') is idata and got['r2c'][2].fields.get('isle_num') is d.get('isle_num'))
    else:
        ctx.oblige("post", "hand_over.result_to_components_is_called", False)


# ---------------------------------------------------------------------------
# cluster.resize: every source is rescaled with ITS OWN catalogue beam and the image beam AT ITS OWN position
# ---------------------------------------------------------------------------

CFILE = "AegeanTools/cluster.py"
IMB = {q: z3.Function('image_beam_' + q, R, R, R) for q in ('a', 'b', 'pa')}
CATB = {q: z3.Function('cat_beam_' + q, R, R, R) for q in ('a', 'b', 'pa')}
PSFC = {q: z3.Function('cat_' + q, I, R) for q in ('psf_a', 'psf_b', 'psf_pa')}


class MaskModel(PyObj):
    def __init__(self):
        self.writes = []

    def setitem_(self, ctx, k, v):
        self.writes.append((k, v))

    def fingerprint_(self):
        return ('mask', len(self.writes)), []


def t_resize(ctx):
    reset_uids()
    fn = find_function(CFILE, 'resize')
    stmts = fn.body[:-2] if isinstance(fn.body[-1], ast.Return) else fn.body
    if not (isinstance(fn.body[-1], ast.Return) and 'src_mask' in unparse(fn.body[-2])):
        raise Undecided("resize: the tail (out_cat from src_mask; return) has another shape")
    n = Sym(z3.Int('n_cat'))
    ctx.assume(n >= 1)
    has_cols = ctx.free_branch()        # the catalogue has psf columns / they are NaN placeholders
    cache = {}

    def item(k):
        key = str(Sym.lift(k))
        if key not in cache:
            o = cat_source(k)
            for q, f in PSFC.items():
                o.fields[q] = Sym(f(Sym.lift(k)), True) if has_cols else NaN
            cache[key] = o
        return cache[key]
    catalog = SeqList(ctx, n, item)
    calls = []

    def skybeam(c, s, ra, dec):
        calls.append(('image', ra, dec))
        if c.free_branch():
            return None
        c.assume(And(Sym(IMB['a'](ra.e, dec.e)) > 0, Sym(IMB['b'](ra.e, dec.e)) > 0))
        return Obj('Beam', **{q: Sym(IMB[q](ra.e, dec.e), True) for q in IMB})

    def sky2sky(c, s, ra, dec):
        calls.append(('cat', ra, dec))
        c.assume(And(Sym(CATB['a'](ra.e, dec.e)) > 0, Sym(CATB['b'](ra.e, dec.e)) > 0))
        return tuple(Sym(CATB[q](ra.e, dec.e), True) for q in ('a', 'b', 'pa'))
    helper = Obj('PSFHelper', psf_file=(None if ctx.free_branch() else "psf_map.fits"), beam=Opaque('header beam'))
    helper.methods['get_skybeam'] = skybeam
    helper.methods['get_psf_sky2sky'] = sky2sky
    mask = MaskModel()
    g = {'np': lib.std_np(ones=Model(lambda c, *a, **k: mask, 'np.ones')), 'log': Namespace('log'),
         'Beam': Model(lambda c, a, b, pa: Obj('Beam', a=a, b=b, pa=pa), 'Beam')}
    st = {}

    def before(c, env, k):
        st['k'] = k
        del calls[:]
        st['m0'] = len(mask.writes)
        src = item(k)
        st['a0'], st['b0'] = src.fields['a'], src.fields['b']

    def after(c, env, k):
        src = item(k)
        kk = Sym.lift(k)
        ra, dec = Sym(SRC['ra'](kk), True), Sym(SRC['dec'](kk), True)
        lab = "resize"
        dropped = [w for w in mask.writes[st['m0']:]]
        if dropped:
            c.oblige("post", lab + ".only_this_source_is_dropped", And(*[w[0] == k for w in dropped]) if all(w[1] is False for w in dropped) else False)
            c.oblige("post", lab + ".dropped_source_keeps_its_shape", And(src.fields['a'] == st['a0'], src.fields['b'] == st['b0']))
            return
        im = [cl for cl in calls if cl[0] == 'image']
        c.oblige("post", lab + ".image_beam_is_taken_at_this_sources_position",
                 And(im[-1][1] == ra, im[-1][2] == dec) if im else False)
        ima, imb = Sym(IMB['a'](ra.e, dec.e), True), Sym(IMB['b'](ra.e, dec.e), True)
        if has_cols:
            ca, cb = Sym(PSFC['psf_a'](kk), True) / 3600, Sym(PSFC['psf_b'](kk), True) / 3600
        else:
            ca, cb = Sym(CATB['a'](ra.e, dec.e), True), Sym(CATB['b'](ra.e, dec.e), True)
        for q, old, cbm, ibm in (('a', st['a0'], ca, ima), ('b', st['b0'], cb, imb)):
            t = (old / 3600) * (old / 3600) - cbm * cbm + ibm * ibm
            new = src.fields[q]
            c.oblige("post", lab + ".%s_is_deconvolved_from_its_own_catalogue_beam_and_convolved_with_the_local_image_beam" % q,
                     And(new >= 0, Implies(t < 0, new == ibm * 3600), Implies(t >= 0, (new / 3600) * (new / 3600) == t)),
                     timeout_ms=30000)
    spec = LoopSpec(lambda c, env, k: [], label="resize", modifies=lambda c, env: [mask] + list(cache.values()), types={'i': 'int'})
    spec.before_body, spec.after_body = before, after
    ctx.interp.loops["for *"] = spec
    env = {'catalog': catalog, 'ratio': None, 'psfhelper': helper}
    out = run_stmts(ctx, CFILE, 'resize', stmts, env, globals_=g, mode="region",
                    region_desc="the rescaling loop (ratio=None); the final selection of kept rows is not modelled")
    if out.kind == 'raise':
        ctx.oblige("safe", "resize.no_exception", False)


def _eps(ctx):
    from contracts import c19
    return c19.t_eps_conversion(ctx)


def verify(S):
    # "regroup on": the linking length the caller gives (arcmin) reaches the clustering as the chord of that angle (C19's contract)
    targets = [("cluster.eps_conversion", _eps), ("cluster.resize", t_resize),
               ("source_finder.SourceFinder._refit_islands[placement]", t_placement),
               ("source_finder.SourceFinder._refit_islands[shift]", t_shift),
               ("source_finder.SourceFinder._refit_islands[data_test]", t_notfit),
               ("source_finder.SourceFinder._refit_islands[copy_back]", t_copy_back)]
    for name, fn in targets:
        if S.only and S.only not in name:
            continue
        ctx = Ctx(S, name)
        try:
            ctx.explore(fn)
        except Undecided as u:
            S.undecided.append("%s: %s" % (name, u))


REPLAY = {"*": "replay_priorized"}
NATIVE_CHECKS = [{"func": "crosscheck", "payload": {}, "timeout": 1500}]
