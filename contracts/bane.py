"""Shared contracts for AegeanTools/BANE.py (C06: estimator dataflow, C07: termination structure).

sigma_filter is analysed in an abstract row-range domain: the image rows loaded by a stripe are
[data_row_min, data_row_max); `data` is indexed relative to data_row_min; every slice of `data`, of the shared
output maps and every grid is tracked as an integer row interval.  The obligations state the index/dataflow
contract the estimator clauses rest on; the numerical clauses (affine equivariance, range, constant image) then
follow from the assumed numpy mean/std and RegularGridInterpolator contracts (listed), and are cross-checked
natively.
"""
import z3

from pyvc.engine import (Ctx, PyObj, Model, Namespace, Obj, run_function, find_function, Closure, Env, Undecided, PyRaise,
                         ExcValue, ExcClass, LoopSpec, SymDict, SeqList, SymList, Opaque, StrFormat)
from pyvc.values import Sym, And, Or, Not, Implies, ite, NaN, NaNType
from pyvc import lib

FILE = "AegeanTools/BANE.py"


def I(name):
    return Sym(z3.Int(name))


class Rows(PyObj):
    """a 2-d view described by its row interval [r0, r1) (relative to its owner's origin) and column interval"""

    def __init__(self, owner, r0, r1, c0, c1, kind="view"):
        self.owner, self.r0, self.r1, self.c0, self.c1, self.kind = owner, r0, r1, c0, c1, kind
        self.f64 = False    # True once the values are known to be double precision (astype(np.float64))

    def getattr_(self, ctx, name):
        if name == 'shape':
            return (self.r1 - self.r0, self.c1 - self.c0)
        if name == 'astype':
            def astype(c, dt=None, **k):
                out = Rows(self.owner, self.r0, self.r1, self.c0, self.c1, self.kind)
                out.f64 = isinstance(dt, Model) and getattr(dt, 'name', None) == 'np.float64'
                return out
            return Model(astype, 'astype')
        if name == 'dtype':
            return Opaque('dtype') if not self.f64 else 'float64'
        if name in ('any', 'all'):
            # a reduction of the pixel values: depends on the data, either answer is possible
            return Model(lambda c, *a, **k: c.free_branch(), 'ndarray.' + name)
        raise Undecided("array view .%s" % name)

    def _slice(self, ctx, key):
        if not isinstance(key, tuple):
            key = (key,)
        key = key + (slice(None),) * (2 - len(key))
        out = []
        for k, lo, hi in ((key[0], self.r0, self.r1), (key[1], self.c0, self.c1)):
            if not isinstance(k, slice) or k.step is not None:
                raise Undecided("non-slice index into a row-range view")
            n = hi - lo
            a = 0 if k.start is None else k.start
            b = n if k.stop is None else k.stop
            # python slice clipping
            cl = lambda v: ite(v < 0, ite(v + n < 0, 0, v + n), ite(v > n, n, v)) if isinstance(v, Sym) or isinstance(n, Sym) \
                else max(0, v + n) if v < 0 else min(v, n)
            a, b = cl(a), cl(b)
            out.append((lo + a, lo + ite(b < a, a, b) if isinstance(b, Sym) or isinstance(a, Sym) else lo + max(a, b)))
        return out

    def getitem_(self, ctx, key):
        if isinstance(key, Rows) and key.kind.startswith('mask'):
            return MaskedSel(self, key)
        (r0, r1), (c0, c1) = self._slice(ctx, key)
        out = Rows(self.owner, r0, r1, c0, c1)
        out.f64 = self.f64
        return out

    def setitem_(self, ctx, key, value):
        tgt = self.getitem_(ctx, key) if not (isinstance(key, Rows) and key.kind.startswith('mask')) else None
        if tgt is None:
            ctx.ghost.setdefault('mask_writes', []).append((self, key, value))
            return
        ctx.ghost.setdefault('writes', []).append((tgt, value))

    def binop_(self, ctx, op, other, swapped):
        if op == 'isub' and isinstance(other, Rows):
            ctx.ghost.setdefault('subtractions', []).append((self, other))
            return self
        if op == 'imul':
            ctx.ghost.setdefault('scalings', []).append((self, other))
            return self
        if op == 'invert' and self.kind == 'finite':
            return Rows(self.owner, self.r0, self.r1, self.c0, self.c1, kind='mask')
        return NotImplemented

    def fingerprint_(self):
        return ('rows',), []


class MaskedSel(PyObj):
    def __init__(self, view, mask):
        self.view, self.mask = view, mask


def bane_env(ctx, shape, prop):
    """models for one stripe (sigma_filter)"""
    R, C = shape
    rec = ctx.ghost
    rec['waits'] = 0
    rec['resets'] = 0
    rec['sigmaclip'] = []
    hdr = SymDict('hdr', {'NAXIS': I('naxis')}, {'BSCALE': (Sym(z3.Bool('has_bscale')), Sym(z3.Real('bscale'), True))})

    class Section(PyObj):
        def getitem_(s, c, key):
            key = key if isinstance(key, tuple) else (key,)
            rs, cs = key[-2], key[-1]
            c.ghost['loaded'] = (rs.start, rs.stop, cs.start, cs.stop, key[:-2])
            return Rows('data', 0, rs.stop - rs.start, 0, cs.stop - cs.start)

    class HDUL(PyObj):
        def getitem_(s, c, k):
            return Obj('hdu', section=Section())

        def enter_(s, c):
            return s

    def m_open(c, fn, **kw):
        c.ghost['open_kw'] = kw
        return HDUL()

    def m_isfinite(c, x):
        if isinstance(x, Rows):
            return Rows(x.owner, x.r0, x.r1, x.c0, x.c1, kind='finite')
        if isinstance(x, Obj) and x.cls == 'vals':
            # which grid nodes are finite depends on the pixel values
            return Rows('vals', 0, 1, 0, 1, kind='finite')
        return lib.m_isfinite(c, x)

    def m_any_all(c, x, **kw):
        # a reduction over pixel values: either answer is possible, whatever the stripe
        if isinstance(x, Rows):
            return c.free_branch()
        raise Undecided("np.any / np.all of %r" % (x,))

    def m_isnan(c, x):
        if isinstance(x, Rows):
            # NaN only: +/-inf pixels are not selected
            return Rows(x.owner, x.r0, x.r1, x.c0, x.c1, kind='mask_nan_only')
        return lib.m_isnan(c, x)

    def m_mgrid_get(c, key):
        (a, b), (c0, c1) = [((0 if k.start is None else k.start), k.stop) for k in key]
        c.ghost['mgrid'] = (a, b, c0, c1)
        return (Rows('grid_r', a, b, c0, c1, kind='grid'), Rows('grid_c', a, b, c0, c1, kind='grid'))

    class MGrid(PyObj):
        def getitem_(s, c, key):
            return m_mgrid_get(c, key)

    def m_zeros(c, shape=None, **kw):
        return Obj('vals', shape=shape, phase=[0])

    def m_ndarray(c, shp, dtype=None, buffer=None):
        name = buffer.fields.get('which') if isinstance(buffer, Obj) else '?'
        return Rows(name, 0, shp[0], 0, shp[1])

    def m_shm(c, name=None, create=False, size=None):
        which = 'ibkg' if 'ibkg' in repr(name) else ('irms' if 'irms' in repr(name) else '?')
        o = Obj('SharedMemory', which=which)
        o.fields['buf'] = o
        return o

    def m_rgi(c, grids, vals):
        c.ghost.setdefault('rgi', []).append((grids, vals))

        def call(c2, pts):
            c2.ghost.setdefault('rgi_queries', []).append((grids, pts))
            return Rows('interp', pts[0].r0, pts[0].r1, pts[0].c0, pts[0].c1, kind='interp')
        return Model(call, 'interpolator')

    def m_sigmaclip(c, arr, lo, hi, reps=10):
        nsub = len(c.ghost.get('subtractions', []))
        c.ghost['sigmaclip'].append((arr, lo, hi, nsub))
        if prop == "C06":
            # obligations of the generic grid node (emitted where the box is formed: inside the cut grid loops)
            ph = "pass2" if nsub >= 1 else "pass1"
            okb = isinstance(arr, Rows) and arr.owner == 'data'
            c.oblige("post", "sigma_filter.%s.three_sigma_clip_of_a_data_box" % ph, okb and lo == 3 and hi == 3)
            c.oblige("post", "sigma_filter.%s.statistics_taken_in_double_precision" % ph, bool(okb and arr.f64))
            if okb:
                ld = c.ghost.get('loaded')
                nrows = (ld[1] - ld[0]) if ld else None
                if nrows is not None:
                    c.oblige("safe", "sigma_filter.%s.box_inside_loaded_rows" % ph,
                             And(arr.r0 >= 0, arr.r1 <= nrows, arr.c0 >= 0, arr.c1 <= ld[3] - ld[2]), timeout_ms=30000)
                if nsub >= 1:
                    dv = c.ghost['subtractions'][0][0]
                    c.oblige("post", "sigma_filter.pass2_boxes_subtracted",
                             Implies(arr.r0 < arr.r1, And(arr.r0 >= dv.r0, arr.r1 <= dv.r1)), timeout_ms=30000)
        res = (Sym(z3.Real(c._fresh('clip_mean')), True), Sym(z3.Real(c._fresh('clip_std')), True))
        c.ghost.setdefault('clip_results', []).append(res)
        return res

    class Barrier(PyObj):
        def getattr_(s, c, name):
            if name == 'wait':
                def wait(c2, *a):
                    c2.ghost['waits'] += 1
                    i = c2.fresh_int('barrier_index')
                    c2.assume(i >= 0)
                    return i
                return Model(wait, 'barrier.wait')
            if name == 'reset':
                def reset(c2):
                    c2.ghost['resets'] += 1
                return Model(reset, 'barrier.reset')
            if name == 'abort':
                return Model(lambda c2: c2.ghost.__setitem__('aborted', True), 'barrier.abort')
            raise Undecided("barrier." + name)
    np_ = lib.std_np(squeeze=Model(lambda c, x: x), ravel=Model(lambda c, x: x), isfinite=Model(m_isfinite), isnan=Model(m_isnan),
                     mgrid=MGrid(),
                     zeros=Model(m_zeros), ndarray=Model(m_ndarray), array=Model(lambda c, x, **k: x),
                     any=Model(m_any_all), all=Model(m_any_all))
    g = {'np': np_, 'fits': Namespace('fits', getheader=Model(lambda c, fn, **k: hdr), open=Model(m_open)),
         'SharedMemory': Model(m_shm), 'RegularGridInterpolator': Model(m_rgi), 'sigmaclip': Model(m_sigmaclip),
         'barrier': Barrier(), 'memory_id': 'MEMID', 'logging': Namespace('logging'), 'strftime': Model(lambda c, *a: "t"),
         'gmtime': Model(lambda c: 0), 'Exception': ExcClass('Exception')}
    return g, hdr


def grid_loop_specs(ctx, prop="C06"):
    """the two nested grid loops only write `vals` (and locals); their bodies contain no synchronisation.
    Generic node (i, j): it receives the clipped statistic of its own box -- no node keeps the array's initial value"""
    def mk(label):
        return LoopSpec(lambda c, env, k: [], label=label, modifies=lambda c, env: [env.lookup('vals')] if env.has('vals') else [])
    rows_spec, cols_spec = mk("grid_rows"), mk("grid_cols")
    st = {}

    def before_cols(c, env, k):
        v = env.lookup('vals') if env.has('vals') else None
        st['n0'] = len(getattr(v, 'sets', [])) if v is not None else 0
        st['clips0'] = len(c.ghost.get('sigmaclip', []))
        st['i'] = env.lookup('i') if env.has('i') else None

    def after_cols(c, env, k):
        if prop != "C06":
            return
        v = env.lookup('vals') if env.has('vals') else None
        new = getattr(v, 'sets', [])[st['n0']:] if v is not None else []
        nclip = len(c.ghost.get('sigmaclip', [])) - st['clips0']
        ok = False
        if len(new) == 1 and nclip == 1 and c.ghost.get('clip_results'):
            key, val = new[0]
            res = c.ghost['clip_results'][-1]
            ok = isinstance(key, tuple) and len(key) == 2 and key[0] is env.lookup('i') and key[1] is env.lookup('j') and \
                (val is res[0] or val is res[1])
        c.oblige("post", "sigma_filter.every_grid_node_gets_the_clipped_statistic_of_its_box", ok)
    cols_spec.before_body, cols_spec.after_body = before_cols, after_cols
    ctx.interp.loops["for (i, row) in enumerate(rows)"] = rows_spec
    ctx.interp.loops["for (j, col) in enumerate(cols)"] = cols_spec


def explore_sigma_filter(ctx, prop):
    R, C = I('img_rows'), I('img_cols')
    ymin, ymax = I('ymin'), I('ymax')
    s0, s1, b0, b1 = I('step0'), I('step1'), I('box0'), I('box1')
    ctx.assume(And(R >= 1, C >= 1, ymin >= 0, ymin < ymax, ymax <= R, s0 >= 1, s1 >= 1, b0 >= 1, b1 >= 1))
    domask = ctx.free_branch()
    g, hdr = bane_env(ctx, (R, C), prop)
    naxis = hdr.vals['NAXIS']
    ctx.assume(And(naxis >= 2, naxis <= 4))
    grid_loop_specs(ctx, prop)
    ctx.interp.inline.add('box')

    # vals assignment vals[i, j] = x on the Obj: allow item assignment
    class Vals(Obj):
        def setitem_(s, c, k, v):
            if not hasattr(s, 'sets'):
                s.sets = []
            s.sets.append((k, v))

        def fingerprint_(s):
            return ('vals',), []
    g['np'].members['zeros'] = Model(lambda c, shape=None, **kw: Vals('vals', shape=shape))
    cube = I('cube_index')
    out = run_function(ctx, FILE, 'sigma_filter', ["f.fits", (ymin, ymax), (s0, s1), (b0, b1), (R, C), domask, cube],
                       globals_=g)
    tag = "mask" if domask else "nomask"
    gh = ctx.ghost
    if out.kind != 'return':
        ctx.oblige("safe", "sigma_filter.%s.no_exception_on_valid_stripe" % tag, False)
        return
    drm = ite(ymin - b0 // 2 > 0, ymin - b0 // 2, 0)
    drx = ite(ymax + b0 // 2 < R, ymax + b0 // 2, R)
    if prop == "C07":
        ctx.oblige("post", "sigma_filter.%s.waits_once_per_pass_independent_of_data" % tag, gh['waits'] == (2 if domask else 1))
        ctx.oblige("post", "sigma_filter.%s.never_resets_the_barrier" % tag, gh['resets'] == 0)
        ld = gh.get('loaded')
        # the maps of a stripe may depend on the layout only through the rows it loads: exactly half a (row) box either side
        ctx.oblige("post", "sigma_filter.loaded_rows_are_stripe_plus_half_box",
                   And(ld[0] == drm, ld[1] == drx, ld[2] == 0, ld[3] == C) if ld is not None else False)
        return
    # ---- C06 dataflow ---------------------------------------------------------------------------
    ld = gh.get('loaded')
    ok = ld is not None
    ctx.oblige("post", "sigma_filter.loaded_rows_are_stripe_plus_half_box",
               And(ld[0] == drm, ld[1] == drx, ld[2] == 0, ld[3] == C) if ok else False)
    if ok:
        pl = ld[4]
        ctx.oblige("post", "sigma_filter.loaded_plane",
                   Or(And(naxis == 2, len(pl) == 0), And(naxis == 3, len(pl) == 1 and pl[0] is cube),
                      And(naxis == 4, len(pl) == 2 and pl[0] == 0 and pl[1] is cube)))
        ctx.oblige("post", "sigma_filter.unscaled_read_then_bscale",
                   gh.get('open_kw', {}).get('do_not_scale_image_data') is True)
    nrows = drx - drm
    # pass 2 boxes must lie inside the background-subtracted rows
    subs = gh.get('subtractions', [])
    ctx.oblige("post", "sigma_filter.%s.background_subtracted_exactly_once" % tag, len(subs) == 1)
    if len(subs) == 1:
        dv, bv = subs[0]
        ctx.oblige("post", "sigma_filter.%s.subtraction_rows_aligned_with_shared_background" % tag,
                   And(dv.owner == 'data', bv.owner == 'ibkg', bv.r0 == drm + dv.r0, bv.r1 - bv.r0 == dv.r1 - dv.r0,
                       dv.c0 == 0, dv.c1 == C, bv.c0 == 0, bv.c1 == C))
    # writes of the interpolated maps
    writes = [w for w in gh.get('writes', []) if w[0].owner in ('ibkg', 'irms')]
    ok_w = len(writes) == 2 and writes[0][0].owner == 'ibkg' and writes[1][0].owner == 'irms'
    ctx.oblige("post", "sigma_filter.%s.writes_bkg_then_rms_once_each" % tag, ok_w)
    if ok_w:
        for (tgt, val), nm in zip(writes, ('bkg', 'rms')):
            ctx.oblige("post", "sigma_filter.%s.%s_written_rows_are_own_stripe" % (tag, nm),
                       And(tgt.r0 == ymin, tgt.r1 == ymax, tgt.c0 == 0, tgt.c1 == C,
                           isinstance(val, Rows) and val.kind == 'interp',
                           (val.r1 - val.r0 == ymax - ymin) if isinstance(val, Rows) else False))
    # interpolation grid
    mg = gh.get('mgrid')
    if mg is not None:
        ctx.oblige("post", "sigma_filter.query_grid_is_own_rows_in_data_coordinates",
                   And(mg[0] == ymin - drm, mg[1] == ymax - drm, mg[2] == 0, mg[3] == C))
    for grids, pts in gh.get('rgi_queries', []):
        rows, cols = grids
        ok_g = isinstance(rows, SeqList) and isinstance(cols, SeqList) and isinstance(pts, tuple) and isinstance(pts[0], Rows)
        ctx.oblige("safe", "sigma_filter.rgi.grids_are_range_plus_end", ok_g)
        if not ok_g:
            continue
        k = ctx.fresh_int("gk")
        for g_, nm in ((rows, 'rows'), (cols, 'cols')):
            L = g_.len_(ctx)
            ctx.oblige("safe", "sigma_filter.rgi.grid_strictly_increasing." + nm,
                       Implies(And(k >= 0, k + 1 < L), g_.at(k) < g_.at(k + 1)), timeout_ms=30000)
            ctx.oblige("safe", "sigma_filter.rgi.grid_has_two_points." + nm, L >= 2, timeout_ms=30000)
        q = pts[0]
        ctx.oblige("safe", "sigma_filter.rgi.query_inside_grid",
                   And(rows.at(0) <= q.r0, q.r1 - 1 <= rows.at(rows.len_(ctx) - 1),
                       cols.at(0) <= q.c0, q.c1 - 1 <= cols.at(cols.len_(ctx) - 1)), timeout_ms=30000)
    # mask
    mw = gh.get('mask_writes', [])
    if domask:
        ctx.oblige("post", "sigma_filter.mask.both_maps_blanked", len(mw) == 2 and
                   {mw[0][0].owner, mw[1][0].owner} == {'ibkg', 'irms'} and all(isinstance(w[2], NaNType) for w in mw))
        for tgt, m, v in mw:
            ctx.oblige("post", "sigma_filter.mask.every_non_finite_pixel_selected", m.kind == 'mask')
            ctx.oblige("post", "sigma_filter.mask.mask_rows_aligned_with_own_stripe",
                       And(tgt.r0 == ymin, tgt.r1 == ymax, m.owner == 'data', m.r0 == ymin - drm, m.r1 - m.r0 == ymax - ymin,
                           m.c0 == 0, m.c1 == C))
    else:
        ctx.oblige("post", "sigma_filter.nomask.no_blanking", len(mw) == 0)
    sc = gh.get('scalings', [])
    ctx.oblige("post", "sigma_filter.bscale_applied_iff_present",
               (len(sc) == 1) == ctx.truth(hdr.present['BSCALE']) if True else True)
