"""C16 — pixel <-> sky conversion of positions, vectors, ellipses (AegeanTools/wcs_helpers.py, class WCSHelper).

Decided (conditional on the astropy contract: all_pix2world(xy, origin) = W(xy - origin + 1), all_world2pix its
inverse + origin - 1, W on 1-based FITS coordinates with axis 1 = column):
  pix2sky((x, y)) = W(y, x)   -- (x, y) = (row, column), 1-based;   sky2pix(pos) = swap(W^-1(pos));
  hence sky2pix(pix2sky(p)) = p and pix2sky(sky2pix(s)) = s exactly (the 1e-6 is astropy's);
  psf_sky2pix: same convention on the psf WCS, None without one;
  the reference beam is evaluated at pix2sky([refpix[1], refpix[0]]);
  vector / ellipse conventions: pix2sky_vec / pix2sky_ellipse step from the pixel along (cos theta, sin theta) in
  (row, column) space, lengths are gcd() and angles bear() from the centre (great-circle lengths, East of North --
  C17), the minor axis is taken at theta-90 and corrected by |cos(defect)|; sky2pix_vec / sky2pix_ellipse use
  translate(ra, dec, r, pa), arctan2(dy, dx), minor at pa-90 with the same correction.
NOT decided: the 1e-3 / 0.01 deg round trip of lengths and angles (local linearity of the projection).
"""
import z3

from pyvc.engine import (Ctx, PyObj, Model, Namespace, Obj, Undecided, PyRaise, ExcValue, ClassModel, Instance, Env)
from pyvc.values import Sym, And, Or, Not, Implies, ite
from pyvc import lib

PROPERTY = "C16"
FILE = "AegeanTools/wcs_helpers.py"
ASSUMPTIONS = [
    "astropy WCS.all_pix2world(xy, origin, ra_dec_order) = W(xy - origin + 1) with axis 1 = column; all_world2pix is its inverse "
    "plus origin - 1 (to astropy's own tolerance)",
    "angle_tools.gcd / bear / translate by their C17 contracts (here: uninterpreted functions)",
    "vector / ellipse round-trip tolerances (1e-3 relative, 0.01 deg) are NOT decided: they depend on the local linearity of the "
    "projection, only the conventions on both sides are proved",
    "floats as reals",
]
R = z3.RealSort()
Wra, Wdec = z3.Function('W_ra', R, R, R), z3.Function('W_dec', R, R, R)
WX, WY = z3.Function('Winv_x', R, R, R), z3.Function('Winv_y', R, R, R)
PX, PY = z3.Function('Pinv_x', R, R, R), z3.Function('Pinv_y', R, R, R)
GCD = z3.Function('gcd_deg', R, R, R, R, R)
BEAR = z3.Function('bear_deg', R, R, R, R, R)
TRA, TDEC = z3.Function('tr_ra', R, R, R, R, R), z3.Function('tr_dec', R, R, R, R, R)


def rl(x):
    e = Sym.num(x)
    return z3.ToReal(e) if z3.is_int(e) else e


class WCSModel(PyObj):
    def __init__(self, fx, fy, tag):
        self.fx, self.fy, self.tag = fx, fy, tag
        self.calls = []

    def getattr_(self, ctx, name):
        if name in ('all_pix2world', 'wcs_pix2world'):
            def p2w(c, xy, origin, ra_dec_order=False, **kw):
                c.session.trust("astropy WCS.%s contract" % name)
                self.calls.append((name, origin, ra_dec_order))
                out = []
                for row in c.interp.iterate(xy):
                    a, b = c.interp.iterate(row)
                    x, y = rl(a) - rl(origin) + 1, rl(b) - rl(origin) + 1
                    out.append([Sym(Wra(x, y), True), Sym(Wdec(x, y), True)])
                return out
            return Model(p2w, 'wcs.' + name)
        if name in ('all_world2pix', 'wcs_world2pix'):
            def w2p(c, pos, origin, ra_dec_order=False, **kw):
                c.session.trust("astropy WCS.%s contract" % name)
                self.calls.append((name, origin, ra_dec_order))
                out = []
                for row in c.interp.iterate(pos):
                    a, b = c.interp.iterate(row)
                    out.append([Sym(self.fx(rl(a), rl(b)) + rl(origin) - 1, True), Sym(self.fy(rl(a), rl(b)) + rl(origin) - 1, True)])
                return out
            return Model(w2p, 'wcs.' + name)
        raise Undecided("WCS." + name)


def genv(ctx):
    np_ = lib.std_np()
    g = {'np': np_,
         'gcd': Model(lambda c, a, b, cc, d: Sym(GCD(rl(a), rl(b), rl(cc), rl(d)), True), 'gcd'),
         'bear': Model(lambda c, a, b, cc, d: Sym(BEAR(rl(a), rl(b), rl(cc), rl(d)), True), 'bear'),
         'translate': Model(lambda c, a, b, r, t: (Sym(TRA(rl(a), rl(b), rl(r), rl(t)), True),
                                                   Sym(TDEC(rl(a), rl(b), rl(r), rl(t)), True)), 'translate'),
         'log': Namespace('log')}
    cls = ClassModel(FILE, 'WCSHelper', Env(g))
    for m in cls.methods:
        ctx.interp.inline.add("WCSHelper." + m)
    return g, cls


def mk_helper(ctx, cls, with_psf=False):
    w = WCSModel(WX, WY, "img")
    h = Instance(cls, wcs=w, ra_dec_order=False, psf_file=("psf.fits" if with_psf else None),
                 _psf_wcs=(WCSModel(PX, PY, "psf") if with_psf else None), _psf_map=None)
    return h, w


def call(ctx, h, meth, *args):
    try:
        return 'return', ctx.interp.call(h.getattr_(ctx, meth), list(args), {})
    except PyRaise as pr:
        return 'raise', pr.exc


def sym(name):
    return Sym(z3.Real(name), True)


def t_positions(ctx):
    g, cls = genv(ctx)
    h, w = mk_helper(ctx, cls)
    x, y = sym('x'), sym('y')
    k, sky = call(ctx, h, 'pix2sky', [x, y])
    ok = k == 'return' and len(ctx.interp.iterate(sky)) == 2
    ctx.oblige("post", "pix2sky.returns_ra_dec_pair", ok)
    if not ok:
        return
    ra, dec = ctx.interp.iterate(sky)
    ctx.oblige("post", "pix2sky.swap_and_origin", And(ra == Sym(Wra(rl(y), rl(x))), dec == Sym(Wdec(rl(y), rl(x)))))
    ra0, dec0 = sym('ra'), sym('dec')
    k, pix = call(ctx, h, 'sky2pix', [ra0, dec0])
    ok = k == 'return' and len(ctx.interp.iterate(pix)) == 2
    ctx.oblige("post", "sky2pix.returns_pixel_pair", ok)
    if not ok:
        return
    px, py = ctx.interp.iterate(pix)
    ctx.oblige("post", "sky2pix.swap_and_origin", And(px == Sym(WY(rl(ra0), rl(dec0))), py == Sym(WX(rl(ra0), rl(dec0)))))
    ctx.oblige("post", "ra_dec_order_flag_passed", all(c[2] is False for c in w.calls) and len(w.calls) == 2)
    # round trips from the inverse contract
    inv1 = z3.And(WX(Wra(rl(y), rl(x)), Wdec(rl(y), rl(x))) == rl(y), WY(Wra(rl(y), rl(x)), Wdec(rl(y), rl(x))) == rl(x))
    k, back = call(ctx, h, 'sky2pix', [ra, dec])
    bx, by = ctx.interp.iterate(back)
    ctx.oblige("lemma", "position_roundtrip.pixel_sky_pixel", Implies(Sym(inv1), And(bx == x, by == y)))
    X_, Y_ = WX(rl(ra0), rl(dec0)), WY(rl(ra0), rl(dec0))
    inv2 = z3.And(Wra(X_, Y_) == rl(ra0), Wdec(X_, Y_) == rl(dec0))
    k, s2 = call(ctx, h, 'pix2sky', [px, py])
    r2, d2 = ctx.interp.iterate(s2)
    ctx.oblige("lemma", "position_roundtrip.sky_pixel_sky", Implies(Sym(inv2), And(r2 == ra0, d2 == dec0)))


def t_psf(ctx):
    g, cls = genv(ctx)
    has = ctx.free_branch()
    h, w = mk_helper(ctx, cls, with_psf=has)
    # psf_wcs is a property reading _psf_wcs (lazily loaded from psf_file): modelled as the stored object
    h.fields['psf_wcs'] = h.fields['_psf_wcs']
    ra0, dec0 = sym('ra'), sym('dec')
    k, pix = call(ctx, h, 'psf_sky2pix', [ra0, dec0])
    if not has:
        ctx.oblige("post", "psf_sky2pix.none_without_psf_map", k == 'return' and pix is None)
        return
    ok = k == 'return' and pix is not None and len(ctx.interp.iterate(pix)) == 2
    ctx.oblige("post", "psf_sky2pix.returns_pixel_pair", ok)
    if ok:
        px, py = ctx.interp.iterate(pix)
        ctx.oblige("post", "psf_sky2pix.swap_and_origin_on_psf_wcs",
                   And(px == Sym(PY(rl(ra0), rl(dec0))), py == Sym(PX(rl(ra0), rl(dec0)))))


def P(x, y):
    """pix2sky of pixel (x, y) per the contract above"""
    return Sym(Wra(rl(y), rl(x)), True), Sym(Wdec(rl(y), rl(x)), True)


def S2P(ra, dec):
    return Sym(WY(rl(ra), rl(dec)), True), Sym(WX(rl(ra), rl(dec)), True)


def t_vectors(ctx):
    g, cls = genv(ctx)
    h, w = mk_helper(ctx, cls)
    x, y, r, th = sym('x'), sym('y'), sym('r'), sym('theta')
    ct, st = lib.m_cos(ctx, lib.m_radians(ctx, th)), lib.m_sin(ctx, lib.m_radians(ctx, th))
    k, res = call(ctx, h, 'pix2sky_vec', (x, y), r, th)
    ok = k == 'return' and isinstance(res, tuple) and len(res) == 4
    ctx.oblige("post", "pix2sky_vec.returns_ra_dec_length_pa", ok)
    if ok:
        c_ra, c_dec = P(x, y)
        o_ra, o_dec = P(x + r * ct, y + r * st)
        ctx.oblige("post", "pix2sky_vec.conventions",
                   And(res[0] == c_ra, res[1] == c_dec,
                       res[2] == Sym(GCD(rl(c_ra), rl(c_dec), rl(o_ra), rl(o_dec))),
                       res[3] == Sym(BEAR(rl(c_ra), rl(c_dec), rl(o_ra), rl(o_dec)))))
    ra0, dec0, pa = sym('ra'), sym('dec'), sym('pa')
    k, res = call(ctx, h, 'sky2pix_vec', (ra0, dec0), r, pa)
    ok = k == 'return' and isinstance(res, tuple) and len(res) == 4
    ctx.oblige("post", "sky2pix_vec.returns_x_y_length_theta", ok)
    if ok:
        cx, cy = S2P(ra0, dec0)
        ox, oy = S2P(Sym(TRA(rl(ra0), rl(dec0), rl(r), rl(pa))), Sym(TDEC(rl(ra0), rl(dec0), rl(r), rl(pa))))
        d2 = (cx - ox) * (cx - ox) + (cy - oy) * (cy - oy)
        ctx.oblige("post", "sky2pix_vec.conventions",
                   And(res[0] == cx, res[1] == cy, res[2] >= 0, res[2] * res[2] == d2,
                       res[3] == Sym(lib.f_atan2(rl(oy - cy), rl(ox - cx)) * 180 / lib.PI)))


def t_ellipses(ctx):
    g, cls = genv(ctx)
    h, w = mk_helper(ctx, cls)
    x, y, sx, sy, th = sym('x'), sym('y'), sym('sx'), sym('sy'), sym('theta')
    rad = lambda v: lib.m_radians(ctx, v)
    k, res = call(ctx, h, 'pix2sky_ellipse', (x, y), sx, sy, th)
    ok = k == 'return' and isinstance(res, tuple) and len(res) == 5
    ctx.oblige("post", "pix2sky_ellipse.returns_ra_dec_a_b_pa", ok)
    if ok:
        c_ra, c_dec = P(x, y)
        a_ra, a_dec = P(x + sx * lib.m_cos(ctx, rad(th)), y + sx * lib.m_sin(ctx, rad(th)))
        b_ra, b_dec = P(x + sy * lib.m_cos(ctx, rad(th - 90)), y + sy * lib.m_sin(ctx, rad(th - 90)))
        major = Sym(GCD(rl(c_ra), rl(c_dec), rl(a_ra), rl(a_dec)))
        pa = Sym(BEAR(rl(c_ra), rl(c_dec), rl(a_ra), rl(a_dec)))
        pa2 = Sym(BEAR(rl(c_ra), rl(c_dec), rl(b_ra), rl(b_dec))) - 90
        minor = Sym(GCD(rl(c_ra), rl(c_dec), rl(b_ra), rl(b_dec))) * abs(lib.m_cos(ctx, rad(pa - pa2)))
        ctx.oblige("post", "pix2sky_ellipse.conventions",
                   And(res[0] == c_ra, res[1] == c_dec, res[2] == major, res[4] == pa))
        ctx.oblige("post", "pix2sky_ellipse.minor_axis_direction_and_defect", res[3] == minor)
    ra0, dec0, a, b, pa = sym('ra'), sym('dec'), sym('a'), sym('b'), sym('pa')
    k, res = call(ctx, h, 'sky2pix_ellipse', (ra0, dec0), a, b, pa)
    ok = k == 'return' and isinstance(res, tuple) and len(res) == 5
    ctx.oblige("post", "sky2pix_ellipse.returns_x_y_sx_sy_theta", ok)
    if ok:
        cx, cy = S2P(ra0, dec0)
        tr = lambda rr, pp: (Sym(TRA(rl(ra0), rl(dec0), rl(rr), rl(pp))), Sym(TDEC(rl(ra0), rl(dec0), rl(rr), rl(pp))))
        ax, ay = S2P(*tr(a, pa))
        bx, by = S2P(*tr(b, pa - 90))
        theta = Sym(lib.f_atan2(rl(ay - cy), rl(ax - cx)))
        theta2 = Sym(lib.f_atan2(rl(by - cy), rl(bx - cx)) - lib.PI / 2)
        ctx.oblige("post", "sky2pix_ellipse.conventions",
                   And(res[0] == cx, res[1] == cy, res[2] >= 0,
                       res[2] * res[2] == (cx - ax) * (cx - ax) + (cy - ay) * (cy - ay),
                       res[4] == Sym(theta.e * 180 / lib.PI)))
        hyp_b = ctx.fresh_real("hb")
        ctx.oblige("post", "sky2pix_ellipse.minor_axis_direction_and_defect",
                   Implies(And(hyp_b >= 0, hyp_b * hyp_b == (cx - bx) * (cx - bx) + (cy - by) * (cy - by)),
                           res[3] == hyp_b * abs(Sym(lib.f_cos(rl(theta - theta2))))))


def t_init(ctx):
    g, cls = genv(ctx)
    w = WCSModel(WX, WY, "img")
    beam = Obj('Beam', a=sym('beam_a'), b=sym('beam_b'), pa=sym('beam_pa'))
    r0, r1 = sym('crpix1'), sym('crpix2')
    calls = []
    ctx.interp.contracts['WCSHelper.sky2pix_ellipse'] = Model(
        lambda c, self_, pos, a, b, pa: (calls.append((pos, a, b, pa)) or (0, 0, sym('pa_'), sym('pb_'), sym('pt_'))))
    try:
        h = cls.call_(ctx, [w, beam, (sym('ps1'), sym('ps2')), [r0, r1]], {})
    except PyRaise:
        ctx.oblige("post", "init.no_exception", False)
        return
    ok = len(calls) == 1
    ctx.oblige("post", "init.reference_beam_evaluated_once", ok)
    if ok:
        pos, a, b, pa = calls[0]
        ra, dec = ctx.interp.iterate(pos)
        # refpix = (CRPIX1, CRPIX2) = (column, row): the reference pixel in (row, col) order is [refpix[1], refpix[0]]
        ctx.oblige("post", "init.refpix_order", And(ra == Sym(Wra(rl(r0), rl(r1))), dec == Sym(Wdec(rl(r0), rl(r1)))))
        ctx.oblige("post", "init.beam_passed_as_a_b_pa", a is beam.fields['a'] and b is beam.fields['b'] and pa is beam.fields['pa'])
        ctx.oblige("post", "init.pixel_beam_stored",
                   h.fields.get('_psf_a') is not None and h.fields.get('_psf_b') is not None)


def verify(S):
    # the spherical primitives the vector / ellipse conversions are built on, by their C17 contracts
    from contracts import c17
    for name, fn in (("angle_tools.gcd", c17.t_gcd), ("angle_tools.bear", c17.t_bear), ("angle_tools.translate", c17.t_translate),
                     ("wcs_helpers.WCSHelper.positions", t_positions), ("wcs_helpers.WCSHelper.psf_sky2pix", t_psf),
                     ("wcs_helpers.WCSHelper.vectors", t_vectors), ("wcs_helpers.WCSHelper.ellipses", t_ellipses),
                     ("wcs_helpers.WCSHelper.__init__", t_init)):
        if S.only and S.only not in name:
            continue
        ctx = Ctx(S, name)
        try:
            ctx.explore(fn)
        except Undecided as u:
            S.undecided.append("%s: %s" % (name, u))
    ctx = Ctx(S, "wcs_helpers.WCSHelper.positions")

    def canary(c):
        g, cls = genv(c)
        h, w = mk_helper(c, cls)
        x, y = sym('x'), sym('y')
        k, sky = call(c, h, 'pix2sky', [x, y])
        ra, dec = c.interp.iterate(sky)
        c.oblige("canary", "pix2sky_without_swap", ra == Sym(Wra(rl(x), rl(y))), expect="fail")
    ctx.explore(canary)


REPLAY = {"*": "replay_wcs"}
NATIVE_CHECKS = [{"func": "crosscheck", "payload": {}}]
