"""C08 — region operations are set algebra on sky pixels, for every history (AegeanTools/regions.py, class Region).

"For every history" = induction over the representation invariant WF: every public operation is verified for
an ARBITRARY well-formed operand state (all pixel sets symbolic), to preserve WF and to have its set-algebra
postcondition on the deepest-level view; hence any finite sequence of operations does.

  V(r)(q)  (q a pixel id at depth D = r.maxdepth)  :=  OR_{d=1..D}  (q div 4^(D-d)) in r.pixeldict[d]
  WF(r): I2  every stored id is an integer with 0 <= id < 12*4^d;
         I3  r.demoted is empty, or is the very set object pixeldict[D] with all coarser levels empty (cache coherent);
         sep no set object is shared between levels or between two regions.
  I4 (after normalising operations): no pixel stored together with one of its ancestors; no complete sibling quadruple
         above level 2.

Depth: the verification is run for concrete depths (D in 1..3, mixed-depth pairs for union); for each depth the
proof covers ALL region contents (symbolic sets) -- it is parametric in content, enumerated in depth.  Set iteration
loops are cut by functional invariants over a ghost `done` subset (contracts/sets.py).
"""
import z3

from pyvc.engine import (Ctx, PyObj, Model, Namespace, Obj, run_function, find_function, Closure, Env, Undecided,
                         PyRaise, ExcValue, ExcClass, ClassModel, Instance)
from pyvc.values import Sym, And, Or, Not, Implies, ite, Opaque
from pyvc import lib
from contracts.sets import SSet, SetLoopSpec, fresh_pred, elem, is_integral, to_r, SetCard, INVALID
from contracts import sets as setsmod

PROPERTY = "C08"
FILE = "AegeanTools/regions.py"
DEPTHS_QUICK = [1, 2, 3]

ASSUMPTIONS = [
    "depth is enumerated (maxdepth 1..3 quick, 1..4 thorough; union also for mixed depths): for each depth the proof "
    "covers all region contents; the argument is not parametric in maxdepth (bounded in depth, unbounded in content)",
    "python set semantics: element equality is numeric equality (3 == 3.0); iteration visits each element once; "
    "set(x)/copy() create new objects; update/difference_update/... mutate in place",
    "healpy.query_disc / query_polygon return valid NESTED pixel ids (integers in [0, 12*4^depth)) at the requested nside",
    "healpy.nside2pixarea(2**d) = A(d) (get_area is compared structurally: sum_d card(level d) * A(d)); the equality "
    "of that sum with card(V)*A(D) under I4 is NOT decided (cardinality reasoning) -- covered only by the native cross-check",
    "pickle save/load returns an equal object graph (identity of shared set objects preserved)",
]

R = z3.RealSort()


def npix(d):
    return 12 * 4 ** d


def valid_id(e, d):
    return And(to_r(e) >= 0, to_r(e) < npix(d))


def mk_set_model():
    def mk(c, *a):
        if not a:
            return SSet()
        return SSet.of(c, a[0])
    return Model(mk, 'set')


class PixArray(PyObj):
    """array of pixel ids returned by healpy (valid ids at `depth`)"""

    def __init__(self, pred):
        self.pred = pred

    def as_set_pred(self, ctx):
        p = self.pred
        return lambda e: p(e)


def genv(ctx):
    hp = Namespace('hp')
    np_ = lib.std_np()
    g = {'np': np_, 'hp': hp, 'set': mk_set_model(), 'AssertionError': ExcClass('AssertionError'),
         'cPickle': Namespace('cPickle'), 'os': Namespace('os'), 'fits': Namespace('fits'),
         'datetime': Namespace('datetime'), 'SkyCoord': Namespace('SkyCoord'), 'u': Namespace('u')}
    menv = Env(g)
    cls = ClassModel(FILE, 'Region', menv)
    g['Region'] = cls
    for m in cls.methods:
        ctx.interp.inline.add("Region." + m)
    install_loop_specs(ctx)
    return g, cls


def mk_region(ctx, cls, tag, D, cached, normalised=False):
    """arbitrary well-formed Region of depth D.  cached=True: the demoted cache is filled (alias of level D)."""
    levels = {}
    for d in range(1, D + 1):
        if cached and d < D:
            levels[d] = SSet()
        else:
            L = fresh_pred("L%s_%d" % (tag, d))
            levels[d] = SSet((lambda L, d: lambda e: And(L(e), valid_id(e, d)))(L, d))
    if cached:
        demoted = levels[D]
    else:
        demoted = SSet()
    r = Instance(cls, maxdepth=D, pixeldict=levels, demoted=demoted)
    r.tag = tag
    # "for every history": any attribute the code reads that the representation invariant does not constrain is arbitrary
    r.havocked = True
    return r


def view(r, q, D=None):
    """V(r)(q) for a pixel id term q at depth D (default r.maxdepth)"""
    pd = r.fields['pixeldict']
    Dr = r.fields['maxdepth']
    D = Dr if D is None else D
    out = []
    for d in range(1, Dr + 1):
        if d not in pd or not isinstance(pd[d], SSet):
            raise Undecided("pixeldict level %d is not a set" % d)
        out.append(pd[d].has(idiv(q, 4 ** (D - d))) if D >= d else False)
    return Or(*out)


def idiv(q, k):
    """ancestor k = 4^j levels up of a (non-negative, integral) pixel id"""
    if k == 1:
        return q
    return Sym(elem(q) / k)


def snapshot_view(r, D=None):
    """freeze the current view as a closure (captures the current membership closures)"""
    pd = r.fields['pixeldict']
    Dr = r.fields['maxdepth']
    D = Dr if D is None else D
    preds = {d: pd[d].pred for d in range(1, Dr + 1)}
    return lambda q: Or(*[preds[d](idiv(q, 4 ** (D - d))) for d in range(1, Dr + 1) if D >= d])


def skolem_pixel(ctx, D, name="q"):
    q = ctx.fresh_int(name)
    ctx.assume(And(q >= 0, q < npix(D)))
    return q


# ---------------------------------------------------------------------------
# well-formedness obligations
# ---------------------------------------------------------------------------

def oblige_wf(ctx, r, label, others=(), normalised=False, at=None):
    pd = r.fields['pixeldict']
    D = r.fields['maxdepth']
    keys_ok = isinstance(pd, dict) and all(k in pd and isinstance(pd[k], SSet) for k in range(1, D + 1))
    ctx.oblige("post", label + ".wf.levels_present", keys_ok and all(isinstance(k, int) and 1 <= k <= D for k in pd))
    if not keys_ok:
        return
    e = ctx.fresh_real("e_wf")
    for d in range(1, D + 1):
        ctx.oblige("post", label + ".wf.ids_valid_integers", Implies(pd[d].has(e), valid_id(e, d)), at=[e])
    dem = r.fields['demoted']
    if not isinstance(dem, SSet):
        ctx.oblige("post", label + ".wf.cache_coherent", False)
    elif dem is pd[D]:
        ctx.oblige("post", label + ".wf.cache_coherent", And(*[Not(pd[d].has(e)) for d in range(1, D)]), at=[e])
    else:
        ctx.oblige("post", label + ".wf.cache_coherent", Not(dem.has(e)), at=[e])
    # separation
    objs = [pd[d] for d in range(1, D + 1)]
    sep = len(set(id(o) for o in objs)) == len(objs) and (dem is pd[D] or all(dem is not o for o in objs))
    for o in others:
        opd = o.fields['pixeldict']
        for od in opd.values():
            sep = sep and all(od is not x for x in objs) and od is not dem
        sep = sep and (o.fields['demoted'] is not dem) and all(o.fields['demoted'] is not x for x in objs)
    ctx.oblige("post", label + ".wf.no_shared_set_objects", sep)
    if normalised:
        q = skolem_pixel(ctx, D, "q_norm")
        hits = [pd[d].has(idiv(q, 4 ** (D - d))) for d in range(1, D + 1)]
        # no patch of sky twice: at most one level holds an ancestor-or-self of q
        pairs = [Not(And(hits[a], hits[b])) for a in range(D) for b in range(a + 1, D)]
        ctx.oblige("post", label + ".norm.no_patch_of_sky_twice", And(*pairs) if pairs else True, at=[q])
        for d in range(3, D + 1):
            b = ctx.fresh_int("b_quad")
            bb = b * 4
            ctx.oblige("post", label + ".norm.no_complete_quadruple",
                       Not(And(*[pd[d].has(bb + k) for k in range(4)])), at=[bb, bb + 1, bb + 2, bb + 3])


# ---------------------------------------------------------------------------
# loop contracts (functional invariants over the ghost done-set)
# ---------------------------------------------------------------------------

def install_loop_specs(ctx):
    it = ctx.interp

    # --- _demote_all:  for p in pd[d]: pd[d+1].update({4p, 4p+1, 4p+2, 4p+3})
    st = {}

    def dem_enter(c, env):
        d = env.lookup('d')
        pd = env.lookup('pd')
        if not isinstance(d, int) or d + 1 not in pd:
            raise Undecided("_demote_all: unexpected loop shape")
        st['tgt'] = pd[d + 1]
        st['old'] = pd[d + 1].pred

    def dem_F(done):
        old = st['old']
        # children of p are 4p..4p+3: e is a child of a done pixel iff e >= 0 and (e div 4) is done
        return lambda e: Or(old(e), And(to_r(e) >= 0, done(idiv(e, 4))))

    def dem_install(c, env, done):
        st['tgt'].pred = dem_F(done)
        st['tgt'].known_empty = False

    def dem_claims(c, env, done):
        F = dem_F(done)
        tgt = st['tgt']
        return [("children_of_done_added", lambda e: tgt.has(e) == F(e))]
    it.loops["for p in pd[d]"] = SetLoopSpec(dem_enter, dem_install, dem_claims, lambda c, env: [st['tgt']],
                                             label="demote_level")

    # --- _renorm:  for p in plist: complete quadruples of level d are replaced by their parent at level d-1
    rn = {}

    def rn_enter(c, env):
        d = env.lookup('d')
        me = env.lookup('self')
        pd = me.fields['pixeldict']
        plist = env.lookup('plist')
        if not isinstance(d, int) or not isinstance(plist, SSet) or d - 1 not in pd:
            raise Undecided("_renorm: unexpected loop shape")
        rn['cur'], rn['up'] = pd[d], pd[d - 1]
        rn['old_cur'], rn['old_up'] = pd[d].pred, pd[d - 1].pred
        rn['plist'] = plist.pred

    def rn_F(done):
        # capture the state of THIS loop instance (the level loop of _renorm runs this loop once per level)
        oc, ou, pl = rn['old_cur'], rn['old_up'], rn['plist']

        def quad(b):
            return And(pl(b + 1), pl(b + 2), pl(b + 3))

        def base_ok(b):
            return And(done(b), Sym(elem(b) % 4 == 0), quad(b))
        cur = lambda e: And(oc(e), Not(Or(*[base_ok(to_r(e) - k) for k in range(4)])))
        up = lambda e: Or(ou(e), And(to_r(e) != INVALID, base_ok(to_r(e) * 4)))
        return cur, up

    def rn_install(c, env, done):
        cur, up = rn_F(done)
        rn['cur'].pred, rn['up'].pred = cur, up
        rn['cur'].known_empty = rn['up'].known_empty = False

    def rn_claims(c, env, done):
        cur, up = rn_F(done)
        return [("quadruples_removed", lambda e: rn['cur'].has(e) == cur(e)),
                ("parents_added", lambda e: rn['up'].has(e) == up(e))]
    it.loops["for p in plist"] = SetLoopSpec(rn_enter, rn_install, rn_claims, lambda c, env: [rn['cur'], rn['up']],
                                             label="promote_level")

    # --- union (other deeper):  for p in other.pixeldict[d]: self.pixeldict[D].add(p / 4**(d-D))
    un = {}

    def un_enter(c, env):
        d = env.lookup('d')
        me = env.lookup('self')
        D = me.fields['maxdepth']
        un['tgt'] = me.fields['pixeldict'][D]
        un['old'] = un['tgt'].pred
        un['k'] = 4 ** (d - D)

    def un_F(done):
        old, k = un['old'], un['k']
        # the spec: the ancestor at depth D of every done pixel is added:  e in new  <=>  old(e) or exists p in done: p div k = e
        # (p div k = e  <=>  k*e <= p < k*(e+1), e integral) -- stated with a bounded enumeration of the k children
        return lambda e: Or(old(e), And(to_r(e) != INVALID, Or(*[done(to_r(e) * k + j) for j in range(k)])))

    def un_install(c, env, done):
        un['tgt'].pred = un_F(done)
        un['tgt'].known_empty = False

    def un_claims(c, env, done):
        F = un_F(done)
        return [("ancestors_of_done_added", lambda e: un['tgt'].has(e) == F(e))]
    it.loops["for p in other.pixeldict[d]"] = SetLoopSpec(un_enter, un_install, un_claims, lambda c, env: [un['tgt']],
                                                          label="degrade_finer_level")


# ---------------------------------------------------------------------------
# targets: one per public operation x depth x cache state
# ---------------------------------------------------------------------------

def call(ctx, r, meth, *args, **kw):
    try:
        m = r.getattr_(ctx, meth)
        return ('return', ctx.interp.call(m, list(args), kw))
    except PyRaise as pr:
        return ('raise', pr.exc)


def cache_modes(D):
    return [False, True]


def op_targets(S):
    depths = DEPTHS_QUICK if getattr(S, 'tier', 'quick') == 'quick' else [1, 2, 3, 4]
    T = []

    def add(name, fn):
        T.append((name, fn))

    for D in depths:
        for cached in (False, True):
            tagc = "D%d.%s" % (D, "cached" if cached else "cold")

            def t_get_demoted(ctx, D=D, cached=cached, tagc=tagc):
                setsmod.reset()
                g, cls = genv(ctx)
                r = mk_region(ctx, cls, "a", D, cached)
                V0 = snapshot_view(r)
                k, res = call(ctx, r, 'get_demoted')
                lab = "get_demoted." + tagc
                if k != 'return':
                    ctx.oblige("safe", lab + ".no_exception", False)
                    return
                q = skolem_pixel(ctx, D)
                ctx.oblige("post", lab + ".result_is_view", isinstance(res, SSet) and res.has(q) == V0(q), at=[q])
                ctx.oblige("post", lab + ".view_unchanged", view(r, q) == V0(q), at=[q])
                oblige_wf(ctx, r, lab)
            add("regions.Region.get_demoted", t_get_demoted)

            def t_renorm(ctx, D=D, cached=cached, tagc=tagc):
                setsmod.reset()
                g, cls = genv(ctx)
                r = mk_region(ctx, cls, "a", D, cached)
                V0 = snapshot_view(r)
                k, res = call(ctx, r, '_renorm')
                lab = "_renorm." + tagc
                if k != 'return':
                    ctx.oblige("safe", lab + ".no_exception", False)
                    return
                q = skolem_pixel(ctx, D)
                ctx.oblige("post", lab + ".view_unchanged", view(r, q) == V0(q), at=[q])
                oblige_wf(ctx, r, lab, normalised=True)
            add("regions.Region._renorm", t_renorm)

            def t_add_pixels(ctx, D=D, cached=cached, tagc=tagc):
                setsmod.reset()
                g, cls = genv(ctx)
                r = mk_region(ctx, cls, "a", D, cached)
                V0 = snapshot_view(r)
                for depth in range(1, D + 1):
                    pass
                depth = 1 + ctx.choice(D)
                PIX = fresh_pred("PIX")
                pix = PixArray(lambda e: And(PIX(e), valid_id(e, depth)))
                k, res = call(ctx, r, 'add_pixels', pix, depth)
                lab = "add_pixels.%s.at%d" % (tagc, depth)
                if k != 'return':
                    ctx.oblige("safe", lab + ".no_exception", False)
                    return
                q = skolem_pixel(ctx, D)
                ctx.oblige("post", lab + ".view_is_union_with_descendants",
                           view(r, q) == Or(V0(q), pix.pred(idiv(q, 4 ** (D - depth)))), at=[q])
                oblige_wf(ctx, r, lab)
                # a later query must see the new pixels (cache coherence, observable form)
                k2, dem = call(ctx, r, 'get_demoted')
                if k2 == 'return' and isinstance(dem, SSet):
                    ctx.oblige("post", lab + ".later_query_sees_new_pixels",
                               dem.has(q) == Or(V0(q), pix.pred(idiv(q, 4 ** (D - depth)))), at=[q])
                else:
                    ctx.oblige("post", lab + ".later_query_sees_new_pixels", False)
            add("regions.Region.add_pixels", t_add_pixels)

            def t_get_area(ctx, D=D, cached=cached, tagc=tagc):
                setsmod.reset()
                g, cls = genv(ctx)
                g['hp'].members['nside2pixarea'] = Model(lambda c, nside, degrees=False: ('A', nside, degrees), 'hp.nside2pixarea')
                r = mk_region(ctx, cls, "a", D, cached)
                pd0 = dict(r.fields['pixeldict'])
                preds0 = {d: pd0[d].pred for d in pd0}
                k, res = call(ctx, r, 'get_area')
                lab = "get_area." + tagc
                from contracts.sets import MeasureSum
                ok = k == 'return' and isinstance(res, MeasureSum) and \
                    [(id(s), kk) for s, kk in res.terms] == [(id(pd0[d]), ('A', 2 ** d, True)) for d in range(1, D + 1)]
                ctx.oblige("post", lab + ".sum_over_all_levels_of_card_times_pixarea", ok)
                ctx.oblige("frame", lab + ".state_unchanged",
                           all(r.fields['pixeldict'][d] is pd0[d] and pd0[d].pred is preds0[d] for d in pd0))
            add("regions.Region.get_area", t_get_area)

        for op in ('without', 'intersect', 'symmetric_difference', 'union'):
            for ca in (False, True):
                for cb in (False, True):
                    def t_binop(ctx, D=D, op=op, ca=ca, cb=cb):
                        setsmod.reset()
                        g, cls = genv(ctx)
                        a = mk_region(ctx, cls, "a", D, ca)
                        b = mk_region(ctx, cls, "b", D, cb)
                        Va, Vb = snapshot_view(a), snapshot_view(b)
                        k, res = call(ctx, a, op, b)
                        lab = "%s.D%d.%s_%s" % (op, D, "cached" if ca else "cold", "cached" if cb else "cold")
                        if k != 'return':
                            ctx.oblige("safe", lab + ".no_exception", False)
                            return
                        q = skolem_pixel(ctx, D)
                        want = {'without': And(Va(q), Not(Vb(q))), 'intersect': And(Va(q), Vb(q)),
                                'symmetric_difference': Or(And(Va(q), Not(Vb(q))), And(Not(Va(q)), Vb(q))),
                                'union': Or(Va(q), Vb(q))}[op]
                        ctx.oblige("post", lab + ".view_is_set_operation", view(a, q) == want, at=[q])
                        ctx.oblige("frame", lab + ".other_operand_view_unchanged", view(b, q) == Vb(q), at=[q])
                        oblige_wf(ctx, a, lab + ".self", others=[b], normalised=True)
                        oblige_wf(ctx, b, lab + ".other", others=[a])
                    add("regions.Region." + op, t_binop)

    # depth mismatch: set-difference style operations must refuse; union must degrade/refine
    def t_depth_mismatch(ctx):
        setsmod.reset()
        g, cls = genv(ctx)
        op = ('without', 'intersect', 'symmetric_difference')[ctx.choice(3)]
        a = mk_region(ctx, cls, "a", 2, False)
        b = mk_region(ctx, cls, "b", 3, False)
        Va = snapshot_view(a)
        k, res = call(ctx, a, op, b)
        ctx.oblige("post", op + ".different_depths_rejected", k == 'raise' and res.tname == 'AssertionError')
        q = skolem_pixel(ctx, 2)
        ctx.oblige("frame", op + ".different_depths_leave_region_unchanged", view(a, q) == Va(q), at=[q])
    add("regions.Region.depth_mismatch", t_depth_mismatch)

    for (Da, Db) in ((2, 3), (3, 2), (1, 2), (2, 1), (2, 4)):
        def t_union_mixed(ctx, Da=Da, Db=Db):
            setsmod.reset()
            g, cls = genv(ctx)
            a = mk_region(ctx, cls, "a", Da, False)
            b = mk_region(ctx, cls, "b", Db, False)
            Va, Vb = snapshot_view(a), snapshot_view(b)
            k, res = call(ctx, a, 'union', b)
            lab = "union.D%d_with_D%d" % (Da, Db)
            if k != 'return':
                ctx.oblige("safe", lab + ".no_exception", False)
                return
            q = skolem_pixel(ctx, Da)
            if Db <= Da:
                # coarser operand: its pixels cover all their descendants
                Vb_at_Da = snapshot_view_at(b, Vb, Da, Db)
                ctx.oblige("post", lab + ".view_is_union_with_coarser", view(a, q) == Or(Va(q), Vb_at_Da(q)), at=[q])
            else:
                # finer operand: a depth-Da pixel is covered iff one of its 4^(Db-Da) descendants is in the operand
                k4 = 4 ** (Db - Da)
                any_desc = Or(*[Vb(to_r(q) * k4 + j) for j in range(k4)])
                ctx.oblige("post", lab + ".view_is_union_with_degraded_finer", view(a, q) == Or(Va(q), any_desc),
                           at=[q] + [to_r(q) * k4 + j for j in range(k4)])
            qb = skolem_pixel(ctx, Db, "qb")
            ctx.oblige("frame", lab + ".other_operand_view_unchanged", view(b, qb) == Vb(qb), at=[qb])
            oblige_wf(ctx, a, lab + ".self", others=[b], normalised=True)
            oblige_wf(ctx, b, lab + ".other", others=[a])
        add("regions.Region.union", t_union_mixed)

    def t_init(ctx):
        setsmod.reset()
        g, cls = genv(ctx)
        for D in (1, 2, 5):
            r = cls.call_(ctx, [], {'maxdepth': D})
            q = skolem_pixel(ctx, D, "q%d" % D)
            ctx.oblige("post", "init.empty_view.D%d" % D, Not(view(r, q)))
            oblige_wf(ctx, r, "init.D%d" % D, normalised=True)
    add("regions.Region.__init__", t_init)
    return T


def snapshot_view_at(b, Vb, Da, Db):
    """view of the coarser region b (depth Db <= Da) evaluated on depth-Da pixels"""
    k = 4 ** (Da - Db)
    return lambda q: Vb(idiv(q, k))


def verify(S):
    for name, fn in op_targets(S):
        if S.only and S.only not in name:
            continue
        ctx = Ctx(S, name)
        try:
            ctx.explore(fn)
        except Undecided as u:
            S.undecided.append("%s: %s" % (name, u))
    # the membership query (its answer must be a function of the view alone, whatever happened before): C09's contract
    if not S.only or 'sky_within' in S.only:
        from contracts import c09
        ctx = Ctx(S, "regions.Region.sky_within")
        try:
            ctx.explore(c09.t_sky_within)
        except Undecided as u:
            S.undecided.append("regions.Region.sky_within: %s" % u)
    # canary
    ctx = Ctx(S, "regions.Region.union")

    def canary(c):
        setsmod.reset()
        g, cls = genv(c)
        a = mk_region(c, cls, "a", 2, False)
        b = mk_region(c, cls, "b", 2, False)
        Va = snapshot_view(a)
        call(c, a, 'union', b)
        q = skolem_pixel(c, 2)
        c.oblige("canary", "union_changes_nothing", view(a, q) == Va(q), expect="fail", at=[q])
    ctx.explore(canary)


ENUMERATED = [{"what": 'proof per enumerated depth: maxdepth 1..3 (quick) / 1..4 (thorough), union also for mixed depths; region contents fully symbolic. Not a proof for arbitrary depth (the default maxdepth is 11).', "counted_as_proved": "per instance"}]
REPLAY = {"*": "replay_history"}
NATIVE_CHECKS = [{"func": "crosscheck", "payload": {}}]
