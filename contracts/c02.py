"""C02 / C11 — islands are the seeded, flood-thresholded 8-connected pixel groups; region-restricted finding keeps
exactly the islands with an own pixel whose centre is in the region
(AegeanTools/source_finder.py: find_islands; AegeanTools/models.py: PixelIsland.calc_bounding_box / set_mask).

Relative to the assumed contracts of scipy.ndimage.label (3x3 structure: labels 1..n are exactly the 8-connected
components of the mask, 0 elsewhere) and find_objects (tight bounding slices), for an arbitrary image / background /
noise (symbolic shape, NaN flags, rms > 0) and 0 < flood <= seed:
  own(i) = {p | label(p) = i+1}.   Label i yields an island  iff  exists p in own(i): snr(p) > seed   and
     (no region, or exists p in own(i): within(W(col(p)+1, row(p)+1)));
  an island's bounding_box is the label's tight box, its mask is False exactly on own(i) inside that box (so islands
  are pairwise disjoint, blank pixels -- snr undefined -- are never own pixels); islands appear in label order;
  every pixel with snr >= flood belongs to a label (so raising seed can only drop islands: accept(i) is antitone in seed).
Loop invariant over the labels (ghost cumulative count ACC), per-label obligations at a generic label.
"""
import z3

from pyvc.engine import (Ctx, PyObj, Model, Namespace, Obj, run_function, find_function, Closure, Env, Undecided,
                         PyRaise, ExcValue, ExcClass, LoopSpec, ClassModel, Instance, SymList, seq_len, seq_at, Opaque)
from pyvc.values import Sym, And, Or, Not, Implies, ite, NaN
from pyvc import lib
from contracts.arrays import (SArr, np_array, np_zeros, reset_uids, uid, ZipArr, np_any, np_all, np_nan_to_num, np_isnan,
                              np_isfinite_arr, Pick)
from contracts.c10 import WCS, RegionModel, W_ra, W_dec, WITHIN

FILE = "AegeanTools/source_finder.py"
MFILE = "AegeanTools/models.py"
PROPERTY = "C02"

ASSUMPTIONS = [
    "scipy.ndimage.label(a, structure=ones((3,3))): l[p] = 0 iff not a[p]; l[p] = l[q] != 0 iff p, q are joined by an 8-connected "
    "path inside a; labels are exactly 1..n, each non-empty",
    "scipy.ndimage.find_objects(l)[i] = tight bounding slices of {p | l[p] = i+1}",
    "numpy: elementwise arithmetic/comparisons with NaN -> False, np.any / np.where / boolean-mask assignment / slicing (views), "
    "copy.deepcopy of an array is an independent copy",
    "astropy wcs_pix2world / Region.sky_within contracts as in C10",
    "floats as reals (ties at the thresholds are exact comparisons)",
]

LAB = z3.Function('LAB', z3.IntSort(), z3.IntSort(), z3.IntSort())
X0 = z3.Function('box_x0', z3.IntSort(), z3.IntSort())
X1 = z3.Function('box_x1', z3.IntSort(), z3.IntSort())
Y0 = z3.Function('box_y0', z3.IntSort(), z3.IntSort())
Y1 = z3.Function('box_y1', z3.IntSort(), z3.IntSort())
EDGE = {k: z3.Function('edge_' + k, z3.IntSort(), z3.IntSort()) for k in ('top_c', 'bot_c', 'left_r', 'right_r')}
ACC = z3.Function('ACC', z3.IntSort(), z3.IntSort())
ACCEPT = z3.Function('ACCEPT', z3.IntSort(), z3.BoolSort())
ISL = z3.Function('ISL', z3.IntSort(), z3.IntSort())


class Slc(PyObj):
    def __init__(self, start, stop):
        self.start, self.stop = start, stop

    def getattr_(self, ctx, name):
        if name == 'start':
            return self.start
        if name == 'stop':
            return self.stop
        raise Undecided("slice." + name)


class FObj(PyObj):
    """find_objects(l): f[i] = (slice rows, slice cols) with the assumed tight-box facts for label i+1"""

    def __init__(self, R, C):
        self.R, self.C = R, C

    def getitem_(self, ctx, i):
        ie = Sym.lift(i)
        R, C = Sym.lift(self.R), Sym.lift(self.C)
        ctx.assume(Sym(z3.And(0 <= X0(ie), X0(ie) < X1(ie), X1(ie) <= R, 0 <= Y0(ie), Y0(ie) < Y1(ie), Y1(ie) <= C)))
        # every pixel of the label is inside the box (universal: instantiated at index tuples)
        ctx.ufacts.append(lambda t: Implies(Sym(LAB(Sym.lift(t[0]), Sym.lift(t[1])) == ie + 1),
                                            Sym(z3.And(X0(ie) <= Sym.lift(t[0]), Sym.lift(t[0]) < X1(ie),
                                                       Y0(ie) <= Sym.lift(t[1]), Sym.lift(t[1]) < Y1(ie))))
                          if isinstance(t, tuple) and len(t) == 2 else True)
        # tightness: each edge of the box carries a pixel of the label
        e = EDGE
        ctx.assume(Sym(z3.And(LAB(X0(ie), e['top_c'](ie)) == ie + 1, LAB(X1(ie) - 1, e['bot_c'](ie)) == ie + 1,
                              LAB(e['left_r'](ie), Y0(ie)) == ie + 1, LAB(e['right_r'](ie), Y1(ie) - 1) == ie + 1,
                              Y0(ie) <= e['top_c'](ie), e['top_c'](ie) < Y1(ie), Y0(ie) <= e['bot_c'](ie), e['bot_c'](ie) < Y1(ie),
                              X0(ie) <= e['left_r'](ie), e['left_r'](ie) < X1(ie), X0(ie) <= e['right_r'](ie),
                              e['right_r'](ie) < X1(ie))))
        return (Slc(Sym(X0(ie)), Sym(X1(ie))), Slc(Sym(Y0(ie)), Sym(Y1(ie))))


class WhereIdx(PyObj):
    """np.where(cond2d): (rows, cols) index arrays of the m True cells (row-major enumeration ROWS(k), COLS(k))"""

    def __init__(self, ctx, cond):
        self.cond = cond.snapshot()
        self.m = ctx.fresh_int("nwhere")
        self.RW = z3.Function(uid("where_r"), z3.IntSort(), z3.IntSort())
        self.CL = z3.Function(uid("where_c"), z3.IntSort(), z3.IntSort())
        self.KI = z3.Function(uid("where_k"), z3.IntSort(), z3.IntSort(), z3.IntSort())
        ctx.assume(self.m >= 0)
        cnd, RW, CL, KI, m = self.cond, self.RW, self.CL, self.KI, self.m
        shp = cnd.shape_
        # every enumerated cell is True and in range (instantiated at (k,) tuples) ; every True cell is enumerated ((r,c) tuples)
        ctx.ufacts.append(lambda t: Implies(And(t[0] >= 0, t[0] < m),
                                            And(Sym(RW(Sym.lift(t[0]))) >= 0, Sym(RW(Sym.lift(t[0]))) < shp[0],
                                                Sym(CL(Sym.lift(t[0]))) >= 0, Sym(CL(Sym.lift(t[0]))) < shp[1],
                                                cnd.at((Sym(RW(Sym.lift(t[0]))), Sym(CL(Sym.lift(t[0])))))))
                          if isinstance(t, tuple) and len(t) == 1 else True)
        ctx.ufacts.append(lambda t: Implies(And(t[0] >= 0, t[0] < shp[0], t[1] >= 0, t[1] < shp[1], cnd.at(t)),
                                            And(Sym(KI(Sym.lift(t[0]), Sym.lift(t[1]))) >= 0,
                                                Sym(KI(Sym.lift(t[0]), Sym.lift(t[1]))) < m,
                                                Sym(RW(KI(Sym.lift(t[0]), Sym.lift(t[1])))) == t[0],
                                                Sym(CL(KI(Sym.lift(t[0]), Sym.lift(t[1])))) == t[1]))
                          if isinstance(t, tuple) and len(t) == 2 else True)

    def iter_(self, ctx):
        rows = SArr(uid("where_rows"), (self.m,), lambda idx: Sym(self.RW(Sym.lift(idx[0]))))
        cols = SArr(uid("where_cols"), (self.m,), lambda idx: Sym(self.CL(Sym.lift(idx[0]))))
        rows.where, cols.where = (self, 0), (self, 1)
        return [rows, cols]

    def getitem_(self, ctx, k):
        return self.iter_(ctx)[k]


class Where1(PyObj):
    """np.where(flags1d)[0][[0, -1]] -> first / last True index"""

    def __init__(self, ctx, flags):
        self.flags = flags

    def getitem_(self, ctx, k):
        if k == 0:
            return Where1Idx(self.flags)
        raise PyRaise(ExcValue('IndexError'))


class Where1Idx(PyObj):
    def __init__(self, flags):
        self.flags = flags

    def getitem_(self, ctx, key):
        if key == [0, -1]:
            fl = self.flags
            n = fl.shape_[0]
            first, last = ctx.fresh_int("first_true"), ctx.fresh_int("last_true")
            # exists a True flag is a precondition (IndexError otherwise): obligation
            ctx.oblige("safe", "where_first_last.some_flag_true", ctx.ghost.get('some_flag_true', False))
            ctx.assume(And(first >= 0, first <= last, last < n, fl.at((first,)), fl.at((last,))))
            ctx.ufacts.append(lambda t: Implies(And(t[0] >= 0, t[0] < n, fl.at((t[0],))), And(first <= t[0], t[0] <= last))
                              if isinstance(t, tuple) and len(t) == 1 else True)
            return [first, last]
        raise Undecided("index of np.where result")


def genv(ctx, R, C):
    def m_where(c, cond):
        if isinstance(cond, SArr) and len(cond.shape_) == 2:
            return WhereIdx(c, cond)
        if isinstance(cond, SArr) and len(cond.shape_) == 1:
            return Where1(c, cond)
        raise Undecided("np.where on unmodelled argument")

    def m_ones(c, shape, *a, **k):
        return ('ones', shape)

    def m_label(c, a, structure=None):
        c.session.trust("scipy.ndimage.label contract (8-connected components with a 3x3 structure of ones)")
        c.oblige("pre", "label.called_with_8_connectivity_structure", structure == ('ones', (3, 3)))
        if not isinstance(a, SArr) or len(a.shape_) != 2:
            raise Undecided("label on unmodelled argument")
        n = Sym(z3.Int('nlabels'))
        c.assume(n >= 0)
        am = a.snapshot()
        c.ghost['mask_a'] = am
        c.ufacts.append(lambda t: Implies(And(t[0] >= 0, t[0] < R, t[1] >= 0, t[1] < C),
                                          And(Sym(LAB(Sym.lift(t[0]), Sym.lift(t[1]))) >= 0,
                                              Sym(LAB(Sym.lift(t[0]), Sym.lift(t[1]))) <= n,
                                              (Sym(LAB(Sym.lift(t[0]), Sym.lift(t[1]))) == 0) == Not(am.at(t))))
                        if isinstance(t, tuple) and len(t) == 2 else True)
        lab = SArr("labels", (R, C), lambda idx: Sym(LAB(Sym.lift(idx[0]), Sym.lift(idx[1]))))
        return (lab, n)

    def m_find_objects(c, l):
        c.session.trust("scipy.ndimage.find_objects contract (tight bounding slices per label)")
        return FObj(R, C)

    def m_deepcopy(c, x):
        if isinstance(x, SArr):
            return x.snapshot()
        raise Undecided("deepcopy of %s" % type(x).__name__)
    np_ = lib.std_np(any=Model(np_any, 'np.any'), all=Model(np_all, 'np.all'), where=Model(m_where, 'np.where'),
                     ones=Model(m_ones, 'np.ones'), array=Model(lambda c, x, *a, **k: as_bool(c, x, k), 'np.array'),
                     nan_to_num=Model(np_nan_to_num, 'np.nan_to_num'), isfinite=Model(np_isfinite_arr, 'np.isfinite'),
                     isnan=Model(np_isnan, 'np.isnan'), zeros=Model(np_zeros, 'np.zeros'), int32='int32')
    np_.members['bool'] = 'bool'
    g = {'np': np_, 'label': Model(m_label, 'label'), 'find_objects': Model(m_find_objects, 'find_objects'),
         'copy': Namespace('copy', deepcopy=Model(m_deepcopy, 'copy.deepcopy')), 'bool': 'bool',
         'log': Namespace('log'), 'logging': Namespace('logging'), 'AssertionError': ExcClass('AssertionError')}
    menv = Env(g)
    g['PixelIsland'] = ClassModel(MFILE, 'PixelIsland', Env({'np': np_, 'AssertionError': ExcClass('AssertionError')}))
    for m in g['PixelIsland'].methods:
        ctx.interp.inline.add("PixelIsland." + m)
    return g


def as_bool(ctx, x, kw):
    if kw.get('dtype') == 'bool' and isinstance(x, SArr):
        b = x.snapshot()
        return SArr(uid("asbool"), b.shape_, lambda idx: Or(b.isnan(idx), b.at(idx) != 0))
    return np_array(ctx, x)


def mk_inputs(ctx):
    R, C = Sym(z3.Int('R')), Sym(z3.Int('C'))
    ctx.assume(And(R >= 1, C >= 1))
    im = SArr.fresh("im", (R, C), with_nan=True)
    bkg = SArr.fresh("bkg", (R, C))
    rraw = z3.Function('rms_raw', z3.IntSort(), z3.IntSort(), z3.RealSort())
    rms = SArr("rms", (R, C), lambda idx: ite(Sym(rraw(Sym.lift(idx[0]), Sym.lift(idx[1]))) > 0,
                                              Sym(rraw(Sym.lift(idx[0]), Sym.lift(idx[1])), True), 1))
    seed, flood = Sym(z3.Real('seed'), True), Sym(z3.Real('flood'), True)
    ctx.assume(And(flood > 0, flood <= seed))
    return R, C, im, bkg, rms, seed, flood


def snr_at(im, bkg, rms, t):
    return abs(im.at(t) - bkg.at(t)) / rms.at(t)


class IslandList(SymList):
    """`islands` inside the label loop: every append is checked against the spec of the current label"""

    def __init__(self, ctx, checker):
        base = SymList.fresh(ctx, "islands", sort='int')
        SymList.__init__(self, "islands", base.length, base.elem)
        self.checker = checker
        self.appended = 0

    def getattr_(self, ctx, name):
        if name == 'append':
            def app(c, isl):
                i = self.checker(c, isl)
                self.writes.append((self.length, Sym(ISL(Sym.lift(i)))))
                self.length = self.length + 1
                self.appended += 1
            return Model(app, 'list.append')
        return SymList.getattr_(self, ctx, name)


def t_find_islands(ctx, with_region):
    reset_uids()
    R, C, im, bkg, rms, seed, flood = mk_inputs(ctx)
    g = genv(ctx, R, C)
    region = RegionModel() if with_region else None
    wcsobj = WCS()
    helper = Obj('WCSHelper', wcs=wcsobj)
    i0 = z3.Int('i0')
    cur = {}

    def own(i, t):
        return Sym(LAB(Sym.lift(t[0]), Sym.lift(t[1])) == Sym.lift(i) + 1)

    def in_img(t):
        return And(t[0] >= 0, t[0] < R, t[1] >= 0, t[1] < C)

    def inside(t):
        x, y = z3.ToReal(Sym.lift(t[1])) + 1, z3.ToReal(Sym.lift(t[0])) + 1
        return Sym(WITHIN(W_ra(x, y), W_dec(x, y)))

    def check_island(c, isl):
        """called at islands.append(island) in the generic iteration"""
        i = cur['i']
        ie = Sym.lift(i)
        lab = "island"
        if not isinstance(isl, Instance):
            c.oblige("post", lab + ".is_a_PixelIsland", False)
            return i
        bb, mask = isl.fields.get('bounding_box'), isl.fields.get('mask')
        okk = isinstance(bb, SArr) and isinstance(mask, SArr) and len(mask.shape_) == 2
        c.oblige("post", lab + ".has_box_and_mask", okk)
        if not okk:
            return i
        edge_pts = [(Sym(X0(ie)), Sym(EDGE['top_c'](ie))), (Sym(X1(ie)) - 1, Sym(EDGE['bot_c'](ie))),
                    (Sym(EDGE['left_r'](ie)), Sym(Y0(ie))), (Sym(EDGE['right_r'](ie)), Sym(Y1(ie)) - 1)]
        rel = lambda t: (t[0] - Sym(X0(ie)), t[1] - Sym(Y0(ie)))
        at = edge_pts + [rel(t) for t in edge_pts] + [(rel(t)[1], rel(t)[0]) for t in edge_pts] + \
            [(t[0] - Sym(X0(ie)),) for t in edge_pts] + [(t[1] - Sym(Y0(ie)),) for t in edge_pts]
        goals = (bb.at((0, 0)) == Sym(X0(ie)), bb.at((0, 1)) == Sym(X1(ie)), bb.at((1, 0)) == Sym(Y0(ie)), bb.at((1, 1)) == Sym(Y1(ie)))
        for e_, goal in enumerate(goals):
            t = edge_pts[e_]         # the witness pixel on that side of the box
            at_e = [t, rel(t), (rel(t)[1], rel(t)[0]), (t[0] - Sym(X0(ie)),), (t[1] - Sym(Y0(ie)),)]
            c.oblige("post", lab + ".bounding_box_is_the_tight_box_of_own_pixels", goal, at=at_e, timeout_ms=120000)
        c.oblige("post", lab + ".mask_has_the_shape_of_the_box",
                 And(mask.shape_[0] == Sym(X1(ie) - X0(ie)), mask.shape_[1] == Sym(Y1(ie) - Y0(ie))))
        p = (c.fresh_int("pr"), c.fresh_int("pc"))
        c.oblige("post", lab + ".mask_false_exactly_on_own_pixels",
                 Implies(And(p[0] >= Sym(X0(ie)), p[0] < Sym(X1(ie)), p[1] >= Sym(Y0(ie)), p[1] < Sym(Y1(ie))),
                         mask.at(rel(p)) == Not(own(i, p))), at=[p, rel(p)])
        # accept decision: the code accepted -> the spec accepts.  witnesses come from the code's np.any calls
        sp, rp = (c.fresh_int("seed_r"), c.fresh_int("seed_c")), (c.fresh_int("reg_r"), c.fresh_int("reg_c"))
        wit = [w for (_, w) in c.ghost.get('any_witness', [])]
        at2 = [p]
        for w in wit:
            if len(w) == 2:
                at2 += [w, (w[0] + Sym(X0(ie)), w[1] + Sym(Y0(ie)))]
            else:
                at2 += [w]
        spec_seed = Or(*[And(own(i, (w[0] + Sym(X0(ie)), w[1] + Sym(Y0(ie)))),
                             snr_at(im, bkg, rms, (w[0] + Sym(X0(ie)), w[1] + Sym(Y0(ie)))) > seed,
                             Not(im.isnan((w[0] + Sym(X0(ie)), w[1] + Sym(Y0(ie))))))
                         for w in wit if len(w) == 2]) if any(len(w) == 2 for w in wit) else False
        c.oblige("post", lab + ".accepted_island_has_an_own_pixel_above_seed", spec_seed, at=at2)
        if with_region:
            wh = c.ghost.get('where_for_region')
            ks = [w for w in wit if len(w) == 1]
            if wh is None or not ks:
                c.oblige("post", lab + ".accepted_island_has_an_own_pixel_inside_region", False)
            else:
                k = ks[-1][0]
                pr = (Sym(wh.RW(Sym.lift(k))) + Sym(X0(ie)), Sym(wh.CL(Sym.lift(k))) + Sym(Y0(ie)))
                c.oblige("post", lab + ".accepted_island_has_an_own_pixel_inside_region",
                         And(own(i, pr), inside(pr)), at=at2 + [(k,), pr, (Sym(wh.RW(Sym.lift(k))), Sym(wh.CL(Sym.lift(k))))])
        c.assume(Sym(ACCEPT(ie)))
        return i

    def before_body(c, env, k):
        cur['i'] = k
        c.ghost['some_flag_true'] = True      # calc_bounding_box is only reached for non-empty masks (checked below)
        islands = env.lookup('islands')
        if isinstance(islands, IslandList):
            islands.appended = 0

    def after_body(c, env, k):
        islands = env.lookup('islands')
        if not isinstance(islands, IslandList):
            return
        ke = Sym.lift(k)
        if islands.appended == 0:
            # rejected: no own pixel above seed, or (region) no own pixel inside
            sp = (c.fresh_int("sr"), c.fresh_int("sc"))
            rp = (c.fresh_int("rr"), c.fresh_int("rc"))
            rel = lambda t: (t[0] - Sym(X0(ke)), t[1] - Sym(Y0(ke)))
            seeded = And(in_img(sp), own(k, sp), snr_at(im, bkg, rms, sp) > seed, Not(im.isnan(sp)))
            spec = seeded if not with_region else And(seeded, in_img(rp), own(k, rp), inside(rp))
            wh = c.ghost.get('where_for_region')
            at = [sp, rel(sp), rp, rel(rp)]
            if wh is not None:
                kk = Sym(wh.KI(Sym.lift(rel(rp)[0]), Sym.lift(rel(rp)[1])))
                at += [(kk,)]
            c.oblige("post", "island.rejected_label_fails_the_seed_or_region_rule", Not(spec), at=at)
            c.assume(Not(Sym(ACCEPT(ke))))
        c.oblige("post", "island.at_most_one_island_per_label", islands.appended <= 1)

    def havoc(c, env):
        env.vars['islands'] = IslandList(c, check_island)

    def facts(c, env, k):
        kk = Sym.lift(k)
        return [ACC(0) == 0, ACC(kk + 1) == ACC(kk) + z3.If(ACCEPT(kk), 1, 0),
                ACC(i0 + 1) == ACC(i0) + z3.If(ACCEPT(i0), 1, 0),
                z3.Implies(i0 + 1 <= kk, ACC(i0 + 1) <= ACC(kk)), ACC(kk) >= 0, ACC(i0) >= 0]

    def inv(c, env, k):
        islands = env.lookup('islands')
        L = seq_len(islands)
        kk = Sym.lift(k)
        claims = [("count_is_number_of_accepted_labels", Sym.lift(L) == ACC(kk))]
        if isinstance(L, int) and L == 0:
            claims.append(("islands_in_label_order", Sym(z3.Not(z3.And(i0 >= 0, i0 < kk)))))
        else:
            claims.append(("islands_in_label_order",
                           Sym(z3.Implies(z3.And(i0 >= 0, i0 < kk, ACCEPT(i0)),
                                          z3.And(ACC(i0) < Sym.lift(L), Sym.lift(seq_at(islands, Sym(ACC(i0)))) == ISL(i0))))))
        return claims
    spec = LoopSpec(inv, havoc=havoc, facts=facts, label="labels", modifies=lambda c, env: [env.vars['islands']],
                    types={'xmin': 'int', 'xmax': 'int', 'ymin': 'int', 'ymax': 'int'})
    spec.before_body, spec.after_body = before_body, after_body
    ctx.interp.loops["for i in range(*"] = spec

    # record the np.where used for the region test
    np_where = g['np'].members['where']

    def where_rec(c, cond, *rest):
        if rest:
            raise Undecided("np.where with three arguments")
        r = np_where.fn(c, cond)
        if isinstance(r, WhereIdx):
            c.ghost['where_for_region'] = r
        return r
    g['np'].members['where'] = Model(where_rec, 'np.where')
    ctx.assume(ACC(0) == 0)
    out = run_function(ctx, FILE, 'find_islands', [im, bkg, rms],
                       {'seed_clip': seed, 'flood_clip': flood, 'region': region, 'wcs': helper if with_region else None},
                       globals_=g)
    tag = "with_region" if with_region else "no_region"
    if out.kind != 'return':
        ctx.oblige("safe", "find_islands.%s.no_exception" % tag, False)
        return
    res = out.value
    n = Sym(z3.Int('nlabels'))
    if isinstance(res, list) and not res:
        # early return: no pixel above flood -> no labels at all
        q = (ctx.fresh_int("qr"), ctx.fresh_int("qc"))
        ctx.oblige("post", "find_islands.%s.empty_result_only_without_flood_pixels" % tag,
                   Implies(And(in_img(q), Not(im.isnan(q))), Not(snr_at(im, bkg, rms, q) >= flood)), at=[q])
        return
    if not isinstance(res, SymList):
        raise Undecided("find_islands does not return the list built in its label loop")
    ctx.oblige("post", "find_islands.%s.one_island_per_accepted_label" % tag, res.length == Sym(ACC(n.e)))
    ctx.oblige("post", "find_islands.%s.islands_in_label_order" % tag,
               Implies(Sym(z3.And(i0 >= 0, i0 < n.e, ACCEPT(i0))), Sym(Sym.lift(res.at(Sym(ACC(i0)))) == ISL(i0))))
    ctx.oblige("frame", "find_islands.%s.inputs_not_modified" % tag, not im.writes and not bkg.writes and not rms.writes)
    if with_region:
        ctx.oblige("frame", "find_islands.%s.region_not_modified" % tag, region.mutated is False)
    ctx.cover("find_islands.%s.returns" % tag)


def t_flood_pixels_are_labelled(ctx):
    """every finite pixel with snr >= flood carries a label, and blank pixels never do (mask handed to label())"""
    reset_uids()
    R, C, im, bkg, rms, seed, flood = mk_inputs(ctx)
    g = genv(ctx, R, C)
    seen = {}

    def m_label(c, a, structure=None):
        seen['a'] = a.snapshot() if isinstance(a, SArr) else None
        raise PyRaise(ExcValue('StopHere'))
    g['label'] = Model(m_label, 'label')
    out = run_function(ctx, FILE, 'find_islands', [im, bkg, rms], {'seed_clip': seed, 'flood_clip': flood}, globals_=g)
    if 'a' not in seen or seen['a'] is None:
        return
    q = (ctx.fresh_int("qr"), ctx.fresh_int("qc"))
    ctx.assume(And(q[0] >= 0, q[0] < R, q[1] >= 0, q[1] < C))
    a = seen['a']
    ctx.oblige("post", "find_islands.mask_is_finite_and_abs_snr_at_least_flood",
               a.at(q) == And(Not(im.isnan(q)), snr_at(im, bkg, rms, q) >= flood))


def t_seed_monotone(ctx):
    """raising the seed threshold can only remove islands: the accept rule is antitone in seed (pure lemma)"""
    s1, s2, v = Sym(z3.Real('seed1'), True), Sym(z3.Real('seed2'), True), Sym(z3.Real('snr_p'), True)
    ctx.oblige("lemma", "find_islands.accept_rule_antitone_in_seed", Implies(And(s1 <= s2, v > s2), v > s1), nohyps=True)


def _island_loop(ctx):
    from contracts import c03
    return c03.t_blind_numbers(ctx)


def verify(S):
    prop = S.prop
    targets = []
    if prop == "C02":
        targets = [("source_finder.find_islands", lambda c: t_find_islands(c, False)),
                   ("source_finder.find_islands", t_flood_pixels_are_labelled),
                   ("source_finder.find_islands", t_seed_monotone),
                   # what find_sources_in_image does with the islands: each is cut out (a copy), masked and queued once
                   ("source_finder.SourceFinder.find_sources_in_image[island_loop]", _island_loop)]
    else:
        targets = [("source_finder.find_islands", lambda c: t_find_islands(c, True))]
    for name, fn in targets:
        ctx = Ctx(S, name)
        try:
            ctx.explore(fn)
        except Undecided as u:
            S.undecided.append("%s: %s" % (name, u))


REPLAY = {"*": "replay_islands"}
NATIVE_CHECKS = [{"func": "crosscheck", "payload": {}}]
