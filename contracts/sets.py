"""Python `set` objects with symbolic content.

A set is a mutable object whose content is a membership closure `pred(e)`
(e: numeric term, Real sorted so that `p/4` can be represented; element
equality is numeric equality as in CPython hashing of 3 and 3.0).  Object
identity is Python identity of the SSet, so aliasing (`self.demoted =
pd[d+1]`) is modelled exactly.  All set-level statements are pointwise:
obligations are proved at skolem element terms and universally quantified
hypotheses (loop invariants, emptiness) are *instantiated* at the terms listed
by the contract -- no quantifier ever reaches the solver.
"""
import ast

import z3

from pyvc.engine import (PyObj, Model, Undecided, PyRaise, ExcValue, PathEnd, _Break, _Continue, assigned_names,
                         SymRange, heap_fingerprint, frame_violations)
from pyvc.values import Sym, And, Or, Not, Implies, ite, Opaque, NaNType, to_real

_cnt = [0]


INVALID = -1      # every non-integral number is collapsed into this (invalid) element


def elem(e):
    """element term (Int): integers are themselves, non-integral reals are the INVALID token"""
    if isinstance(e, bool):
        e = int(e)
    if isinstance(e, int):
        return z3.IntVal(e)
    if isinstance(e, float):
        return z3.IntVal(int(e)) if e == int(e) else z3.IntVal(INVALID)
    if hasattr(e, 'numerator') and not isinstance(e, Sym):
        return z3.IntVal(e.numerator // e.denominator) if e.denominator == 1 else z3.IntVal(INVALID)
    t = Sym.num(e)
    if z3.is_int(t):
        return t
    t = z3.simplify(t)
    return z3.simplify(z3.If(z3.IsInt(t), z3.ToInt(t), z3.IntVal(INVALID)))


def fresh_pred(name):
    _cnt[0] += 1
    f = z3.Function("%s!%d" % (name, _cnt[0]), z3.IntSort(), z3.BoolSort())
    return lambda e: Sym(f(elem(e)))


def reset():
    _cnt[0] = 0


def rterm(e):
    t = Sym.num(e)
    return z3.ToReal(t) if z3.is_int(t) else t


def is_integral(e):
    if isinstance(e, int):
        return True
    t = Sym.num(e)
    if z3.is_int(t):
        return True
    return Sym(z3.simplify(z3.IsInt(t)))


class SSet(PyObj):
    typename = 'set'

    def __init__(self, pred=None, name="set"):
        self.pred = pred if pred is not None else (lambda e: False)
        self.known_empty = pred is None
        self.name = name
        self.version = 0

    def has(self, e):
        if isinstance(e, (Opaque, NaNType)):
            return Opaque("membership of unmodelled value")
        return self.pred(e)

    def _set(self, pred):
        self.pred = pred
        self.known_empty = False
        self.version += 1

    @staticmethod
    def of(ctx, x):
        """set(x) constructor"""
        if isinstance(x, SSet):
            old = x.pred
            s = SSet(lambda e: old(e))
            s.known_empty = x.known_empty
            return s
        if isinstance(x, PyObj) and hasattr(x, 'as_set_pred'):
            return SSet(x.as_set_pred(ctx))
        if isinstance(x, (list, tuple)):
            items = list(x)
            if not items:
                return SSet()
            return SSet(lambda e: Or(*[(to_r(e) == to_r(i)) for i in items]))
        if isinstance(x, (set, frozenset)) and not x:
            return SSet()
        raise Undecided("set(%s)" % type(x).__name__)

    def contains_(self, ctx, item):
        return self.has(item)

    def fingerprint_(self):
        return ('set', self.version), []

    def tolist_(self, ctx):
        return self

    def len_(self, ctx):
        return SetCard(self)

    def truth_(self, ctx):
        return not self.is_empty(ctx)

    def is_empty(self, ctx):
        if self.known_empty:
            return True
        if ctx.free_branch():
            # empty: forall e. not pred(e)  -- remembered as a universal fact; content replaced by the empty closure
            old = self.pred
            ctx.ufacts.append(lambda t: Not(old(t)))
            self.pred = lambda e: False
            self.known_empty = True
            return True
        w = ctx.fresh_int("witness")
        ctx.assume(self.pred(w))
        return False

    def getattr_(self, ctx, name):
        def other_pred(o):
            if isinstance(o, SSet):
                p = o.pred
                return lambda e: p(e)
            return SSet.of(ctx, o).pred
        if name == 'add':
            def add(c, x):
                old = self.pred
                self._set(lambda e: Or(old(e), to_r(e) == to_r(x)))
            return Model(add, 'set.add')
        if name == 'update':
            def update(c, *os):
                for o in os:
                    old, q = self.pred, other_pred(o)
                    self._set(lambda e, old=old, q=q: Or(old(e), q(e)))
            return Model(update, 'set.update')
        if name == 'difference_update':
            def du(c, o):
                old, q = self.pred, other_pred(o)
                self._set(lambda e: And(old(e), Not(q(e))))
            return Model(du, 'set.difference_update')
        if name == 'intersection_update':
            def iu(c, o):
                old, q = self.pred, other_pred(o)
                self._set(lambda e: And(old(e), q(e)))
            return Model(iu, 'set.intersection_update')
        if name == 'symmetric_difference_update':
            def sdu(c, o):
                old, q = self.pred, other_pred(o)
                self._set(lambda e: Or(And(old(e), Not(q(e))), And(Not(old(e)), q(e))))
            return Model(sdu, 'set.symmetric_difference_update')
        if name in ('discard', 'remove'):
            def rm(c, x):
                old = self.pred
                self._set(lambda e: And(old(e), Not(to_r(e) == to_r(x))))
            return Model(rm, 'set.' + name)
        if name == 'copy':
            return Model(lambda c: SSet.of(c, self), 'set.copy')
        if name == 'clear':
            def clear(c):
                self.pred = lambda e: False
                self.known_empty = True
                self.version += 1
            return Model(clear, 'set.clear')
        if name in ('union', 'difference', 'intersection', 'symmetric_difference'):
            def pure(c, o):
                r = SSet.of(c, self)
                r.getattr_(c, {'union': 'update', 'difference': 'difference_update',
                               'intersection': 'intersection_update',
                               'symmetric_difference': 'symmetric_difference_update'}[name]).call_(c, [o], {})
                return r
            return Model(pure, 'set.' + name)
        if name == 'issubset':
            raise Undecided("set.issubset needs a pointwise contract")
        raise Undecided("set.%s" % name)

    def binop_(self, ctx, op, other, swapped):
        m = {'or': 'union', 'and': 'intersection', 'sub': 'difference', 'xor': 'symmetric_difference'}
        im = {'ior': 'update', 'iand': 'intersection_update', 'isub': 'difference_update',
              'ixor': 'symmetric_difference_update'}
        if op in m and isinstance(other, SSet) and not swapped:
            return self.getattr_(ctx, m[op]).call_(ctx, [other], {})
        if op in im and isinstance(other, SSet):
            self.getattr_(ctx, im[op]).call_(ctx, [other], {})
            return self
        return NotImplemented

    # ---- iteration: Hoare rule with a ghost `done` subset ------------------------------
    def cut_loop_(self, interp, st, env, spec):
        """for p in <this set>:  invariant in functional form  state == F(done).

        spec.enter(ctx, env)            capture the state at loop entry
        spec.install(ctx, env, done)    set every object the body may modify to F(done)
        spec.claims(ctx, env, done)     [(label, e -> formula)]: actual state agrees with F(done) at element e
        """
        ctx = interp.ctx
        label = spec.label or "L%d" % st.lineno
        S0 = self.pred
        version0 = self.version
        empty = lambda e: False
        spec.enter(ctx, env)
        sk = ctx.fresh_int("e_star")
        for lab, claim in spec.claims(ctx, env, empty):
            ctx.oblige("inv-init", "%s.%s" % (label, lab), claim(sk))
        mode = ctx.choice(2, "loop")
        names = assigned_names(st.body) + assigned_names([ast.Assign(targets=[st.target], value=ast.Constant(0))])
        interp.havoc_locals(env, names, spec)
        DONE = fresh_pred("DONE")
        if mode == 0:
            p = ctx.fresh_int("elem")
            done = lambda e: And(DONE(e), S0(e), Not(to_r(e) == to_r(p)))
            ctx.assume(S0(p))
            spec.install(ctx, env, done)
            v1 = self.version
            interp.assign(st.target, p, env)
            fp0 = heap_fingerprint(env, [self])
            try:
                interp.exec_block(st.body, env)
            except _Continue:
                pass
            except _Break:
                return
            ctx.oblige("safe", "%s.iterated_set_not_resized" % label, self.version == v1)
            ctx.oblige("frame", "%s.body_writes_only_declared_objects" % label,
                       not frame_violations(fp0, heap_fingerprint(env, [self]), spec.targets(ctx, env)))
            done2 = lambda e: Or(done(e), to_r(e) == to_r(p))
            for lab, claim in spec.claims(ctx, env, done2):
                ctx.oblige("inv-preserve", "%s.%s" % (label, lab), claim(sk))
            raise PathEnd()
        else:
            spec.install(ctx, env, S0)
            interp.exec_block(st.orelse, env)

    def iter_(self, ctx):
        if self.known_empty:
            return []
        raise Undecided("iteration over a symbolic set without a loop contract")


def to_r(x):
    """canonical element value used in equalities between elements"""
    if isinstance(x, (Opaque, NaNType)):
        return x
    return Sym(elem(x))


class SetCard(PyObj):
    """len(set): only comparisons with 0 are modelled"""

    def __init__(self, s):
        self.s = s

    def binop_(self, ctx, op, other, swapped):
        if isinstance(other, int) and other == 0:
            if op == 'Eq':
                return self.s.is_empty(ctx)
            if op == 'NotEq' or (op == 'Gt' and not swapped) or (op == 'Lt' and swapped):
                return not self.s.is_empty(ctx)
        if op == 'mul':
            return CardTimes(self.s, other)
        return NotImplemented

    def truth_(self, ctx):
        return not self.s.is_empty(ctx)


class CardTimes(PyObj):
    """len(set) * factor : symbolic term of a measure (used by get_area)"""

    def __init__(self, s, k):
        self.s, self.k = s, k

    def binop_(self, ctx, op, other, swapped):
        if op in ('add', 'iadd'):
            prev = other if not isinstance(other, int) or other != 0 else MeasureSum([])
            if isinstance(prev, MeasureSum):
                return MeasureSum(prev.terms + [(self.s, self.k)])
        return NotImplemented


class MeasureSum(PyObj):
    def __init__(self, terms):
        self.terms = terms

    def binop_(self, ctx, op, other, swapped):
        if op in ('add', 'iadd') and isinstance(other, CardTimes):
            return MeasureSum(self.terms + [(other.s, other.k)])
        return NotImplemented


class SetLoopSpec:
    """contract of `for p in <symbolic set>` (see SSet.cut_loop_)"""

    def __init__(self, enter, install, claims, targets, types=None, label=None):
        self.enter, self.install, self.claims, self.targets = enter, install, claims, targets
        self.types = types or {}
        self.label = label
        self.havoc = None
        self.facts = None
