"""C15 — compress then expand restores shape, WCS and grid-node values
(AegeanTools/fits_tools.py: compress, expand, is_compressed, load_file_or_hdu).

Spec (from the property), for data of shape (cx, cy) >= 2 and integer factor f >= 1:
 compress: stored shape (nx+1, ny+1), nx = ceil(cx/f); stored row k < nx is original row k*f, stored row nx is
   original row cx-1 (same for columns); BN_CFAC = f, BN_NPX1/2 = NAXIS1/2; CRPIX' = (CRPIX+f-1)/f; CDELT'|CD' = f*CDELT|CD.
 expand o compress: succeeds (RegularGridInterpolator preconditions hold: grids strictly increasing, query inside
   the hull), shape = (NAXIS2, NAXIS1), CRPIX/CDELT/CD restored, BN_* removed, node coordinates of stored rows
   k < nx are the true original rows k*f (so values at decimation nodes are reproduced exactly and complete cells
   are interpolated between their true corners), interpolation is over the stored samples (value range).
 factor not a positive int -> None; expand of an uncompressed file returns it unchanged.
"""
import z3

from pyvc.engine import (Ctx, SymDict, PyObj, Model, Namespace, Obj, run_function, find_function, Closure, Env,
                         Undecided, PyRaise, ExcValue)
from pyvc.values import Sym, And, Or, Not, Implies, ite, Opaque
from pyvc import lib
from contracts.arrays import SArr, MGrid, np_arange, np_empty, np_array, np_squeeze, reset_uids

PROPERTY = "C15"
FILE = "AegeanTools/fits_tools.py"

ASSUMPTIONS = [
    "scipy RegularGridInterpolator((rows, cols), values)(points): requires strictly increasing grids of the same "
    "lengths as the values' axes and query points inside the hull (else raises); result has the shape of the point "
    "arrays, is exact at nodes, lies within [min, max] of the 4 surrounding samples and is bilinear in each cell",
    "numpy basic slicing / np.empty / np.arange / np.mgrid / np.squeeze index algebra (contracts/arrays.py); "
    "np.array(..., dtype=float32) keeps values (float32 cast not modelled)",
    "astropy header acts as a mapping; (value, comment) tuples store the value; astropy keeps NAXIS* in step with "
    "the data array on write (not modelled)",
    "data.shape == (NAXIS2, NAXIS1) for the primary HDU of a 2-D image (FITS invariant)",
    "floats as reals: CRPIX/CDELT restoration is exact in real arithmetic",
]


class HDUL(PyObj):
    typename = 'HDUList'

    def __init__(self, hdu):
        self.hdu = hdu
        self.written = []

    def getitem_(self, ctx, k):
        if k == 0:
            return self.hdu
        raise Undecided("HDUList[%r]" % (k,))

    def getattr_(self, ctx, name):
        if name == 'writeto':
            def writeto(c, f, **kw):
                # what a file written now would hold: the header cards present and the data array at this moment
                h, d = self.hdu.fields.get('header'), self.hdu.fields.get('data')
                snap = dict(h.present) if isinstance(h, SymDict) else None
                vals = dict(h.vals) if isinstance(h, SymDict) else None
                self.written.append((f, snap, vals, d, h))
            return Model(writeto, 'HDUList.writeto')
        raise Undecided("HDUList." + name)


class RGI(PyObj):
    """assumed contract of scipy.interpolate.RegularGridInterpolator (linear)"""

    def __init__(self, ctx, grids, values):
        ctx.session.trust("scipy.interpolate.RegularGridInterpolator (linear): preconditions checked as obligations, "
                          "exactness at nodes / range / bilinearity assumed")
        self.grids, self.values = grids, values
        if not (isinstance(grids, tuple) and len(grids) == 2 and all(isinstance(g, SArr) for g in grids)
                and isinstance(values, SArr)):
            raise Undecided("RegularGridInterpolator called with unmodelled arguments")
        for ax, g in enumerate(grids):
            n = g.shape_[0]
            ctx.oblige("safe", "rgi.grid_length_matches_values.axis%d" % ax, n == values.shape_[ax])
            ctx.oblige("safe", "rgi.grid_has_two_points.axis%d" % ax, n >= 2)
            k = ctx.fresh_int("gk%d" % ax)
            ctx.oblige("safe", "rgi.grid_strictly_increasing.axis%d" % ax,
                       Implies(And(k >= 0, k + 1 < n), g.at((k,)) < g.at((k + 1,))))

    def call_(self, ctx, args, kwargs):
        pts = args[0]
        if not (isinstance(pts, tuple) and len(pts) == 2 and all(isinstance(p, SArr) for p in pts)):
            raise Undecided("interpolator called with unmodelled points")
        shp = pts[0].shape_
        ctx.oblige("safe", "rgi.point_arrays_same_shape", And(*[a == b for a, b in zip(shp, pts[1].shape_)]))
        i, j = ctx.fresh_int("qi"), ctx.fresh_int("qj")
        inside = And(i >= 0, i < shp[0], j >= 0, j < shp[1])
        for ax, (g, p) in enumerate(zip(self.grids, pts)):
            n = g.shape_[0]
            ctx.oblige("safe", "rgi.query_within_grid.axis%d" % ax,
                       Implies(inside, And(p.at((i, j)) >= g.at((0,)), p.at((i, j)) <= g.at((n - 1,)))))
        res = SArr.fresh("interp", shp)
        res.rgi = (self, pts)
        return res


def genv(ctx):
    np_ = lib.std_np(squeeze=Model(np_squeeze, 'np.squeeze'), empty=Model(np_empty, 'np.empty'),
                     array=Model(np_array, 'np.array'), arange=Model(np_arange, 'np.arange'), mgrid=MGrid())
    fits = Namespace('fits', HDUList=Model(lambda c, *a: Opaque('HDUList()'), 'fits.HDUList'),
                     open=Model(lambda c, *a, **k: Opaque('fits.open'), 'fits.open'))
    g = {'np': np_, 'fits': fits, 'logging': Namespace('logging'),
         'RegularGridInterpolator': Model(lambda c, grids, values, **k: RGI(c, grids, values), 'RegularGridInterpolator')}
    menv = Env(g)
    for fn in ('load_file_or_hdu', 'is_compressed', 'compress', 'expand'):
        g[fn] = Closure(find_function(FILE, fn), menv, FILE, fn)
    ctx.interp.inline.update(['load_file_or_hdu', 'is_compressed'])
    return g


def mk_image(ctx, use_cd):
    cx, cy = Sym(z3.Int('cx')), Sym(z3.Int('cy'))
    ctx.assume(And(cx >= 2, cy >= 2))
    R = lambda n: Sym(z3.Real(n), True)
    items = {'NAXIS': 2, 'NAXIS1': cy, 'NAXIS2': cx, 'CRPIX1': R('crpix1'), 'CRPIX2': R('crpix2'),
             'CRVAL1': R('crval1'), 'CRVAL2': R('crval2')}
    has1, has2 = Sym(z3.Bool('has_cdelt1')), Sym(z3.Bool('has_cdelt2'))
    maybe = {'CDELT1': (has1, R('cdelt1')), 'CDELT2': (has2, R('cdelt2')),
             # a header may carry CDELT, CD, or both
             'CD1_1': (Sym(z3.Bool('has_cd11')) if use_cd else False, R('cd11')), 'CD2_2': (Sym(z3.Bool('has_cd22')) if use_cd else False, R('cd22')),
             'CD1_2': (Sym(z3.Bool('has_cd12')) if use_cd else False, R('cd12')),
             'CD2_1': (Sym(z3.Bool('has_cd21')) if use_cd else False, R('cd21'))}
    hdr = SymDict("header", items, maybe)
    data = SArr.fresh("data", (cx, cy))
    hdu = Obj('PrimaryHDU', header=hdr, data=data)
    return HDUL(hdu), hdr, data, cx, cy


def t_roundtrip(ctx):
    reset_uids()
    g = genv(ctx)
    hl, hdr, data, cx, cy = mk_image(ctx, use_cd=True)
    f = Sym(z3.Int('f'))
    ctx.assume(f >= 1)
    orig = dict(hdr.vals)
    orig_present = dict(hdr.present)
    c_to_file = ctx.free_branch()
    out = run_function(ctx, FILE, 'compress', [hl, f] + (['CMP.fits'] if c_to_file else []), globals_=g)
    if out.kind != 'return':
        ctx.oblige("safe", "compress.no_exception", False)
        return
    have_scale1 = Or(orig_present['CDELT1'], orig_present['CD1_1'])
    have_scale2 = Or(orig_present['CDELT2'], orig_present['CD2_2'])
    if out.value is None:
        ctx.oblige("post", "compress.none_only_without_scale_cards", Not(And(have_scale1, have_scale2)))
        return
    ctx.oblige("post", "compress.returns_same_hdulist", out.value is hl)
    if not c_to_file:
        ctx.oblige("post", "compress.no_file_without_an_output_name", not hl.written)
    else:
        okf = len(hl.written) == 1 and hl.written[0][0] == 'CMP.fits' and hl.written[0][1] is not None
        ctx.oblige("post", "compress.output_file_written_once", okf)
        if okf:
            _, snap, vals, d_at, h_at = hl.written[0]
            fh = hl.hdu.fields['header']
            ctx.oblige("post", "compress.output_file_holds_the_returned_data_and_header",
                       d_at is hl.hdu.fields['data'] and h_at is fh and isinstance(fh, SymDict) and
                       all(snap.get(k_) is fh.present.get(k_) and vals.get(k_) is fh.vals.get(k_) for k_ in set(fh.present) | set(snap)))
    ctx.cover("compress.returns")
    cdata = hl.hdu.fields['data']
    ch = hl.hdu.fields['header']
    if not isinstance(cdata, SArr) or not isinstance(ch, SymDict):
        raise Undecided("compressed data/header are not the modelled kinds")
    nx = ite(cx % f == 0, cx // f, cx // f + 1)
    ny = ite(cy % f == 0, cy // f, cy // f + 1)
    # Euclidean division facts as hypotheses-free definitions (z3 handles div/mod by a symbolic divisor poorly)
    qx, rx, qy, ry = [Sym(z3.Int(n)) for n in ('qx', 'rx', 'qy', 'ry')]
    ctx.assume(And(cx == qx * f + rx, rx >= 0, rx < f, cy == qy * f + ry, ry >= 0, ry < f,
                   qx == cx // f, rx == cx % f, qy == cy // f, ry == cy % f))
    ctx.oblige("post", "compress.shape", And(cdata.shape_[0] == nx + 1, cdata.shape_[1] == ny + 1))
    k, l = Sym(z3.Int('k')), Sym(z3.Int('l'))
    ctx.assume(And(k >= 0, k <= nx, l >= 0, l <= ny))
    src_r = ite(k < nx, k * f, cx - 1)
    src_c = ite(l < ny, l * f, cy - 1)
    ctx.oblige("post", "compress.node_rows", cdata.at((k.e, l.e)) == data.at((src_r.e, src_c.e)))
    ctx.oblige("post", "compress.node_rows_in_image", And(src_r >= 0, src_r < cx, src_c >= 0, src_c < cy))
    hv = ch.vals
    ctx.oblige("post", "compress.header.bn_keys",
               And(*[ch.present.get(key) is True for key in ('BN_CFAC', 'BN_NPX1', 'BN_NPX2', 'BN_RPX1', 'BN_RPX2')]))
    ctx.oblige("post", "compress.header.bn_values",
               And(hv['BN_CFAC'] == f, hv['BN_NPX1'] == cy, hv['BN_NPX2'] == cx))
    ctx.oblige("post", "compress.header.crpix",
               And(hv['CRPIX1'] == (orig['CRPIX1'] + f - 1) / f, hv['CRPIX2'] == (orig['CRPIX2'] + f - 1) / f))
    ctx.oblige("post", "compress.header.scale_cards",
               And(Implies(orig_present['CDELT1'], hv['CDELT1'] == orig['CDELT1'] * f),
                   Implies(And(Not(orig_present['CDELT1']), orig_present['CD1_1']), hv['CD1_1'] == orig['CD1_1'] * f),
                   Implies(orig_present['CDELT2'], hv['CDELT2'] == orig['CDELT2'] * f),
                   Implies(And(Not(orig_present['CDELT2']), orig_present['CD2_2']), hv['CD2_2'] == orig['CD2_2'] * f)))
    # ---- expand what compress produced -------------------------------------------------------
    to_file = ctx.free_branch()
    n_written = len(hl.written)
    out2 = run_function(ctx, FILE, 'expand', [hl] + (['OUT.fits'] if to_file else []), globals_=g)
    if out2.kind != 'return' or out2.value is None:
        ctx.oblige("post", "expand.succeeds_on_compressed_file", False)
        return
    new_files = hl.written[n_written:]
    if not to_file:
        ctx.oblige("post", "expand.no_file_without_an_output_name", not new_files)
    else:
        okf = len(new_files) == 1 and new_files[0][0] == 'OUT.fits' and new_files[0][1] is not None
        ctx.oblige("post", "expand.output_file_written_once", okf)
        if okf:
            _, snap, vals, d_at, h_at = new_files[0]
            fh = hl.hdu.fields['header']
            ctx.oblige("post", "expand.output_file_holds_the_returned_data_and_header",
                       d_at is hl.hdu.fields['data'] and h_at is fh and
                       all(snap.get(k_) is fh.present.get(k_) and vals.get(k_) is fh.vals.get(k_) for k_ in set(fh.present) | set(snap)))
            ctx.oblige("post", "expand.output_file_has_no_compression_keywords",
                       all(snap.get(key) is False for key in ('BN_CFAC', 'BN_NPX1', 'BN_NPX2', 'BN_RPX1', 'BN_RPX2')))
    ctx.cover("expand.returns")
    ctx.oblige("post", "expand.returns_same_hdulist", out2.value is hl)
    xdata = hl.hdu.fields['data']
    xh = hl.hdu.fields['header']
    if not isinstance(xdata, SArr) or not hasattr(xdata, 'rgi'):
        raise Undecided("expanded data are not the result of the interpolator")
    ctx.oblige("post", "expand.shape", And(xdata.shape_[0] == cx, xdata.shape_[1] == cy))
    ctx.oblige("post", "expand.header_inverse.crpix", And(xh.vals['CRPIX1'] == orig['CRPIX1'], xh.vals['CRPIX2'] == orig['CRPIX2']))
    ctx.oblige("post", "expand.header_inverse.scale_cards",
               And(*[Implies(orig_present[key], xh.vals[key] == orig[key]) for key in ('CDELT1', 'CDELT2', 'CD1_1', 'CD2_2')]))
    ctx.oblige("post", "expand.header_inverse.scale_cards_presence_unchanged",
               And(*[xh.present[key] is orig_present[key] or xh.present[key] == orig_present[key]
                     for key in ('CDELT1', 'CDELT2', 'CD1_1', 'CD2_2')]))
    ctx.oblige("post", "expand.bn_keys_removed",
               And(*[xh.present.get(key) is False for key in ('BN_CFAC', 'BN_NPX1', 'BN_NPX2', 'BN_RPX1', 'BN_RPX2')]))
    ctx.oblige("frame", "expand.other_cards_unchanged",
               And(*[xh.vals[key] is orig[key] for key in ('CRVAL1', 'CRVAL2', 'NAXIS')]))
    ctx.oblige("post", "expand.header_inverse.cd_cross_terms",
               And(*[And(xh.present[key] is orig_present[key] or xh.present[key] == orig_present[key],
                         Implies(orig_present[key], xh.vals[key] == orig[key])) for key in ('CD1_2', 'CD2_1')]))
    rgi, pts = xdata.rgi
    rows, cols = rgi.grids
    ctx.oblige("post", "expand.interpolates_stored_samples", rgi.values is cdata or rgi.values.name.startswith(cdata.name))
    # node coordinates: stored row k (< nx) sits at original row k*f, the last stored row at or beyond cx-1
    kk, ll = Sym(z3.Int('kk')), Sym(z3.Int('ll'))
    ctx.oblige("post", "expand.node_coordinates_true",
               Implies(And(kk >= 0, kk < nx, ll >= 0, ll < ny), And(rows.at((kk.e,)) == kk * f, cols.at((ll.e,)) == ll * f)))
    ctx.oblige("post", "expand.last_node_covers_image_edge",
               And(rows.at((nx.e,)) >= cx - 1, cols.at((ny.e,)) >= cy - 1))
    # query point for output pixel (i, j) is (i, j): with true node coordinates the value at (k*f, l*f) is the stored sample
    i, j = Sym(z3.Int('pi_')), Sym(z3.Int('pj_'))
    ctx.oblige("post", "expand.query_point_is_pixel_index",
               Implies(And(i >= 0, i < cx, j >= 0, j < cy), And(pts[0].at((i.e, j.e)) == i, pts[1].at((i.e, j.e)) == j)))


def t_invalid_factor(ctx):
    g = genv(ctx)
    hl, hdr, data, cx, cy = mk_image(ctx, use_cd=False)
    which = ctx.choice(3)
    if which == 0:
        f = Sym(z3.Int('f'))
        ctx.assume(f <= 0)
    elif which == 1:
        f = Sym(z3.Real('f'), True)
    else:
        f = 0
    out = run_function(ctx, FILE, 'compress', [hl, f], globals_=g)
    ctx.oblige("post", "compress.invalid_factor_returns_none", out.kind == 'return' and out.value is None)
    ctx.oblige("frame", "compress.invalid_factor_leaves_file_alone",
               hl.hdu.fields['data'] is data and not hdr.history)


def t_expand_uncompressed(ctx):
    g = genv(ctx)
    hl, hdr, data, cx, cy = mk_image(ctx, use_cd=False)
    out = run_function(ctx, FILE, 'expand', [hl], globals_=g)
    ctx.oblige("post", "expand.uncompressed_returned_unchanged",
               out.kind == 'return' and out.value is hl and hl.hdu.fields['data'] is data and not hdr.history)


def t_is_compressed(ctx):
    g = genv(ctx)
    keys = ['BN_CFAC', 'BN_NPX1', 'BN_NPX2', 'BN_RPX1', 'BN_RPX2']
    pres = {k: Sym(z3.Bool('has_' + k)) for k in keys}
    hdr = SymDict("h", {}, {k: (pres[k], 1) for k in keys})
    out = run_function(ctx, FILE, 'is_compressed', [hdr], globals_=g)
    r = out.value
    ctx.oblige("post", "is_compressed.iff_all_five_keys",
               (r if isinstance(r, (bool, Sym)) else False) == And(*pres.values())
               if not isinstance(r, bool) else (And(*pres.values()) if r else Not(And(*pres.values()))))


def t_band_of_compressed(ctx):
    """a compressed aux file is expanded transparently on load (C20's contract, compressed path)"""
    from contracts import c20
    c20.t_single(ctx, force_compressed=True)


def verify(S):
    for name, fn in (("fits_tools.load_image_band", t_band_of_compressed), ("fits_tools.compress_expand", t_roundtrip), ("fits_tools.compress", t_invalid_factor),
                     ("fits_tools.expand", t_expand_uncompressed), ("fits_tools.is_compressed", t_is_compressed)):
        if S.only and S.only not in name:
            continue
        ctx = Ctx(S, name)
        try:
            ctx.explore(fn)
        except Undecided as u:
            S.undecided.append("%s: %s" % (name, u))
    ctx = Ctx(S, "fits_tools.compress_expand")

    def canary(c):
        reset_uids()
        g = genv(c)
        hl, hdr, data, cx, cy = mk_image(c, use_cd=False)
        c.assume(And(hdr.present['CDELT1'], hdr.present['CDELT2']))
        f = Sym(z3.Int('f'))
        c.assume(f >= 1)
        out = run_function(c, FILE, 'compress', [hl, f], globals_=g)
        if out.kind == 'return' and out.value is not None:
            c.oblige("canary", "compress.shape_unchanged", hl.hdu.fields['data'].shape_[0] == cx, expect="fail")
    ctx.explore(canary)


REPLAY = {}
for _l in ("compress.shape", "compress.node_rows", "compress.node_rows_in_image", "compress.header.bn_keys",
           "compress.header.bn_values", "compress.header.crpix", "compress.header.scale_cards", "compress.no_exception",
           "expand.succeeds_on_compressed_file", "expand.shape", "expand.header_inverse.crpix",
           "expand.header_inverse.scale_cards", "expand.bn_keys_removed", "expand.node_coordinates_true",
           "expand.last_node_covers_image_edge", "expand.query_point_is_pixel_index", "expand.interpolates_stored_samples",
           "rgi.grid_strictly_increasing.axis0", "rgi.grid_strictly_increasing.axis1", "rgi.query_within_grid.axis0",
           "rgi.query_within_grid.axis1", "rgi.grid_length_matches_values.axis0", "rgi.grid_length_matches_values.axis1",
           "compress.invalid_factor_returns_none", "expand.uncompressed_returned_unchanged",
           "compress.none_only_without_scale_cards", "expand.other_cards_unchanged",
           "expand.header_inverse.scale_cards_presence_unchanged", "compress.returns_same_hdulist",
           "expand.header_inverse.cd_cross_terms"):
    REPLAY[_l] = "replay_roundtrip"

for _l in ("band.header_shift.naxis2", "band.header_shift.crpix2", "band.header_is_image_header",
           "band.data_rows.compressed_uses_expanded_data", "band.range_within_image", "band.last_ends_at_rows",
           "band.first_starts_at_zero", "band.all_columns"):
    REPLAY[_l] = "replay_aux"
NATIVE_CHECKS = [{"func": "crosscheck", "payload": {}}, {"func": "crosscheck_aux", "payload": {}}]
