"""helpers shared by the contract modules"""
import string

import z3

from pyvc.engine import (PyObj, Model, StrFormat, Undecided, PyRaise, ExcValue)
from pyvc.values import Sym, And, Or, Not, Implies, ite, Opaque, NaNType
from pyvc.engine import b_round


class Field:
    """one replacement field of a str.format result"""

    def __init__(self, literal, value, spec):
        self.literal, self.value, self.spec = literal, value, spec
        self.kind = None       # 'd' | 'f' | 's'
        self.prec = None
        self.printed = None    # for d: Int value; for f: Int c with printed number c/10^prec; for s: str


def format_fields(ctx, sf):
    """decompose a StrFormat produced by `'...'.format(...)`"""
    if not isinstance(sf, StrFormat) or sf.percent:
        raise Undecided("result is not a str.format string")
    out = []
    auto = 0
    tail = ""
    for lit, name, spec, conv in string.Formatter().parse(sf.template):
        if name is None:
            tail = lit
            continue
        if name == "":
            idx = auto
            auto += 1
        else:
            idx = int(name) if name.isdigit() else None
        val = sf.args[idx] if idx is not None else sf.kwargs[name]
        f = Field(lit, val, spec or "")
        s = f.spec
        if s.endswith('d'):
            f.kind = 'd'
            f.printed = val
        elif s.endswith('f'):
            f.kind = 'f'
            f.prec = int(s[:-1].split('.')[1]) if '.' in s else 6
            if isinstance(val, (Opaque, NaNType)):
                f.printed = val
            else:
                scaled = val * (10 ** f.prec)
                f.printed = b_round(ctx, scaled)
        else:
            f.kind = 's'
            f.printed = val
        out.append(f)
    return out, tail


class FieldStr(PyObj):
    """a token of a printed sexagesimal string: optional sign char + a number"""

    def __init__(self, sign, value):
        self.sign, self.value = sign, value     # sign: '+', '-', or None ; value: Sym/number (non-negative magnitude)

    def getattr_(self, ctx, name):
        if name == 'startswith':
            def sw(c, prefix):
                if prefix == '-':
                    if self.sign is not None:
                        return self.sign == '-'
                    return self.value < 0
                if prefix == '+':
                    return self.sign == '+'
                raise Undecided("startswith(%r)" % (prefix,))
            return Model(sw, 'str.startswith')
        raise Undecided("FieldStr.%s" % name)

    def float_(self, ctx):
        v = self.value
        if self.sign == '-':
            return -v
        return v


class SexaStr(PyObj):
    """printed 'sDD:MM:SS.ss' string as a token list; supports replace(':',' ').split()"""

    def __init__(self, tokens, sep=':'):
        self.tokens, self.sep = tokens, sep

    def getattr_(self, ctx, name):
        if name == 'replace':
            def rep(c, a, b):
                if a == self.sep and b == ' ':
                    return SexaStr(self.tokens, ' ')
                if a != self.sep:
                    return self
                raise Undecided("replace(%r,%r)" % (a, b))
            return Model(rep, 'str.replace')
        if name == 'split':
            def split(c, *a):
                if (not a and self.sep == ' ') or (a and a[0] == self.sep):
                    return list(self.tokens)
                raise Undecided("split on a separator that is not in the string")
            return Model(split, 'str.split')
        if name == 'strip':
            return Model(lambda c, *a: self, 'str.strip')
        raise Undecided("SexaStr.%s" % name)
