"""C11 — region-restricted finding = unrestricted finding filtered by island membership.
The contract is the region branch of find_islands, see contracts/c02.py (same loop invariant and per-label obligations,
with the region rule: a label is kept iff it passes the seed rule AND one of its own pixels has its centre inside the region)."""
from contracts.c02 import *          # noqa: F401,F403
from contracts import c02

PROPERTY = "C11"
ASSUMPTIONS = c02.ASSUMPTIONS + [
    "components follow islands one to one: find_sources_in_image hands the island list to the fitter unchanged "
    "(not re-verified here; identical fitted values are the optimiser's determinism, assumed)",
]
verify = c02.verify
REPLAY = {"*": "replay_region"}
NATIVE_CHECKS = [{"func": "crosscheck", "payload": {}}]
