"""C11 — region-restricted finding = unrestricted finding filtered by island membership.
The contract is the region branch of find_islands, see contracts/c02.py (same loop invariant and per-label obligations,
with the region rule: a label is kept iff it passes the seed rule AND one of its own pixels has its centre inside the region)."""
from contracts.c02 import *          # noqa: F401,F403
from contracts import c02

PROPERTY = "C11"
ASSUMPTIONS = c02.ASSUMPTIONS + [
    "components follow islands one to one: find_sources_in_image hands the island list to the fitter unchanged "
    "(not re-verified here; identical fitted values are the optimiser's determinism, assumed)",
]
verify = c02.verify
REPLAY = {"*": "replay_region"}
NATIVE_CHECKS = [{"func": "crosscheck", "payload": {}}]


# ---------------------------------------------------------------------------
# region loading in SourceFinder.load_globals: the region the finder uses IS the region the caller gave
# ---------------------------------------------------------------------------
from pyvc.engine import (Ctx as _Ctx, Obj as _Obj, Namespace as _NS, Model as _Model, ClassModel as _CM, Instance as _Inst,
                         Env as _Env, PyRaise as _PyRaise, Undecided as _Und, Opaque as _Opq, UnknownCallable as _UC)
from contracts.c10 import RegionModel as _RegionModel


def t_region_loading(ctx):
    from pyvc import lib as _lib
    which = ctx.choice(4)          # None / Region object / existing file / missing file
    loaded = _RegionModel()
    given = _RegionModel()
    mask = [None, given, "region.mim", "missing.mim"][which]
    g = {'np': _lib.std_np(), 'os': _NS('os', path=_NS('path', exists=_Model(lambda c, f: f == "region.mim"))),
         'logging': _NS('logging'), 'Region': _RegionClass(loaded)}
    cls = _CM("AegeanTools/source_finder.py", 'SourceFinder', _Env(g))
    ctx.interp.inline.add("SourceFinder.load_globals")
    # callees: havocking contracts whose frame condition (they never assign .region) is checked on their source text
    import ast as _ast
    from pyvc.engine import find_function as _ff
    for callee in ('_make_bkg_rms', '_load_aux_image'):
        node = _ff("AegeanTools/source_finder.py", "SourceFinder." + callee)
        writes_region = any(isinstance(n, _ast.Attribute) and n.attr == 'region' and isinstance(n.ctx, (_ast.Store, _ast.Del))
                            for n in _ast.walk(node))
        ctx.oblige("frame", "load_globals.callee_%s_never_assigns_region" % callee, not writes_region)
        ctx.interp.contracts["SourceFinder." + callee] = _Model(lambda c, *a, **k: _Opq("result of a havocking callee"))
    gd = _Obj('GlobalFittingData', img=None, region='unset')
    gd.havocked = True
    me = _Inst(cls, global_data=gd, log=_NS('log'))
    me.havocked = True
    try:
        ctx.interp.call(me.getattr_(ctx, 'load_globals'), ["image.fits"], {'mask': mask})
    except _PyRaise:
        pass
    want = [None, given, loaded, None][which]
    lab = "load_globals.region_%s" % ["none", "object", "file", "missing_file"][which]
    got = gd.fields.get('region')
    if isinstance(got, _CopyModel) and want is not None:
        # a copy is acceptable only if it has the caller's resolution and was filled from the caller's region and nothing else
        import z3 as _z3
        from pyvc.values import Sym as _Sym
        gdepth = _Sym(_z3.Int('callers_maxdepth'))
        ctx.assume(gdepth >= 1)
        made = got.maxdepth if got.maxdepth is not None else 11       # Region() defaults to maxdepth 11
        ctx.oblige("post", lab + ".is_the_callers_region_on_every_path",
                   (made == gdepth) if got.unions == [want] else False)
    else:
        ctx.oblige("post", lab + ".is_the_callers_region_on_every_path", got is want)
    if which == 1:
        ctx.oblige("frame", "load_globals.the_callers_region_object_is_not_modified", given.mutated is False)


class _CopyModel(_RegionModel):
    """a Region made inside load_globals"""

    def __init__(self, maxdepth):
        _RegionModel.__init__(self)
        self.maxdepth, self.unions = maxdepth, []

    def getattr_(self, ctx, name):
        if name == 'union':
            return _Model(lambda c, other, **kw: self.unions.append(other), 'Region.union')
        return _RegionModel.getattr_(self, ctx, name)


class _RegionClass(_NS):

    def __init__(self, loaded):
        _NS.__init__(self, 'Region', load=_Model(lambda c, f: loaded, 'Region.load'))
        self.name = 'Region'

    def call_(self, ctx, args, kwargs):
        md = kwargs.get('maxdepth', args[0] if args else None)
        if hasattr(md, 'getattr_') or (md is not None and not isinstance(md, int)):
            # e.g. Region(maxdepth=mask.maxdepth): the caller's own depth
            import z3 as _z3
            from pyvc.values import Sym as _Sym
            md = _Sym(_z3.Int('callers_maxdepth'))
        return _CopyModel(md)


_base_verify = verify


def verify(S):       # noqa: F811
    _base_verify(S)
    from contracts import c09 as _c09
    ctx = _Ctx(S, "regions.Region.sky_within")
    try:
        ctx.explore(_c09.t_sky_within)
    except _Und as u:
        S.undecided.append("regions.Region.sky_within: %s" % u)
    ctx = _Ctx(S, "source_finder.SourceFinder.load_globals")
    try:
        ctx.explore(t_region_loading)
    except _Und as u:
        S.undecided.append("source_finder.SourceFinder.load_globals: %s" % u)
