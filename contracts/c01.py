"""C01 — closed-loop recovery of an injected isolated Gaussian: the deductive part is the convention chain.

The recovery itself (the optimiser converges to the injected parameters) cannot be a postcondition of any function of the
repository; what contracts CAN decide, for all inputs, is that every link between the pixel model and the reported numbers
is the right one, so that the injected parameters ARE a zero of the residual the optimiser minimises and are reported
under the documented conventions:
  model     : ntwodgaussian_lmfit(params)(x, y) = sum over components of elliptical_gaussian(x, y, amp, xo, yo, sx, sy, theta)
              (loop invariant, argument order checked against the signature of elliptical_gaussian);
  residual  : do_lmfit's residual is (model - data) on exactly the finite pixels (right-multiplied by B when given) -- hence it
              is identically zero at the injected parameters of a noise-free image (lemma) -- and is what lmfit.minimize gets,
              with lmfit_jacobian as its derivative (proved to be the derivative under C04);
  start     : the initial amplitude / position bounds of estimate_lmfit_parinfo contain the injected values
              (KNOWN FINDING: the upper amplitude bound 1.05*max pixel + innerclip*rms excludes the true peak of a bright,
              coarsely sampled source centred near a pixel corner);
  report    : result_to_components hands (xo + xmin + 1, yo + ymin + 1), sx*CC2FHWM, sy*CC2FHWM, theta to pix2sky_ellipse
              (re-run of the C03 contract; pix2sky_ellipse itself under C16), int_flux = peak * a * b / (beam a*b) in pixels;
  errors    : fitting.errors measures err_a / err_b / err_pa along the fitted major axis (theta) and minor axis (theta - 90) --
              the directions pix2sky_ellipse uses -- from the end of the semi-axis, converts sigma to FWHM, and err_ra/err_dec
              from the centre.
"""
import ast

import z3

from pyvc.engine import (Ctx, PyObj, Model, Namespace, Obj, run_function, run_stmts, find_function, Env, Undecided, PyRaise,
                         LoopSpec, Opaque, unparse, Closure)
from pyvc.values import Sym, And, Or, Not, Implies, ite, NaN, NaNType
from pyvc import lib
from contracts.models import Params, FlagWord, PNAMES
from contracts.arrays import SArr, reset_uids, uid
from contracts import c13

PROPERTY = "C01"
FFILE = "AegeanTools/fitting.py"
FILE = "AegeanTools/source_finder.py"

ASSUMPTIONS = [
    "lmfit.minimize returns a minimiser of the sum of squared residuals it is given (the injected parameters are one, by the "
    "zero-residual lemma); convergence to it from the start values is NOT decided -- native closed-loop runs only",
    "WCSHelper.pix2sky / pix2sky_ellipse by their C16 contracts; gcd / bear by their C17 contracts; jacobian by C04",
    "an island of an S/N >= 8 source spans at least 1.7 sigma_major along its longer side (used for the shape bounds)",
    "the brightest pixel of a noise-free Gaussian is within one pixel of its centre and not above its peak",
    "floats as reals",
]
R = z3.RealSort()
I = z3.IntSort()


def sym(n):
    return Sym(z3.Real(n), True)


# ---------------------------------------------------------------------------
# model = sum of the component Gaussians
# ---------------------------------------------------------------------------

EG = z3.Function('elliptical_gaussian', *([R] * 9))
SUM = z3.Function('sum_of_first_k_components', I, R)


def t_model(ctx):
    n = Sym(z3.Int('n'))
    ctx.assume(n >= 1)
    P = Params('P', n, split_stderr=False)
    x, y = sym('x'), sym('y')
    sig = [a.arg for a in find_function(FFILE, 'elliptical_gaussian').args.args]
    want = ['x', 'y', 'amp', 'xo', 'yo', 'sx', 'sy', 'theta']
    ctx.oblige("pre", "model.elliptical_gaussian_signature_is_x_y_amp_xo_yo_sx_sy_theta", sig == want)
    calls = []

    def eg(c, *a):
        calls.append(a)
        if len(a) != 8:
            raise Undecided("elliptical_gaussian call with %d arguments" % len(a))
        return Sym(EG(*[Sym.lift(v) if not (z3.is_expr(Sym.lift(v)) and z3.is_int(Sym.lift(v))) else z3.ToReal(Sym.lift(v)) for v in a]), True)
    g = {'np': lib.std_np(nan_to_num=Model(lambda c, v: v)), 'elliptical_gaussian': Model(eg, 'elliptical_gaussian')}
    V = lambda k, pn: Sym(P.f['value'](Sym.lift(k), z3.IntVal(PNAMES.index(pn))), True)
    term = lambda k: Sym(EG(x.e, y.e, *[V(k, pn).e for pn in ('amp', 'xo', 'yo', 'sx', 'sy', 'theta')]), True)

    def inv(c, env, k):
        res = env.lookup('result')
        if isinstance(k, int) and k == 0:
            return [("no_partial_sum_before_the_first_component", res is None)]
        if res is None:
            return [("partial_sum_is_the_sum_of_the_first_k_components", k == 0)]
        return [("partial_sum_is_the_sum_of_the_first_k_components", And(k >= 1, res == Sym(SUM(Sym.lift(k)), True)))]

    def facts(c, env, k):
        kk = Sym.lift(k)
        return [Sym(SUM(kk + 1) == SUM(kk) + term(k).e), Sym(SUM(z3.IntVal(1)) == term(0).e), Sym(SUM(kk) == SUM(kk - 1) + term(k - 1).e)]

    def havoc_result(c, env):
        return None
    st = {}

    def before(c, env, k):
        # at iteration k >= 1 a partial sum exists; at k == 0 there is none
        st['first'] = c.free_branch()
        if st['first']:
            c.assume(k == 0)
            env.vars['result'] = None
        else:
            c.assume(k >= 1)
            env.vars['result'] = Sym(SUM(Sym.lift(k)), True)
        del calls[:]

    def after(c, env, k):
        c.oblige("post", "model.one_gaussian_per_component_with_its_own_parameters",
                 len(calls) == 1 and And(calls[0][0] == x, calls[0][1] == y,
                                         *[calls[0][2 + j] == V(k, pn) for j, pn in enumerate(('amp', 'xo', 'yo', 'sx', 'sy', 'theta'))]))
    spec = LoopSpec(inv, facts=facts, label="components", types={'result': 'keep'})
    spec.before_body, spec.after_body = before, after
    ctx.interp.loops["for i in range(*"] = spec
    fn = find_function(FFILE, 'ntwodgaussian_lmfit')
    ctx.interp.inline.add('rfunc')
    out = run_function(ctx, FFILE, 'ntwodgaussian_lmfit', [P], globals_=g)
    if out.kind != 'return' or not isinstance(out.value, Closure):
        ctx.oblige("post", "model.returns_a_function_of_x_y", False)
        return
    try:
        val = ctx.interp.call(out.value, [x, y], {})
    except PyRaise:
        ctx.oblige("safe", "model.no_exception", False)
        return
    ctx.oblige("post", "model.value_is_the_sum_over_all_components", val == Sym(SUM(n.e), True) if isinstance(val, Sym) else False)


# ---------------------------------------------------------------------------
# residual
# ---------------------------------------------------------------------------

class DataArr(PyObj):
    """2-d image known through D(r, c) and its finite flag; data[mask] for mask = np.where(np.isfinite(data))"""
    typename = 'ndarray'

    def __init__(self, name):
        self.name = name
        self.D = z3.Function('D_' + name, I, I, R)

    def getitem_(self, ctx, k):
        if isinstance(k, tuple) and len(k) == 2 and all(isinstance(a, SArr) for a in k):
            mx, my = k
            return SArr(uid("data_sel"), mx.shape_, lambda idx: Sym(self.D(Sym.lift(mx.at(idx)), Sym.lift(my.at(idx))), True))
        raise Undecided("index of the data array")


def t_residual(ctx):
    reset_uids()
    data = DataArr('data')
    npx = Sym(z3.Int('n_finite'))
    ctx.assume(npx >= 1)
    MX, MY = SArr.fresh('mask_rows', (npx,), sort='int'), SArr.fresh('mask_cols', (npx,), sort='int')
    isfin = Obj('finite_mask')
    use_B = ctx.free_branch()
    B = Obj('Bmatrix') if use_B else None
    model_nan = ctx.free_branch()
    MODEL = z3.Function('model_at', I, I, R)
    got = {}

    def m_where(c, cond):
        got['where_arg'] = cond
        return (MX, MY)

    def m_isfinite(c, v):
        if v is data:
            return isfin
        return FiniteOf(v)

    class FiniteOf(PyObj):
        def __init__(s, v):
            s.v = v

        def binop_(s, c, op, other, swapped):
            if op == 'invert':
                return NotFinite(s.v)
            return NotImplemented

    class NotFinite(PyObj):
        def __init__(s, v):
            s.v = v

    def m_any(c, v):
        if isinstance(v, NotFinite):
            got['nan_test_on'] = v.v
            return model_nan
        raise Undecided("np.any of %s" % type(v).__name__)

    def m_model(c, params):
        got['model_params'] = params

        def f(c2, xs, ys):
            got['model_xy'] = (xs, ys)
            return SArr(uid("model"), xs.shape_, lambda idx: Sym(MODEL(Sym.lift(xs.at(idx)), Sym.lift(ys.at(idx))), True))
        return Model(f, 'rfunc')

    class DotB(PyObj):
        def __init__(s, v, b):
            s.v, s.b = v, b
    sarr_getattr = SArr.getattr_

    def patched(self, c, name):
        if name == 'dot':
            return Model(lambda c2, b: DotB(self.snapshot(), b), 'ndarray.dot')
        return sarr_getattr(self, c, name)
    mini = {}

    def m_minimize(c, fcn, params, kws=None, Dfun=None, **kw):
        mini.update(fcn=fcn, params=params, kws=kws, Dfun=Dfun)
        return Obj('MinimizerResult', params=params, residual=Opaque('residual'))
    jac = Obj('lmfit_jacobian')
    g = {'np': lib.std_np(array=Model(lambda c, v: v), where=Model(m_where), isfinite=Model(m_isfinite), any=Model(m_any)),
         'copy': Namespace('copy', deepcopy=Model(lambda c, v: v)), 'ntwodgaussian_lmfit': Model(m_model, 'ntwodgaussian_lmfit'),
         'lmfit': Namespace('lmfit', minimize=Model(m_minimize)), 'lmfit_jacobian': jac, 'inv': Model(lambda c, b: Obj('invB')),
         'AegeanNaNModelError': __import__('pyvc.engine', fromlist=['ExcClass']).ExcClass('AegeanNaNModelError')}
    SArr.getattr_ = patched
    try:
        P = Obj('Parameters')
        ctx.interp.inline.add('residual')
        out = run_function(ctx, FFILE, 'do_lmfit', [data, P], kwargs={'B': B}, globals_=g)
        if out.kind != 'return' or 'fcn' not in mini:
            ctx.oblige("post", "residual.minimize_is_called", False)
            return
        ctx.oblige("post", "residual.fit_uses_the_finite_pixels_and_the_analytic_jacobian",
                   got.get('where_arg') is isfin and mini['Dfun'] is jac and mini['params'] is P)
        trial = Obj('trial parameters')
        try:
            r = ctx.interp.call(mini['fcn'], [trial], dict(mini['kws'] or {}))
            raised = False
        except PyRaise as pr:
            raised, r = True, None
        ctx.oblige("post", "residual.raises_exactly_when_the_model_is_not_finite", raised == bool(model_nan))
        if raised:
            return
        ctx.oblige("post", "residual.model_is_evaluated_at_the_finite_pixels_for_the_trial_parameters",
                   got.get('model_params') is trial and got.get('model_xy') is not None and got['model_xy'][0] is MX and got['model_xy'][1] is MY)
        inner = r.v if isinstance(r, DotB) else r
        ctx.oblige("post", "residual.is_whitened_by_B_exactly_when_B_is_given", isinstance(r, DotB) == bool(use_B) and (not use_B or r.b is B))
        if not isinstance(inner, SArr):
            ctx.oblige("post", "residual.is_a_vector", False)
            return
        j = Sym(z3.Int('j'))
        ctx.assume(And(j >= 0, j < npx))
        mj = Sym(MODEL(Sym.lift(MX.at((j,))), Sym.lift(MY.at((j,)))), True)
        dj = Sym(data.D(Sym.lift(MX.at((j,))), Sym.lift(MY.at((j,)))), True)
        ctx.oblige("post", "residual.element_j_is_model_minus_data_at_finite_pixel_j", inner.at((j,)) == mj - dj)
        ctx.oblige("lemma", "residual.vanishes_at_the_injected_parameters_of_a_noise_free_image", Implies(mj == dj, inner.at((j,)) == 0))
    finally:
        SArr.getattr_ = sarr_getattr


# ---------------------------------------------------------------------------
# start values: bounds contain the injected amplitude / position
# ---------------------------------------------------------------------------

def t_start_bounds(ctx):
    fn = find_function(FILE, c13.QE)
    loop = None
    for node in fn.body:
        if isinstance(node, ast.For) and 'summits' in unparse(node.iter):
            loop = node
    if loop is None:
        raise Undecided("summit loop not found")
    shape = (Sym(z3.Int('R')), Sym(z3.Int('C')))
    sshape = (Sym(z3.Int('SR')), Sym(z3.Int('SC')))
    box = [Sym(z3.Int(n)) for n in ('xmin', 'xmax', 'ymin', 'ymax')]
    i0 = Sym(z3.Int('i'))
    ctx.assume(And(shape[0] >= 1, shape[1] >= 1, sshape[0] >= 1, sshape[1] >= 1, box[0] >= 0, box[2] >= 0, i0 >= 0))
    innerclip, outerclip = sym('innerclip'), sym('outerclip')
    ctx.assume(And(innerclip > 0, outerclip > 0, outerclip <= innerclip))
    PA, PB = sym('pixbeam_a'), sym('pixbeam_b')
    ctx.assume(And(PA >= PB, PB >= 2))
    psf = Obj('PSFHelper')
    psf.methods['get_psf_pix2pix'] = lambda c, s, x, y: (PA, PB, sym('pixbeam_pa'))
    gd = Obj('gd', psfhelper=psf)
    F2C = sym('FWHM2CC')
    ctx.assume(F2C > 0)
    g = {'np': c13.np_model(), 'flags': c13.FLAGS, 'Beam': Model(lambda c, a, b, pa: Obj('Beam', a=a, b=b, pa=pa), 'Beam'),
         'FWHM2CC': F2C, 'CC2FHWM': sym('CC2FHWM'), 'math': Namespace('math', sqrt=Model(lib.m_sqrt)), 'abs': Model(c13.m_abs)}
    S = c13.SgnArr('summit', 1, sshape)
    mx = c13.red('nanmax', S)
    am = c13.m_argmax(ctx, S)
    ctx.assume(And(am >= 0, am < sshape[0] * sshape[1]))
    A, X0, Y0 = sym('A_true'), sym('x_true'), sym('y_true')
    # an isolated positive Gaussian, noise free: its brightest pixel is not above the peak and within a pixel of the centre
    ctx.assume(And(A > 0, mx > 0, mx <= A))
    from contracts.c05 import AddParams
    P = AddParams('P', i0)
    rms_at = lambda k: None
    env = {'self': Obj('self', log=Namespace('log'), global_data=gd), 'global_data': gd, 'summit': S,
           'xmin': box[0], 'xmax': box[1], 'ymin': box[2], 'ymax': box[3],
           'data': c13.SgnArr('island', 1, shape), 'rmsimg': c13.SgnArr('rmsimg', 1, shape, kind='rms'), 'isnegative': False,
           'innerclip': innerclip, 'outerclip': outerclip, 'offsets': (Sym(z3.Int('off0')), Sym(z3.Int('off1'))), 'max_summits': None,
           'i': i0, 'params': P, 'is_flag': 0, 'summits_considered': Sym(z3.Int('considered')), 'debug_on': False}
    out = run_stmts(ctx, FILE, c13.QE, loop.body, env, globals_=g, region_desc="one summit -> initial parameters and bounds")
    if out.kind != 'fallthrough':
        return        # the summit is skipped (below innerclip): not the case of the property
    V = lambda f, pn: P.sym(f, i0, pn)
    ctx.assume(And(V('value', 'xo') - X0 <= 1, X0 - V('value', 'xo') <= 1, V('value', 'yo') - Y0 <= 1, Y0 - V('value', 'yo') <= 1))
    ctx.oblige("post", "start.position_bounds_contain_the_injected_position",
               And(V('min', 'xo') <= X0, X0 <= V('max', 'xo'), V('min', 'yo') <= Y0, Y0 <= V('max', 'yo')), timeout_ms=30000)
    ctx.oblige("post", "start.lower_amplitude_bound_is_below_the_injected_peak", V('min', 'amp') <= A)
    ctx.oblige("post", "start.upper_amplitude_bound_is_above_the_injected_peak", V('max', 'amp') >= A)
    ctx.oblige("post", "start.all_six_parameters_are_free", And(*[V('vary', pn) for pn in PNAMES[:6]]))
    # shape: the injected source is at least as large as the beam, and the island (S/N >= 8, clipped at <= 4 sigma) spans, along its
    # longer side, at least 1.7 sigma_major (the half-length sigma*sqrt(2 ln(SNR/clip)) >= 1.2 sigma projects by >= 1/sqrt(2))
    SM, Sm = sym('sigma_major_true'), sym('sigma_minor_true')
    ext = shape[0] if False else None
    big = ite(shape[0] >= shape[1], shape[0], shape[1])
    ctx.assume(And(SM >= Sm, Sm >= PB * F2C, SM >= PA * F2C, big >= SM * 1.7, F2C * 2.3548 <= 1, F2C * 2.3549 >= 1))
    ctx.cover("start.hypotheses_are_satisfiable")
    ctx.oblige("post", "start.shape_bounds_contain_the_injected_shape_in_either_axis_assignment",
               And(V('min', 'sx') <= Sm, V('min', 'sy') <= Sm, V('max', 'sx') >= SM, V('max', 'sy') >= SM), timeout_ms=30000)


# ---------------------------------------------------------------------------
# errors(): geometry
# ---------------------------------------------------------------------------

def t_errors_geometry(ctx):
    P = Params('M', Sym(z3.Int('n')), split_stderr=False)
    jn = Sym(z3.Int('jsrc'))
    fw, pre = FlagWord.fresh('srcflags')
    ctx.assume(pre)
    ctx.assume(Not(fw.has(2)))
    ctx.assume(Not(fw.has(16)))
    src = Obj('ComponentSource', source=jn, flags=fw, peak_flux=sym('peak'), a=sym('a'), b=sym('b'), pa=sym('pa'),
              int_flux=sym('int_flux'), ra=sym('ra'), dec=sym('dec'))
    ctx.assume(And(src.fields['peak_flux'] != 0, src.fields['a'] > 0, src.fields['b'] > 0, src.fields['int_flux'] != 0))
    for pn in PNAMES[:6]:
        ctx.assume(P.sym('vary', jn, pn))
        ctx.assume(P.sym('stderr', jn, pn) > 0)
    SKY = [z3.Function('sky_ra', R, R, R), z3.Function('sky_dec', R, R, R)]
    pts = []

    def pix2sky(c, s, pixel):
        px, py = [Sym.lift(v) for v in pixel]
        pts.append((Sym(px, True), Sym(py, True)))
        return [Sym(SKY[0](px, py), True), Sym(SKY[1](px, py), True)]
    helper = Obj('WCSHelper')
    helper.methods['pix2sky'] = pix2sky
    GCD = z3.Function('gcd', R, R, R, R, R)
    BEAR = z3.Function('bear', R, R, R, R, R)
    gcalls, bcalls = [], []

    def m_gcd(c, *a):
        gcalls.append(a)
        v = Sym(GCD(*[Sym.lift(x) for x in a]), True)
        c.assume(v >= 0)
        return v

    def m_bear(c, *a):
        bcalls.append(a)
        return Sym(BEAR(*[Sym.lift(x) for x in a]), True)
    LN2 = sym('ln2')
    ctx.assume(And(LN2 > 0.693, LN2 < 0.6932))
    g = {'np': lib.std_np(), 'flags': c13.FLAGS, 'ERR_MASK': -1.0, 'gcd': Model(m_gcd), 'bear': Model(m_bear), 'log': Namespace('log'),
         'math': Namespace('math', sqrt=Model(lib.m_sqrt), log=Model(lambda c, v: LN2 if v == 2 else lib.m_log(c, v)))}
    out = run_function(ctx, FFILE, 'errors', [src, P, helper], globals_=g)
    if out.kind != 'return':
        ctx.oblige("safe", "errors.no_exception", False)
        return
    f = src.fields
    V = lambda pn: P.sym('value', jn, pn)
    E = lambda pn: P.sym('stderr', jn, pn)
    xo, yo, sx, sy, th = [V(pn) for pn in ('xo', 'yo', 'sx', 'sy', 'theta')]
    sky = lambda px, py: (Sym(SKY[0](Sym.lift(px), Sym.lift(py)), True), Sym(SKY[1](Sym.lift(px), Sym.lift(py)), True))
    cosd = lambda t: lib.m_cos(ctx, lib.m_radians(ctx, t))
    sind = lambda t: lib.m_sin(ctx, lib.m_radians(ctx, t))
    gc = lambda p, q: Sym(GCD(p[0].e, p[1].e, q[0].e, q[1].e), True)
    br = lambda p, q: Sym(BEAR(p[0].e, p[1].e, q[0].e, q[1].e), True)
    K = sym('CC2FHWM')
    ctx.assume(And(K > 0, K * K == 8 * LN2))
    centre = sky(xo, yo)
    ctx.oblige("post", "errors.peak_error_is_the_amplitude_error", f['err_peak_flux'] == E('amp'))
    off = sky(xo + E('xo'), yo + E('yo'))
    ctx.oblige("post", "errors.position_errors_are_separations_from_the_centre_along_ra_and_dec",
               And(f['err_ra'] == gc(centre, (off[0], centre[1])), f['err_dec'] == gc(centre, (centre[0], off[1]))))
    a0 = sky(xo + sx * cosd(th), yo + sx * sind(th))
    a1 = sky(xo + (sx + E('sx')) * cosd(th), yo + (sx + E('sx')) * sind(th))
    ctx.oblige("post", "errors.major_axis_error_is_a_step_of_err_sx_along_theta_in_fwhm_arcsec", f['err_a'] == gc(a0, a1) * 3600 * K,
               timeout_ms=30000)
    b0 = sky(xo + sy * cosd(th - 90), yo + sy * sind(th - 90))
    b1 = sky(xo + (sy + E('sy')) * cosd(th - 90), yo + (sy + E('sy')) * sind(th - 90))
    ctx.oblige("post", "errors.minor_axis_error_is_a_step_of_err_sy_along_theta_minus_90_in_fwhm_arcsec",
               f['err_b'] == gc(b0, b1) * 3600 * K, timeout_ms=30000)
    p1 = sky(xo + sx * cosd(th + E('theta')), yo + sx * sind(th + E('theta')))
    d = br(centre, a0) - br(centre, p1)
    ctx.oblige("post", "errors.pa_error_is_the_bearing_change_of_the_major_axis_end_rotated_by_err_theta",
               Or(f['err_pa'] == d, f['err_pa'] == -d), timeout_ms=30000)


def t_detection_call(ctx):
    """find_sources_in_image hands find_islands the background-subtracted image with a ZERO background, the rms map and the clips"""
    qn = 'SourceFinder.find_sources_in_image'
    fn = find_function(FILE, qn)
    a = next((k for k, st in enumerate(fn.body) if isinstance(st, ast.Assign) and unparse(st.targets[0]) == 'global_data'), None)
    b = next((k for k, st in enumerate(fn.body) if isinstance(st, ast.Assign) and unparse(st.targets[0]) == 'islands'), None)
    if a is None or b is None or b <= a:
        raise Undecided("find_sources_in_image: detection region not found")
    stmts = [st for st in fn.body[a:b + 1]]
    shape = (Sym(z3.Int('R')), Sym(z3.Int('C')))
    ctx.assume(And(shape[0] >= 1, shape[1] >= 1))
    img = SArr.fresh('subtracted_image', shape, with_nan=True)
    rms = SArr.fresh('rms', shape, with_nan=True)
    bkgimg = SArr.fresh('bkgimg', shape, with_nan=True)
    gd = Obj('GlobalFittingData', img=img, rmsimg=rms, bkgimg=bkgimg, region=Opaque('region'), psfhelper=Obj('psf'), wcshelper=Obj('wcs'),
             beam=Obj('Beam', a=sym('ba'), b=sym('bb'), pa=sym('bpa')), header=Opaque('header'), data_pix=Opaque('x'))
    ic, oc = sym('innerclip'), sym('outerclip')
    ctx.assume(And(ic > 0, oc > 0))
    got = {}

    def m_find(c, *a, **kw):
        got.update(kw)
        got['args'] = a
        return []

    def zeros_like(c, v):
        return SArr(uid("zeros"), v.shape_, lambda idx: 0)
    g = {'np': lib.std_np(zeros_like=Model(zeros_like)), 'find_islands': Model(m_find, 'find_islands')}
    env = {'self': Obj('self', global_data=gd, log=Namespace('log')), 'innerclip': ic, 'outerclip': oc, 'max_summits': None}
    out = run_stmts(ctx, FILE, qn, stmts, env, globals_=g, region_desc="from global_data to the find_islands call")
    if out.kind != 'fallthrough' or not got:
        ctx.oblige("post", "detection.find_islands_is_called", False)
        return
    if got.get('args'):
        raise Undecided("find_islands called positionally")
    r_, c_ = Sym(z3.Int('r')), Sym(z3.Int('c'))
    ctx.assume(And(r_ >= 0, r_ < shape[0], c_ >= 0, c_ < shape[1]))
    bk = got.get('bkg')
    ctx.oblige("post", "detection.image_is_the_background_subtracted_image_and_rms_the_noise_map", got.get('im') is img and got.get('rms') is rms)
    ctx.oblige("post", "detection.background_argument_is_zero_everywhere",
               And(bk.at((r_, c_)) == 0, Not(bk.isnan((r_, c_))), bk.shape_[0] == shape[0], bk.shape_[1] == shape[1])
               if isinstance(bk, SArr) and len(bk.shape_) == 2 else (bk == 0 if isinstance(bk, (int, float)) else False))
    ctx.oblige("post", "detection.clips_are_the_callers_with_flood_not_above_seed",
               And(got.get('seed_clip') == ic, got.get('flood_clip') == ite(oc > ic, ic, oc)))
    if out.env.has('scalars'):
        sc = out.env.lookup('scalars')
        ctx.oblige("post", "detection.per_island_scalars_hold_the_clips_used_for_detection",
                   And(sc[0] == got.get('seed_clip'), sc[1] == got.get('flood_clip')) if isinstance(sc, tuple) and len(sc) == 3 else False)


def t_make_bkg_rms(ctx):
    """noise / background are each either the forced value or the internal (BANE) estimate, independently of each other"""
    qn = 'SourceFinder._make_bkg_rms'
    shape = (Sym(z3.Int('R')), Sym(z3.Int('C')))
    ctx.assume(And(shape[0] >= 1, shape[1] >= 1))
    rms0, bkg0 = SArr.fresh('rms_zeros', shape), SArr.fresh('bkg_zeros', shape)
    est_b, est_r = SArr.fresh('bane_bkg', shape, with_nan=True), SArr.fresh('bane_rms', shape, with_nan=True)
    f_rms = sym('forced_rms') if ctx.free_branch() else None
    f_bkg = sym('forced_bkg') if ctx.free_branch() else None
    gd = Obj('GlobalFittingData', rmsimg=rms0, bkgimg=bkg0, header=Opaque('header'), cube_index=None)
    me = Obj('self', global_data=gd, log=Namespace('log'))
    calls = []

    def m_filter(c, **kw):
        calls.append(kw)
        return (est_b, est_r)
    g = {'get_step_size': Model(lambda c, h: (Sym(z3.Int('step0')), Sym(z3.Int('step1'))), 'get_step_size'),
         'filter_image': Model(m_filter, 'BANE.filter_image'), 'np': lib.std_np()}
    out = run_function(ctx, FILE, qn, [me, 'image.fits'], kwargs={'forced_rms': f_rms, 'forced_bkg': f_bkg, 'cores': 1}, globals_=g)
    if out.kind != 'return':
        ctx.oblige("safe", "bkg_rms.no_exception", False)
        return
    r_, c_ = Sym(z3.Int('r')), Sym(z3.Int('c'))
    ctx.assume(And(r_ >= 0, r_ < shape[0], c_ >= 0, c_ < shape[1]))
    p = (r_, c_)
    rm, bk = gd.fields['rmsimg'], gd.fields['bkgimg']
    ok = isinstance(rm, SArr) and isinstance(bk, SArr)
    ctx.oblige("post", "bkg_rms.maps_are_images", ok)
    if not ok:
        return
    lab = "bkg_rms.%s_%s" % ("rms_forced" if f_rms is not None else "rms_estimated", "bkg_forced" if f_bkg is not None else "bkg_estimated")
    ctx.oblige("post", lab + ".noise_map_is_the_forced_value_or_the_estimate",
               And(rm.at(p) == f_rms, Not(rm.isnan(p))) if f_rms is not None else
               And(rm.at(p) == est_r.at(p), Sym(Sym.lift(rm.isnan(p)) == Sym.lift(est_r.isnan(p)))))
    ctx.oblige("post", lab + ".background_map_is_the_forced_value_or_the_estimate",
               And(bk.at(p) == f_bkg, Not(bk.isnan(p))) if f_bkg is not None else
               And(bk.at(p) == est_b.at(p), Sym(Sym.lift(bk.isnan(p)) == Sym.lift(est_b.isnan(p)))))
    ctx.oblige("post", lab + ".estimator_runs_iff_something_is_not_forced",
               (len(calls) == 0) == (f_rms is not None and f_bkg is not None) and len(calls) <= 1 and
               all(kw.get('im_name') == 'image.fits' for kw in calls))


def t_api_defaults(ctx):
    """a caller who passes no polarity options gets both polarities (the recovery claim covers negative amplitudes too)"""
    fn = find_function(FILE, 'SourceFinder.find_sources_in_image')
    ctx.info = ctx.session.register_function(FILE, 'SourceFinder.find_sources_in_image', fn, mode="region")
    names = [a.arg for a in fn.args.args]
    defs = dict(zip(names[len(names) - len(fn.args.defaults):], fn.args.defaults))
    val = lambda k: ast.literal_eval(defs[k]) if k in defs else 'missing'
    ctx.oblige("post", "api.default_options_keep_both_polarities", val('nopositive') is False and val('nonegative') is False)
    ctx.oblige("post", "api.default_clips_are_seed_5_flood_4", val('innerclip') == 5 and val('outerclip') == 4)


def _curvature(ctx):
    return c13.t_curvature(ctx)


def _chain(ctx):
    from contracts import c03
    return c03.t_result_to_components(ctx)


def verify(S):
    # detection: the find_islands contract of C02 (mask = finite and |image - bkg| / rms >= flood, seeds, own pixels)
    from contracts import c02
    c02.verify(S)
    # the reported uncertainties: Fisher-matrix composition and stderr indexing (C04); the spherical primitives behind the pixel beam and
    # the sky ellipse (C17); the pixel beam of the image (C16 __init__): contracts of those properties, re-run here
    from contracts import c04, c16, c17
    for name, fn in (("fitting.lmfit_jacobian", c04.t_lmfit_jacobian), ("fitting.covar_errors", c04.t_covar_errors),
                     ("angle_tools.gcd", c17.t_gcd), ("angle_tools.bear", c17.t_bear), ("angle_tools.translate", c17.t_translate),
                     ("wcs_helpers.WCSHelper.__init__", c16.t_init), ("wcs_helpers.WCSHelper.ellipses", c16.t_ellipses)):
        if S.only and S.only not in name:
            continue
        ctx = Ctx(S, name)
        try:
            ctx.explore(fn)
        except Undecided as u:
            S.undecided.append("%s: %s" % (name, u))
    targets = [("source_finder.SourceFinder.find_sources_in_image[detection]", t_detection_call),
               ("fitting.ntwodgaussian_lmfit", t_model), ("fitting.do_lmfit", t_residual),
               ("source_finder.SourceFinder.estimate_lmfit_parinfo[start]", t_start_bounds),
               ("source_finder.SourceFinder.result_to_components", _chain), ("fitting.errors[geometry]", t_errors_geometry),
               ("source_finder.SourceFinder._make_bkg_rms", t_make_bkg_rms), ("source_finder.SourceFinder._fit_island[curvature]", _curvature),
               ("source_finder.SourceFinder.find_sources_in_image[defaults]", t_api_defaults)]
    for name, fn in targets:
        if S.only and S.only not in name:
            continue
        ctx = Ctx(S, name)
        try:
            ctx.explore(fn)
        except Undecided as u:
            S.undecided.append("%s: %s" % (name, u))


REPLAY = {"*": "replay_recovery"}
NATIVE_CHECKS = [{"func": "crosscheck", "payload": {}, "timeout": 2400}]
