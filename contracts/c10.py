"""C10 — masking keeps or removes exactly the pixels/rows whose position is in the region
(AegeanTools/MIMAS.py: mask_plane, mask_file, mask_table).

Spec (from the property).  W = the image's FITS WCS map on 1-based pixel coordinates (axis 1 = column,
axis 2 = row), within(ra, dec) = the region's membership answer for a position in degrees:
  mask_plane(data, wcs, region, negate): pixel (row r, column c) becomes NaN  iff  it was NaN already or
        [not negate and not within(W(c+1, r+1))]  or  [negate and within(W(c+1, r+1))];
     every other pixel keeps its value; the array is modified in place and returned; the region is not modified.
  mask_file: every plane of a cube is masked with the same wcs / region / negate; the result is written.
  mask_table: the result is table[mask] with mask[k] = not inside(k) (inside(k) with negate),
     inside(k) = within(ra_k, dec_k) taken from the named columns in (ra, dec) order, degrees.
"""
import z3

from pyvc.engine import (Ctx, PyObj, Model, Namespace, Obj, run_function, find_function, Closure, Env, Undecided,
                         PyRaise, ExcValue, ExcClass, LoopSpec, SymDict, Opaque)
from pyvc.values import Sym, And, Or, Not, Implies, ite, NaN
from pyvc import lib
from contracts.arrays import (SArr, np_empty, np_array, np_squeeze, np_bitwise_not, reset_uids, uid, ZipArr, np_any, np_all,
                              np_nan_to_num, np_isnan, np_isfinite_arr)

PROPERTY = "C10"
FILE = "AegeanTools/MIMAS.py"

ASSUMPTIONS = [
    "astropy WCS.wcs_pix2world(xy, origin): row k of the result is W(xy[k,0] - origin + 1, xy[k,1] - origin + 1) where W is "
    "the FITS map on 1-based (axis1 = column, axis2 = row) pixel coordinates",
    "Region.sky_within(ra, dec, degin=True)[k] = within(ra_k, dec_k) (pointwise; C08/C09 contracts), region unchanged",
    "numpy: np.empty/np.array/reshape (row-major)/transpose/bitwise_not/boolean-mask assignment/basic slicing as in contracts/arrays.py",
    "astropy Table: table[name] is the column, table[boolean array] keeps exactly the rows where it is True, in order",
    "mask_file: fits/pywcs/os I/O calls as named (open, WCS(header, naxis=2), writeto)",
]

W_ra = z3.Function('W_ra', z3.RealSort(), z3.RealSort(), z3.RealSort())
W_dec = z3.Function('W_dec', z3.RealSort(), z3.RealSort(), z3.RealSort())
WITHIN = z3.Function('within_deg', z3.RealSort(), z3.RealSort(), z3.BoolSort())


def rl(x):
    e = Sym.num(x)
    return z3.ToReal(e) if z3.is_int(e) else e


class WCS(PyObj):
    def __init__(self, tag="w"):
        self.tag = tag
        self.calls = []

    def getattr_(self, ctx, name):
        if name in ('wcs_pix2world', 'all_pix2world'):
            def p2w(c, xy, origin, *a):
                c.session.trust("astropy.wcs.WCS.%s(xy, origin) = FITS map W on (xy - origin + 1)" % name)
                if isinstance(xy, (list, ZipArr)):
                    xy = np_array(c, xy)
                if not isinstance(xy, SArr) or len(xy.shape_) != 2:
                    raise Undecided("pix2world called with an unmodelled argument")
                self.calls.append((name, origin))
                base = xy.snapshot()

                def elem(idx):
                    x = rl(base.at((idx[0], 0))) - rl(origin) + 1
                    y = rl(base.at((idx[0], 1))) - rl(origin) + 1
                    c1 = idx[1]
                    ra, dec = Sym(W_ra(x, y), True), Sym(W_dec(x, y), True)
                    if isinstance(c1, int):
                        return ra if c1 == 0 else dec
                    return ite(c1 == 0, ra, dec)
                return SArr(uid("world"), (xy.shape_[0], 2), elem)
            return Model(p2w, 'wcs.' + name)
        raise Undecided("WCS." + name)


class RegionModel(PyObj):
    """a Region seen through the contract of sky_within"""
    typename = 'Region'

    def __init__(self):
        self.calls = []
        self.mutated = False

    def getattr_(self, ctx, name):
        if name == 'sky_within':
            def sw(c, ra, dec, degin=False):
                self.calls.append(degin)
                if not (isinstance(ra, SArr) and isinstance(dec, SArr)):
                    if isinstance(ra, Opaque) or isinstance(dec, Opaque):
                        return Opaque("sky_within of unmodelled positions")     # a query: does not modify the region
                    raise Undecided("sky_within called with unmodelled arguments")
                c.oblige("pre", "sky_within.ra_dec_same_length", ra.shape_[0] == dec.shape_[0])
                a, d = ra.snapshot(), dec.snapshot()
                if degin is not True:
                    c.oblige("pre", "sky_within.degrees_flag_for_degree_positions", False)
                return SArr(uid("inside"), (ra.shape_[0],), lambda idx: Sym(WITHIN(rl(a.at(idx)), rl(d.at(idx)))))
            return Model(sw, 'Region.sky_within')
        if name in ('union', 'without', 'intersect', 'symmetric_difference', 'add_circles', 'add_pixels', 'add_poly', '_renorm'):
            # a mutating operation on the caller's region: recorded, the frame obligations speak about it
            def mutate(c, *a, **k):
                self.mutated = True
            return Model(mutate, 'Region.' + name)
        self.mutated = True
        raise Undecided("Region.%s used by masking code" % name)

    def fingerprint_(self):
        return ('region', self.mutated), []


def genv(ctx):
    np_ = lib.std_np(empty=Model(np_empty, 'np.empty'), array=Model(np_array, 'np.array'),
                     squeeze=Model(np_squeeze, 'np.squeeze'), bitwise_not=Model(np_bitwise_not, 'np.bitwise_not'),
                     any=Model(np_any, 'np.any'), all=Model(np_all, 'np.all'), nan_to_num=Model(np_nan_to_num, 'np.nan_to_num'),
                     isnan=Model(np_isnan, 'np.isnan'), isfinite=Model(np_isfinite_arr, 'np.isfinite'))
    g = {'np': np_, 'logging': Namespace('logging'), 'AssertionError': ExcClass('AssertionError')}
    menv = Env(g)
    for fn in ('mask_plane', 'mask_file', 'mask_table'):
        g[fn] = Closure(find_function(FILE, fn), menv, FILE, fn)
    return g


def mk_data(ctx, name="data"):
    nr, nc = Sym(z3.Int('nrows')), Sym(z3.Int('ncols'))
    ctx.assume(And(nr >= 1, nc >= 1))
    B0 = z3.Function('blank0_' + name, z3.IntSort(), z3.IntSort(), z3.BoolSort())
    d = SArr.fresh(name, (nr, nc))
    d.blank0 = lambda idx: Sym(B0(Sym.lift(idx[0]), Sym.lift(idx[1])))
    return d, nr, nc, B0


def index_table_loop(ctx, nr, nc, witness):
    """for i in range(data.shape[0]): idx[:, 1] = i ; indexes[i*j:(i+1)*j] = idx"""
    r0, c0 = witness

    def inv(c, env, k):
        ind = env.lookup('indexes')
        idx = env.lookup('idx')
        kk = Sym.lift(k)
        pos = Sym(r0 * nc.e + c0)
        claims = [("rows_done_hold_col_row",
                   Implies(Sym(z3.And(r0 >= 0, r0 < kk, c0 >= 0, c0 < nc.e)),
                           And(ind.at((pos, 0)) == Sym(c0), ind.at((pos, 1)) == Sym(r0)))),
                  ("template_first_column_is_column_index",
                   Implies(Sym(z3.And(c0 >= 0, c0 < nc.e)), idx.at((Sym(c0), 0)) == Sym(c0))),
                  ("template_shape", And(idx.shape_[0] == nc, idx.shape_[1] == 2)),
                  ("table_shape", And(ind.shape_[0] == nr * nc, ind.shape_[1] == 2))]
        return claims

    def havoc(c, env):
        ind = env.lookup('indexes')
        idx = env.lookup('idx')
        env.vars['indexes'] = SArr.fresh(c._fresh("indexes_h"), ind.shape_, sort='int')
        env.vars['idx'] = SArr.fresh(c._fresh("idx_h"), idx.shape_, sort='int')

    def facts(c, env, k):
        kk = Sym.lift(k)
        m = nc.e
        fs = []
        for f in (z3.Implies(z3.And(0 <= r0, r0 < kk, 0 <= c0, c0 < m), r0 * m + c0 < kk * m),
                  z3.Implies(z3.And(0 <= kk, kk + 1 <= nr.e, m >= 0), z3.And((kk + 1) * m <= nr.e * m, kk * m >= 0,
                                                                             kk * m <= (kk + 1) * m)),
                  z3.Implies(z3.And(0 <= c0, c0 < m, kk >= 0), z3.And(kk * m <= kk * m + c0, kk * m + c0 < (kk + 1) * m)),
                  (kk + 1) * m - kk * m == m):
            c.oblige("lemma", "index_arithmetic", f, nohyps=True)
            fs.append(f)
        return fs
    return LoopSpec(inv, havoc=havoc, facts=facts, label="index_table",
                    modifies=lambda c, env: [env.vars['indexes'], env.vars['idx']], types={'i': 'int'})


def t_mask_plane(ctx):
    reset_uids()
    g = genv(ctx)
    data, nr, nc, B0 = mk_data(ctx)
    negate = ctx.free_branch()
    wcs, region = WCS(), RegionModel()
    r0, c0 = z3.Int('r0'), z3.Int('c0')
    ctx.interp.loops["for i in range(*"] = index_table_loop(ctx, nr, nc, (r0, c0))
    vals0 = data.elem
    out = run_function(ctx, FILE, 'mask_plane', [data, wcs, region], {'negate': negate}, globals_=g)
    if out.kind != 'return':
        ctx.oblige("safe", "mask_plane.no_exception", False)
        return
    ctx.oblige("post", "mask_plane.returns_the_same_array_modified_in_place", out.value is data)
    res = out.value if isinstance(out.value, SArr) else data
    ctx.assume(And(Sym(r0) >= 0, Sym(r0) < nr, Sym(c0) >= 0, Sym(c0) < nc))
    m = nc.e
    for f in (z3.Implies(z3.And(0 <= r0, r0 < nr.e, 0 <= c0, c0 < m), z3.And(r0 * m + c0 < nr.e * m, r0 * m + c0 >= 0)),):
        ctx.lemma("index_arithmetic", f)
    x, y = z3.ToReal(c0) + 1, z3.ToReal(r0) + 1
    inside = Sym(WITHIN(W_ra(x, y), W_dec(x, y)))
    want_blank = Or(Sym(B0(r0, c0)), Not(inside) if not negate else inside)
    lab = "mask_plane.%s" % ("negate" if negate else "plain")
    ctx.oblige("post", lab + ".pixel_centre_convention_and_membership", res.isnan((Sym(r0), Sym(c0))) == want_blank)
    ctx.oblige("frame", lab + ".other_pixel_values_unchanged",
               Implies(Not(res.isnan((Sym(r0), Sym(c0)))), res.at((Sym(r0), Sym(c0))) == vals0((Sym(r0), Sym(c0)))))
    ctx.oblige("frame", lab + ".region_not_modified", region.mutated is False)
    ctx.cover(lab + ".reachable")


def t_mask_plane_complement(ctx):
    """the two results are complementary on pixels that were not blank before (lemma over the two postconditions)"""
    b0, ins = Sym(z3.Bool('blank_before')), Sym(z3.Bool('inside'))
    plain = Or(b0, Not(ins))
    neg = Or(b0, ins)
    ctx.oblige("lemma", "mask_plane.negate_is_complement", Implies(Not(b0), plain == Not(neg)), nohyps=True)


class Table(PyObj):
    def __init__(self):
        self.n = Sym(z3.Int('nrows_t'))
        self.selected = None

    def getitem_(self, ctx, key):
        if isinstance(key, str):
            f = z3.Function('col_' + key, z3.IntSort(), z3.RealSort())
            col = SArr('col_' + key, (self.n,), lambda idx: Sym(f(Sym.lift(idx[0])), True))
            col.colname = key
            return col
        if isinstance(key, SArr):
            ctx.session.trust("astropy Table[bool array]: keeps exactly the rows where the array is True, order preserved")
            ctx.oblige("pre", "table_mask_length_matches", key.shape_[0] == self.n)
            t = Table()
            t.n = self.n
            t.selected = key.snapshot()
            t.parent = self
            return t
        raise Undecided("Table[%s]" % type(key).__name__)


def t_mask_table(ctx):
    reset_uids()
    g = genv(ctx)
    negate = ctx.free_branch()
    custom = ctx.free_branch()
    racol, deccol = ('RAJ2000', 'DEJ2000') if custom else ('ra', 'dec')
    table, region = Table(), RegionModel()
    ctx.assume(table.n >= 0)
    kw = {'negate': negate}
    if custom:
        kw.update(racol=racol, deccol=deccol)
    out = run_function(ctx, FILE, 'mask_table', [region, table], kw, globals_=g)
    lab = "mask_table.%s%s" % ("negate" if negate else "plain", ".custom_columns" if custom else "")
    if out.kind != 'return' or not isinstance(out.value, Table) or out.value.selected is None:
        ctx.oblige("post", lab + ".returns_filtered_view_of_the_table", False)
        return
    ctx.oblige("post", lab + ".returns_filtered_view_of_the_table", out.value.parent is table)
    k = ctx.fresh_int("k")
    ctx.assume(And(k >= 0, k < table.n))
    fra = z3.Function('col_' + racol, z3.IntSort(), z3.RealSort())
    fdec = z3.Function('col_' + deccol, z3.IntSort(), z3.RealSort())
    inside = Sym(WITHIN(fra(k.e), fdec(k.e)))
    ctx.oblige("post", lab + ".rows_kept_iff_not_inside", out.value.selected.at((k,)) == (inside if negate else Not(inside)))
    ctx.oblige("frame", lab + ".region_not_modified", region.mutated is False and region.calls == [True])


MASKPIX = z3.Function('outside_or_inside_selected', z3.IntSort(), z3.IntSort(), z3.BoolSort())


def t_mask_file(ctx):
    """mask_file on a 2-D image or a cube (3 planes, symbolic pixels and blanks): every plane gets exactly mask_plane's
    effect (its contract, verified above) with the same wcs / region / negate; result written to outfile"""
    reset_uids()
    g = genv(ctx)
    negate = ctx.free_branch()
    ndim = 2 + ctx.choice(2)
    nplanes = 3
    nr, nc = Sym(z3.Int('nrows')), Sym(z3.Int('ncols'))
    ctx.assume(And(nr >= 1, nc >= 1))
    shape = (nplanes, nr, nc) if ndim == 3 else (nr, nc)
    data = SArr.fresh("cube", shape, with_nan=True)
    blank0, vals0 = data.blank0, data.elem
    hdu = Obj('PrimaryHDU', header=SymDict('hdr', {}, strict=False), data=data)
    written = []

    class HL(PyObj):
        def getitem_(s, c, k):
            if k == 0:
                return hdu
            raise Undecided("hdu %r" % (k,))

        def getattr_(s, c, name):
            if name == 'writeto':
                return Model(lambda c2, fn, **kw: written.append((fn, hdu.fields['data'])), 'writeto')
            raise Undecided("HDUList." + name)
    wcs_made = []

    def m_wcs(c, header, naxis=None):
        w = WCS()
        wcs_made.append((header, naxis, w))
        return w
    region = RegionModel()
    g['pyfits'] = Namespace('pyfits', open=Model(lambda c, fn: HL(), 'pyfits.open'))
    g['pywcs'] = Namespace('pywcs', WCS=Model(m_wcs, 'pywcs.WCS'))
    g['os'] = Namespace('os', path=Namespace('path', exists=Model(lambda c, f: True)))
    g['Region'] = Namespace('Region', load=Model(lambda c, f: region, 'Region.load'))
    calls = []

    def c_mask_plane(c, d, w, r, neg=False):
        """contract of mask_plane: in place, pixel (r,c) becomes NaN iff selected by (wcs, region, negate)"""
        ok = isinstance(d, SArr) and len(d.shape_) == 2 and wcs_made and w is wcs_made[-1][2] and r is region and neg is negate
        c.oblige("pre", "mask_file.mask_plane_called_with_image_wcs_region_negate", bool(ok))
        calls.append(d)
        if isinstance(d, SArr) and len(d.shape_) == 2:
            d._push_write(lambda idx: Sym(MASKPIX(Sym.lift(idx[0]), Sym.lift(idx[1]))), lambda idx: 0, lambda idx: True)
        return d
    ctx.interp.contracts['mask_plane'] = Model(c_mask_plane, 'mask_plane')
    out = run_function(ctx, FILE, 'mask_file', ["r.mim", "in.fits", "out.fits"], {'negate': negate}, globals_=g)
    lab = "mask_file.%dd" % ndim
    if out.kind != 'return':
        ctx.oblige("safe", lab + ".no_exception", False)
        return
    ctx.oblige("post", lab + ".wcs_from_image_header_two_axes",
               len(wcs_made) >= 1 and wcs_made[-1][1] == 2 and wcs_made[-1][0] is hdu.fields['header'])
    ok_w = len(written) == 1 and written[0][0] == "out.fits" and isinstance(written[0][1], SArr)
    ctx.oblige("post", lab + ".result_written_to_outfile", ok_w)
    if not ok_w:
        return
    res = written[0][1]
    r0, c0 = ctx.fresh_int("r0"), ctx.fresh_int("c0")
    ctx.assume(And(r0 >= 0, r0 < nr, c0 >= 0, c0 < nc))
    sel = Sym(MASKPIX(r0.e, c0.e))
    planes = range(nplanes) if ndim == 3 else [None]
    ctx.oblige("post", lab + ".shape_kept", len(res.shape_) == ndim and all(a is b or ctx.truth(a == b) is True
                                                                          for a, b in zip(res.shape_, shape))
               if len(res.shape_) == ndim else False)
    for pl in planes:
        idx = (r0, c0) if pl is None else (pl, r0, c0)
        ctx.oblige("post", lab + ".every_plane_masked_identically", res.isnan(idx) == Or(blank0(idx), sel))
        ctx.oblige("frame", lab + ".other_pixel_values_unchanged", Implies(Not(res.isnan(idx)), res.at(idx) == vals0(idx)))


def _sky_within(ctx):
    from contracts import c09
    return c09.t_sky_within(ctx)


def verify(S):
    # the membership test these functions rely on: Region.sky_within by its C09 contract (finite AND own pixel in the view)
    if not S.only or 'sky_within' in S.only:
        ctx = Ctx(S, "regions.Region.sky_within")
        try:
            ctx.explore(_sky_within)
        except Undecided as u:
            S.undecided.append("regions.Region.sky_within: %s" % u)
    for name, fn in (("MIMAS.mask_plane", t_mask_plane), ("MIMAS.mask_plane", t_mask_plane_complement),
                     ("MIMAS.mask_table", t_mask_table), ("MIMAS.mask_file", t_mask_file)):
        if S.only and S.only not in name:
            continue
        ctx = Ctx(S, name)
        try:
            ctx.explore(fn)
        except Undecided as u:
            S.undecided.append("%s: %s" % (name, u))
    ctx = Ctx(S, "MIMAS.mask_table")

    def canary(c):
        reset_uids()
        g = genv(c)
        table, region = Table(), RegionModel()
        out = run_function(c, FILE, 'mask_table', [region, table], {}, globals_=g)
        k = c.fresh_int("k")
        c.oblige("canary", "mask_table_keeps_every_row", out.value.selected.at((k,)) == True, expect="fail")  # noqa: E712
    ctx.explore(canary)


REPLAY = {"*": "replay_masking"}
NATIVE_CHECKS = [{"func": "crosscheck", "payload": {}}]
