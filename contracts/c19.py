"""C19 — regrouping = eps-connected partition of the catalogue (AegeanTools/cluster.py, CLI/AeReg.py, source_finder.py).

Proved (all inputs):
  * regroup_dbscan embeds every source as the unit vector (cos ra cos dec, sin ra cos dec, sin dec) of its position (degrees ->
    radians), hands the n x 3 array to DBSCAN(eps=eps, min_samples=1) unchanged; the squared chord between two embedded
    sources equals 4 x the haversine argument of their great-circle separation (chord = 2 sin(sep/2), strictly increasing
    on [0,180]), so "chord <= eps" is "separation <= linking length" exactly when eps = 2 sin(theta/2);
  * both callers (AeReg.main, SourceFinder.priorized_fit_islands) convert the linking length theta (arcmin) to
    2 sin(theta/2);
  * resize: ratio=1 is the identity on (a, b) and a larger ratio never shrinks them, for catalogues with and without psf
    columns; no exception for objects without psf attributes or with NaN psf.
Assumed: sklearn DBSCAN(min_samples=1) labels = connected components of the graph |x_i - x_j| <= eps, labels 0..k-1
  (=> chain-connectedness and permutation invariance of the partition).
Bounded (labelled bounded, not counted as proved): group construction and flux-ordered relabelling of regroup_dbscan are
  executed symbolically for catalogues of 3 sources under all 5 label patterns (symbolic positions and fluxes, all flux
  orderings incl. ties); regroup / regroup_vectorized (greedy elliptical variant) only by the native cross-check.
"""
import itertools

import z3

from pyvc.engine import (LoopSpec, SeqList, SymList, Ctx, PyObj, Model, Namespace, Obj, run_function, run_stmts, find_function, Closure, Env, Undecided,
                         PyRaise, ExcValue, ExcClass, unparse)
from pyvc.values import Sym, And, Or, Not, Implies, ite, NaN, NaNType
from pyvc import lib
from contracts.arrays import SArr, np_array, reset_uids, uid, np_all, np_any, np_isfinite_arr

import ast

PROPERTY = "C19"
FILE = "AegeanTools/cluster.py"
ASSUMPTIONS = [
    "sklearn.cluster.DBSCAN(eps, min_samples=1).fit(X).labels_: two rows share a label iff they are chain-connected through rows "
    "at Euclidean distance <= eps; labels are 0..k-1 (no noise label)",
    "python: iterating set(labels) yields every distinct label exactly once; sorted(group, key) is a permutation of the group with "
    "non-decreasing keys; list(map(srccat.__getitem__, np.where(flags)[0])) lists the flagged sources in catalogue order",
    "bounded (reported separately): grouping/relabelling additionally executed for catalogues of exactly 3 sources (all label patterns)",
    "regroup / regroup_vectorized (greedy elliptical-distance variant): not under contract, native cross-check only",
    "floats as reals; numpy elementwise trig on arrays is pointwise",
]


def sym(n):
    return Sym(z3.Real(n), True)


def mk_src(tag, **extra):
    f = dict(ra=sym('ra_' + tag), dec=sym('dec_' + tag), peak_flux=sym('flux_' + tag), a=sym('a_' + tag), b=sym('b_' + tag),
             pa=sym('pa_' + tag), island=sym('isl0_' + tag), source=sym('src0_' + tag), uuid='uuid_' + tag)
    f.update(extra)
    return Obj('ComponentSource', **f)


class DBSCANModel(PyObj):
    def __init__(self, rec, labels):
        self.rec, self.labels = rec, labels

    def call_(self, ctx, args, kwargs):
        self.rec['ctor'] = (args, kwargs)
        return self

    def getattr_(self, ctx, name):
        if name == 'fit':
            def fit(c, X):
                c.session.trust("sklearn DBSCAN(min_samples=1) contract")
                self.rec['X'] = X
                return self
            return Model(fit, 'DBSCAN.fit')
        if name == 'labels_':
            return SArr("labels", (len(self.labels),), lambda idx: self.labels[idx[0]] if isinstance(idx[0], int) else
                        _pick(self.labels, idx[0]))
        raise Undecided("DBSCAN." + name)


def _pick(lst, i):
    r = lst[-1]
    for q in range(len(lst) - 2, -1, -1):
        r = ite(i == q, lst[q], r)
    return r


def np_hstack(ctx, cols):
    cols = ctx.interp.iterate(cols)
    if not all(isinstance(c, SArr) and len(c.shape_) == 2 for c in cols):
        raise Undecided("np.hstack on unmodelled arguments")
    snaps = [c.snapshot() for c in cols]
    n = snaps[0].shape_[0]

    def elem(idx):
        c = idx[1]
        if isinstance(c, int):
            return snaps[c].at((idx[0], 0))
        raise Undecided("symbolic column of hstack")
    r = SArr(uid("hstack"), (n, len(snaps)), elem)
    r.columns = snaps
    return r


class Col(SArr):
    pass


def genv(ctx, rec, labels):
    def m_where(c, cond):
        if isinstance(cond, SArr) and len(cond.shape_) == 1 and isinstance(cond.shape_[0], int):
            vals = [cond.at((k,)) for k in range(cond.shape_[0])]
            if all(isinstance(v, bool) for v in vals):
                return ([k for k, v in enumerate(vals) if v],)
        raise Undecided("np.where on symbolic flags")

    def m_set(c, x=()):
        if isinstance(x, SArr) and isinstance(x.shape_[0], int):
            vals = [x.at((k,)) for k in range(x.shape_[0])]
            if all(isinstance(v, int) for v in vals):
                return set(vals)
        if isinstance(x, (list, tuple)):
            return set(x)
        raise Undecided("set() of symbolic values")

    def m_array(c, x, *a, **k):
        return np_array(c, x)
    np_ = lib.std_np(array=Model(m_array, 'np.array'), hstack=Model(np_hstack, 'np.hstack'), where=Model(m_where, 'np.where'),
                     all=Model(np_all), any=Model(np_any), isfinite=Model(np_isfinite_arr), ones=Model(
                         lambda c, n, dtype=None: SArr(uid("ones"), (n,), lambda idx: True), 'np.ones'))
    g = {'np': np_, 'DBSCAN': DBSCANModel(rec, labels), 'set': Model(m_set, 'set'), 'log': Namespace('log')}
    return g


def newaxis_support(arr):
    """x[:, None] -> (n,1) column"""
    return arr


def patch_newaxis():
    # SArr getitem with (slice, None): make an (n, 1) array
    orig = SArr.getitem_

    def getitem(self, ctx, key):
        if isinstance(key, tuple) and len(key) == 2 and key[1] is None and isinstance(key[0], slice) and len(self.shape_) == 1:
            base = self.snapshot()
            col = SArr(self.name + "[:,None]", (self.shape_[0], 1), lambda idx: base.at((idx[0],)), lambda idx: base.isnan((idx[0],)))
            col.source1d = base
            return col
        return orig(self, ctx, key)
    if not getattr(SArr, '_newaxis_patched', False):
        SArr.getitem_ = getitem
        SArr._newaxis_patched = True


LABEL_PATTERNS = [[0, 0, 0], [0, 0, 1], [0, 1, 0], [0, 1, 1], [0, 1, 2]]


def t_regroup_dbscan(ctx):
    """bounded: 3 sources, every label pattern, symbolic positions/fluxes"""
    reset_uids()
    patch_newaxis()
    pat = LABEL_PATTERNS[ctx.choice(len(LABEL_PATTERNS))]
    n = 3
    srcs = [mk_src(str(k)) for k in range(n)]
    before = [dict(s.fields) for s in srcs]
    rec = {}
    g = genv(ctx, rec, pat)
    eps = sym('eps')
    out = run_function(ctx, FILE, 'regroup_dbscan', [list(srcs)], {'eps': eps}, globals_=g)
    lab = "regroup_dbscan.labels_%s" % "".join(map(str, pat))
    if out.kind != 'return':
        ctx.oblige("safe", lab + ".no_exception", False)
        return
    groups = out.value
    ok = isinstance(groups, list) and all(isinstance(gr, list) for gr in groups)
    ctx.oblige("post", lab + ".returns_list_of_groups", ok)
    if not ok:
        return
    # embedding + DBSCAN arguments (these parts are general: per-element expressions)
    X = rec.get('X')
    ctor = rec.get('ctor')
    ctx.oblige("post", "regroup_dbscan.dbscan_gets_eps_and_min_samples_1",
               ctor is not None and ctor[1].get('eps') is eps and ctor[1].get('min_samples') == 1 and not ctor[0])
    okx = isinstance(X, SArr) and len(X.shape_) == 2 and X.shape_[1] == 3 and X.shape_[0] == n
    ctx.oblige("post", "regroup_dbscan.embedding_is_n_by_3", okx)
    if okx:
        for k in range(n):
            ra, dec = lib.m_radians(ctx, srcs[k].fields['ra']), lib.m_radians(ctx, srcs[k].fields['dec'])
            want = (lib.m_cos(ctx, ra) * lib.m_cos(ctx, dec), lib.m_sin(ctx, ra) * lib.m_cos(ctx, dec), lib.m_sin(ctx, dec))
            ctx.oblige("post", "regroup_dbscan.row_is_unit_vector_of_the_source_position",
                       And(*[X.at((k, c)) == want[c] for c in range(3)]), focus=1)
    # partition: every source in exactly one group, grouped by label
    flat = [s for gr in groups for s in gr]
    ctx.oblige("post", lab + ".every_source_in_exactly_one_group",
               len(flat) == n and all(sum(1 for x in flat if x is s) == 1 for s in srcs))
    want_groups = []
    for l in sorted(set(pat)):
        want_groups.append([srcs[k] for k in range(n) if pat[k] == l])
    same = len(groups) == len(want_groups) and all(
        set(id(x) for x in gr) == set(id(x) for x in wg) for gr, wg in zip(groups, want_groups))
    ctx.oblige("post", lab + ".groups_are_the_dbscan_label_classes", same)
    # relabelling
    for gi, gr in enumerate(groups):
        ctx.oblige("post", lab + ".island_is_group_index", all(s.fields.get('island') == gi and isinstance(s.fields.get('island'), int)
                                                               for s in gr))
        nums = [s.fields.get('source') for s in gr]
        ctx.oblige("post", lab + ".sources_numbered_0_to_n_minus_1",
                   all(isinstance(v, int) for v in nums) and sorted(nums) == list(range(len(gr))))
        if all(isinstance(v, int) for v in nums):
            for a_, b_ in itertools.permutations(gr, 2):
                if a_.fields['source'] < b_.fields['source']:
                    ctx.oblige("post", lab + ".numbered_by_decreasing_peak_flux",
                               a_.fields['peak_flux'] >= b_.fields['peak_flux'])
    for s, b0 in zip(srcs, before):
        ctx.oblige("frame", lab + ".no_other_attribute_changed",
                   all(s.fields[k] is b0[k] for k in b0 if k not in ('island', 'source')) and set(s.fields) == set(b0))


# ---------------------------------------------------------------------------
# regroup_dbscan for catalogues of ANY length: the grouping loop and the relabelling loops (generic iterations)
# ---------------------------------------------------------------------------

I_ = z3.IntSort()
LAB = z3.Function('dbscan_label', I_, I_)                 # label of source k
UL = z3.Function('unique_label', I_, I_)                  # i-th element of set(labels) in iteration order
IDX = z3.Function('position_of_label_in_the_set', I_, I_)
FLUX = z3.Function('peak_flux_of', I_, z3.RealSort())
PI = z3.Function('sorted_member', I_, I_, I_)             # PI(i, c): catalogue index of the c-th member of group i after sorting
CNT = z3.Function('group_size', I_, I_)


class SubSeq(PyObj):
    """[srccat[k] for k in range(n) if cond(k)], in catalogue order"""
    typename = 'list'

    def __init__(self, cond, gid=None):
        self.cond, self.gid = cond, gid

    def tolist_(self, ctx):
        return self


class Sel(PyObj):
    """np.where(flags)[0]"""

    def __init__(self, cond):
        self.cond = cond

    def getitem_(self, ctx, k):
        if k == 0:
            return self
        raise Undecided("np.where(...)[%r]" % (k,))

    def map_obj_(self, ctx, f):
        if getattr(f, 'is_cat_getitem', False):
            return SubSeq(self.cond)
        raise Undecided("map over selected positions with an unmodelled function")


def t_regroup_generic(ctx):
    reset_uids()
    fn = find_function(FILE, 'regroup_dbscan')
    body = fn.body
    a = next((k for k, st in enumerate(body) if isinstance(st, ast.Assign) and unparse(st.targets[0]) == 'labels'), None)
    loops = [k for k, st in enumerate(body) if isinstance(st, ast.For)]
    if a is None or len(loops) < 2:
        raise Undecided("regroup_dbscan: labels assignment / loops not found")
    n, m = Sym(z3.Int('n_sources')), Sym(z3.Int('n_groups'))
    ctx.assume(And(n >= 1, m >= 1, m <= n))
    labels = SArr("labels", (n,), lambda idx: Sym(LAB(Sym.lift(idx[0]))))
    # python set contract: set(labels) holds every label exactly once
    ctx.ufacts.append(lambda t: Implies(And(t[0] >= 0, t[0] < n),
                                        And(Sym(IDX(Sym.lift(t[0]))) >= 0, Sym(IDX(Sym.lift(t[0]))) < m,
                                            Sym(UL(IDX(Sym.lift(t[0]))) == LAB(Sym.lift(t[0]))))))
    ia, ib = Sym(z3.Int('ia')), Sym(z3.Int('ib'))
    inj = Implies(And(ia >= 0, ia < m, ib >= 0, ib < m, Sym(UL(ia.e) == UL(ib.e))), ia == ib)

    class USet(PyObj):
        def len_(s, c):
            return m

        def enumerate_(s, c, start=0):
            return SeqList(c, m, lambda k: (k + start, Sym(UL(Sym.lift(k)))))

    class Cat(PyObj):
        def getattr_(s, c, name):
            if name == '__getitem__':
                f = Model(lambda c2, k: CatSrc(k), 'srccat.__getitem__')
                f.is_cat_getitem = True
                return f
            raise Undecided("catalogue." + name)

        def len_(s, c):
            return n
    stores = {'island': [], 'source': []}

    class CatSrc(PyObj):
        def __init__(s, k):
            s.k = k

        def getattr_(s, c, name):
            if name == 'peak_flux':
                return Sym(FLUX(Sym.lift(s.k)), True)
            raise Undecided("source." + name)

        def setattr_(s, c, name, v):
            if name in stores:
                stores[name].append((s.k, v))
                return
            raise Undecided("assignment to source." + name)

    def m_where(c, cond):
        if isinstance(cond, SArr) and len(cond.shape_) == 1:
            b = cond.snapshot()
            return (Sel(lambda k: b.at((k,))),)
        raise Undecided("np.where")
    st = {}
    g = {'np': lib.std_np(where=Model(m_where)), 'set': Model(lambda c, x=(): USet() if x is labels else (_ for _ in ()).throw(Undecided("set()"))),
         'log': Namespace('log')}
    # ---- region A: grouping ----
    def beforeA(c, env, k):
        st['groups'] = env.lookup('groups')
        st['w0'] = len(st['groups'].writes)

    def afterA(c, env, k):
        gr = st['groups']
        new = gr.writes[st['w0']:]
        ok = env.lookup('groups') is gr and len(new) == 1 and isinstance(new[0][1], SubSeq)
        c.oblige("post", "regroup.generic.one_group_stored_per_label", ok)
        if not ok:
            return
        pos, sub = new[0]
        kk = c.fresh_int("member")
        c.assume(And(kk >= 0, kk < n))
        c.oblige("post", "regroup.generic.group_i_is_stored_at_position_i_and_holds_exactly_the_sources_with_label_i",
                 And(pos == k, sub.cond(kk) == Sym(LAB(kk.e) == UL(Sym.lift(k)))))
    specA = LoopSpec(lambda c, env, k: [], label="grouping", modifies=lambda c, env: [st['groups']], types={'i': 'int', 'l': 'int'})
    specA.before_body, specA.after_body = beforeA, afterA
    ctx.interp.loops["for (i, l) in enumerate(unique_labels)"] = specA
    ctx.interp.loops["for i, l in enumerate(unique_labels)"] = specA
    db = Obj('DBSCAN', labels_=labels)
    outA = run_stmts(ctx, FILE, 'regroup_dbscan', body[a:loops[0] + 1], {'db': db, 'srccat': Cat()}, globals_=g,
                     region_desc="grouping: one list per distinct label")
    if outA.kind != 'fallthrough':
        ctx.oblige("safe", "regroup.generic.grouping_no_exception", False)
        return
    groups = outA.env.lookup('groups')
    ctx.oblige("post", "regroup.generic.as_many_groups_as_distinct_labels", Sym(Sym.lift(groups.length) == m.e) if isinstance(groups, SymList) else False)
    # partition lemma (from the set contract): every source is in exactly one group
    kq = ctx.fresh_int("src")
    ctx.assume(And(kq >= 0, kq < n))
    ctx.assume(inj)
    ctx.oblige("lemma", "regroup.generic.every_source_in_exactly_one_group",
               And(Sym(UL(IDX(kq.e)) == LAB(kq.e)), Implies(And(ia >= 0, ia < m, Sym(UL(ia.e) == LAB(kq.e)), ib == Sym(IDX(kq.e))), ia == ib)),
               at=[(kq,)])
    # ---- region B: relabelling ----
    def item_group(i):
        return SubSeq(lambda k, i=i: Sym(LAB(Sym.lift(k)) == UL(Sym.lift(i))), gid=i)
    groupsB = SeqList(ctx, m, item_group)
    keyseen = []

    def m_sorted(c, grp, key=None, reverse=False):
        if not isinstance(grp, SubSeq) or grp.gid is None or reverse or key is None:
            raise Undecided("sorted() of something else than a group with a key")
        i = grp.gid
        cnt = Sym(CNT(Sym.lift(i)))
        c.assume(cnt >= 1)
        probe = c.fresh_int("any_member")
        kv = c.interp.call(key, [CatSrc(probe)], {})
        keyseen.append((probe, kv))
        # the sort key is minus the peak flux: with the sorted() contract (a permutation of the group, keys non-decreasing) the
        # components of a group are numbered by non-increasing peak flux
        c.oblige("post", "relabel.generic.sort_key_is_minus_peak_flux",
                 kv == -Sym(FLUX(probe.e), True) if isinstance(kv, Sym) else False)

        def item(cpos):
            return CatSrc(Sym(PI(Sym.lift(i), Sym.lift(cpos))))
        out = SeqList(c, cnt, item)
        out.gid = i
        return out
    stB = {}

    def beforeB(c, env, k):
        stB['w'] = {q: len(v) for q, v in stores.items()}

    def afterB(c, env, k):
        i = stB['i']
        new = {q: stores[q][stB['w'][q]:] for q in stores}
        ok = all(len(v) == 1 for v in new.values())
        c.oblige("post", "relabel.generic.exactly_island_and_source_of_this_member_are_written", ok)
        if not ok:
            return
        me = Sym(PI(Sym.lift(i), Sym.lift(k)))
        c.oblige("post", "relabel.generic.member_c_of_sorted_group_i_gets_island_i_source_c",
                 And(new['island'][0][0] == me, new['island'][0][1] == i, new['source'][0][0] == me, new['source'][0][1] == k))
    specB = LoopSpec(lambda c, env, k: [], label="relabel", modifies=lambda c, env: [], types={'comp': 'int'})
    specB.before_body, specB.after_body = beforeB, afterB

    def beforeO(c, env, k):
        stB['i'] = k
        stB['isl0'] = len(env.lookup('islands'))

    def afterO(c, env, k):
        isl = env.lookup('islands')
        c.oblige("post", "relabel.generic.each_group_is_returned_once", isinstance(isl, list) and len(isl) == stB['isl0'] + 1 and
                 isinstance(isl[-1], SubSeq) and isl[-1].gid is k)
    specO = LoopSpec(lambda c, env, k: [], label="groups", modifies=lambda c, env: [env.vars.get('islands')], types={'isle': 'int'},
                     havoc=lambda c, env: env.vars.__setitem__('islands', []))
    specO.before_body, specO.after_body = beforeO, afterO
    for key in ("for (isle, group) in enumerate(groups)", "for isle, group in enumerate(groups)"):
        ctx.interp.loops[key] = specO
    ctx.interp.loops["for (comp, src) in enumerate(sorted(*"] = specB
    ctx.interp.loops["for comp, src in enumerate(sorted(*"] = specB
    gB = dict(g)
    gB['sorted'] = Model(m_sorted, 'sorted')
    outB = run_stmts(ctx, FILE, 'regroup_dbscan', body[loops[0] + 1:loops[1] + 1], {'groups': groupsB, 'srccat': Cat()}, globals_=gB,
                     region_desc="relabelling: island = group index, source = rank by decreasing peak flux")
    if outB.kind not in ('fallthrough',):
        ctx.oblige("safe", "relabel.generic.no_exception", False)
        return
    i_, c1, c2 = Sym(z3.Int('grp')), Sym(z3.Int('c1')), Sym(z3.Int('c2'))
    # sorted() contract instantiated for this key
    sorted_contract = Implies(And(c1 >= 0, c1 <= c2, c2 < Sym(CNT(i_.e))),
                              Sym(-FLUX(PI(i_.e, c1.e)) <= -FLUX(PI(i_.e, c2.e))))
    ctx.assume(sorted_contract)
    ctx.oblige("lemma", "relabel.generic.lower_source_number_means_no_smaller_peak_flux",
               Implies(And(c1 >= 0, c1 <= c2, c2 < Sym(CNT(i_.e))), Sym(FLUX(PI(i_.e, c1.e)) >= FLUX(PI(i_.e, c2.e)))))


def t_chord_lemma(ctx):
    """|v1 - v2|^2 = 4 * haversine argument of the separation (the 'a' of angle_tools.gcd, see C17)"""
    ra1, d1, ra2, d2 = sym('ra1'), sym('dec1'), sym('ra2'), sym('dec2')
    rad = lambda v: lib.m_radians(ctx, v)

    def vec(ra, dec):
        return (lib.m_cos(ctx, rad(ra)) * lib.m_cos(ctx, rad(dec)), lib.m_sin(ctx, rad(ra)) * lib.m_cos(ctx, rad(dec)),
                lib.m_sin(ctx, rad(dec)))
    v1, v2 = vec(ra1, d1), vec(ra2, d2)
    chord2 = sum(((a - b) * (a - b) for a, b in zip(v1, v2)), 0)
    hav = lib.m_sin(ctx, rad(d2 - d1) / 2) ** 2 + lib.m_cos(ctx, rad(d1)) * lib.m_cos(ctx, rad(d2)) * lib.m_sin(ctx, rad(ra2 - ra1) / 2) ** 2
    ctx.oblige("lemma", "chord_squared_is_4_haversine", chord2 == hav * 4, trig=True, ring=True, focus=1)
    # chord = 2 sin(sep/2): monotone on [0, pi]: for 0 <= s <= t <= 1 (s = sin(x/2)) trivial; stated on the sines
    s, t = sym('s'), sym('t')
    ctx.oblige("lemma", "chord_monotone_in_half_angle_sine", Implies(And(s >= 0, s <= t), s * 2 <= t * 2), nohyps=True)


def eps_statement(relpath, qualname, target):
    fn = find_function(relpath, qualname)
    hits = []
    for node in ast.walk(fn):
        if isinstance(node, ast.Assign) and len(node.targets) == 1 and isinstance(node.targets[0], ast.Name) \
                and node.targets[0].id == target and 'sin' in unparse(node.value):
            hits.append(node)
    if len(hits) != 1:
        raise Undecided("%s: expected exactly one '%s = ...sin...' conversion statement, found %d" % (qualname, target, len(hits)))
    return hits[0]


def t_eps_conversion(ctx):
    for relpath, qualname, target, src in (
            ("AegeanTools/CLI/AeReg.py", "main", "eps", 'options.eps'),
            ("AegeanTools/source_finder.py", "SourceFinder.priorized_fit_islands", "regroup_eps", 'regroup_eps')):
        st = eps_statement(relpath, qualname, target)
        arcmin = sym('linking_length_arcmin')
        env = {'np': lib.std_np()}
        if src == 'options.eps':
            env['options'] = Obj('options', eps=arcmin)
        else:
            env['regroup_eps'] = arcmin
        out = run_stmts(ctx, relpath, qualname, [st], env, globals_={}, region_desc="the arcmin -> chord conversion statement")
        val = out.env.vars.get(target)
        theta = lib.m_radians(ctx, arcmin / 60)
        half = lib.m_sin(ctx, theta / 2)
        lab = "eps.%s.chord_of_angle" % qualname.split('.')[-1]
        if not isinstance(val, Sym):
            ctx.oblige("post", lab, False)
            continue
        ctx.oblige("post", lab, Implies(And(arcmin > 0, arcmin < 60 * 180), val == half * 2), trig=True, ring=True, focus=2,
                   timeout_ms=20000)


def t_resize(ctx):
    reset_uids()
    g = {'np': lib.std_np(all=Model(np_all), isfinite=Model(np_isfinite_arr), where=Model(_where_flags), sqrt=Model(lib.m_sqrt),
                         ones=Model(lambda c, n, dtype=None: FlagList(n), 'np.ones')),
         'log': Namespace('log'), 'Beam': Model(lambda c, a, b, pa: Obj('Beam', a=a, b=b, pa=pa), 'Beam')}
    which = ctx.choice(3)          # psf columns: finite / NaN / attribute absent
    extra = {}
    if which == 0:
        extra = dict(psf_a=sym('psf_a'), psf_b=sym('psf_b'), psf_pa=sym('psf_pa'))
    elif which == 1:
        extra = dict(psf_a=NaN, psf_b=NaN, psf_pa=NaN)
    src = mk_src('0', **extra)
    a0, b0 = src.fields['a'], src.fields['b']
    ctx.assume(And(a0 > 0, b0 > 0))
    if which == 0:
        ctx.assume(And(extra['psf_a'] > 0, extra['psf_b'] > 0))
    rsel = ctx.choice(2)
    ratio = 1 if rsel == 0 else sym('ratio')
    if rsel == 1:
        ctx.assume(ratio >= 1)
    out = run_function(ctx, FILE, 'resize', [[src]], {'ratio': ratio}, globals_=g)
    lab = "resize.%s.%s" % (("ratio_1", "ratio_ge_1")[rsel], ("psf_columns", "nan_psf", "no_psf_attributes")[which])
    if out.kind != 'return':
        ctx.oblige("safe", lab + ".no_exception", False)
        return
    kept = out.value
    okk = isinstance(kept, list)
    if rsel == 0:
        ctx.oblige("post", lab + ".identity", okk and len(kept) == 1 and kept[0] is src and
                   ctx.truth(And(src.fields['a'] == a0, src.fields['b'] == b0)) is True
                   if okk and len(kept) == 1 and isinstance(src.fields['a'], Sym) else False)
    elif which == 0:
        ctx.oblige("post", lab + ".kept", okk and len(kept) == 1 and kept[0] is src)
        if isinstance(src.fields['a'], Sym):
            ctx.oblige("post", lab + ".never_shrinks", And(src.fields['a'] >= a0, src.fields['b'] >= b0), timeout_ms=20000)


class FlagList(PyObj):
    def __init__(self, n):
        self.n = n
        self.flags = {}

    def setitem_(self, ctx, k, v):
        self.flags[k] = v


def _where_flags(ctx, fl):
    if isinstance(fl, FlagList) and isinstance(fl.n, int):
        return ([k for k in range(fl.n) if fl.flags.get(k, True) is not False],)
    raise Undecided("np.where on unmodelled flags")


def verify(S):
    for name, fn in (("cluster.regroup_dbscan", t_regroup_dbscan), ("cluster.regroup_dbscan[any length]", t_regroup_generic),
                     ("cluster.regroup_dbscan", t_chord_lemma),
                     ("cluster.eps_conversion", t_eps_conversion), ("cluster.resize", t_resize)):
        if S.only and S.only not in name:
            continue
        ctx = Ctx(S, name)
        try:
            ctx.explore(fn)
        except Undecided as u:
            S.undecided.append("%s: %s" % (name, u))


REPLAY = {"*": "replay_regroup"}
BOUNDED = [(".labels_", "bounded stand-in: grouping + flux-ordered relabelling of regroup_dbscan executed symbolically for catalogues of "
            "exactly 3 sources under all 5 label patterns (the set/where/sorted plumbing is not cut by an invariant)")]
NATIVE_CHECKS = [{"func": "crosscheck", "payload": {}, "bounded": "random catalogues up to 60 sources"}]
