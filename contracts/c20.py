"""C20 — image bands tile the image exactly and keep its astrometry.

Function under contract: AegeanTools/fits_tools.py:load_image_band (whole body).

Spec (from the property statement): for rows = NAXIS2 >= 1, n = band[1], i = band[0]
  * raises AegeanError  iff  n <= 0 or i >= n or i < 0;
  * otherwise, with [lo(i), hi(i)) the row range of the returned data:
      lo(0) = 0, hi(n-1) = rows, hi(i) = lo(i+1), 0 <= lo <= hi <= rows;
  * the returned data are rows lo..hi of the plane selected by NAXIS/cube_index,
    all columns, times BSCALE when present;
  * the returned header has NAXIS2 = hi-lo and CRPIX2 = CRPIX2_0 - lo on every
    return path (so band pixel (r,c) and image pixel (r+lo,c) share a sky
    position), all other cards unchanged.
"""
import hashlib

import z3

from pyvc.engine import (Ctx, SymDict, PyObj, Model, Namespace, Obj, ExcClass, run_function,
                         find_function, Closure, Env, Undecided, PyRaise, ExcValue)
from pyvc.values import Sym, And, Or, Not, Implies, ite, Opaque
from pyvc import lib

PROPERTY = "C20"
FILE = "AegeanTools/fits_tools.py"

ASSUMPTIONS = [
    "astropy.io.fits: getheader returns the primary header as a mapping; HDU.section[a:b, c:d] returns exactly "
    "those rows/columns of the stored array, unscaled (do_not_scale_image_data=True)",
    "fits_tools.expand (C15 contract): returns an HDUList whose header has NAXIS2 = BN_NPX2, no BN_* cards, and "
    "data of shape (NAXIS2, NAXIS1)",
    "integers are mathematical (Python int); header NAXIS*/band entries are ints",
    "float arithmetic inside int(...) is modelled with a relative rounding error |d| <= 2^-50 per expression "
    "(sound over-approximation of IEEE-754 binary64); all other float arithmetic is treated as real",
]


class Section(PyObj):
    """hdu.section: subscripting records the index expression"""

    def __init__(self, hdu):
        self.hdu = hdu

    def getitem_(self, ctx, key):
        return ArrayView(self.hdu.array, key, 1)


class ArrayView(PyObj):
    """rows/cols/planes of a stored array, times a scale factor"""

    def __init__(self, array, key, scale):
        self.array, self.key, self.scale = array, key, scale

    def binop_(self, ctx, op, other, swapped):
        if op in ('imul', 'mul'):
            return ArrayView(self.array, self.key, self.scale * other)
        return NotImplemented

    def getitem_(self, ctx, key):
        if self.key is None:
            return ArrayView(self.array, key, self.scale)
        raise Undecided("nested view")


class HDU(PyObj):
    def __init__(self, array, header):
        self.array, self.header = array, header

    def getattr_(self, ctx, name):
        if name == 'section':
            return Section(self)
        if name == 'data':
            return ArrayView(self.array, None, 1)
        if name == 'header':
            return self.header
        raise Undecided("HDU." + name)


class HDUList(PyObj):
    def __init__(self, hdus, idx):
        self.hdus, self.idx = hdus, idx

    def getitem_(self, ctx, k):
        # the file has the requested HDU (index hdu_index); other indices are not modelled
        if isinstance(k, int) and isinstance(self.idx, int):
            if k == self.idx:
                return self.hdus
        elif ctx.truth(k == self.idx):
            return self.hdus
        raise Undecided("HDUList index other than the requested hdu")

    def enter_(self, ctx):
        return self


def float_rounding(ctx, x):
    """relative-error model of the float expression handed to int()"""
    key = hashlib.sha1(x.e.sexpr().encode()).hexdigest()[:12]
    d = z3.Real("fl_err_" + key)
    eps = z3.RealVal(1) / z3.RealVal(2 ** 50)
    ctx.assume(z3.And(d >= -eps, d <= eps))
    return Sym(x.e * (1 + d), True)


def mk_header(ctx, tag, rows, ncols, naxis, crpix2, has_bscale, bscale, compressed):
    items = {'NAXIS': naxis, 'NAXIS1': ncols, 'NAXIS2': rows, 'CRPIX2': crpix2,
             'CRPIX1': Sym(z3.Real('crpix1'), True), 'CRVAL1': Sym(z3.Real('crval1'), True)}
    maybe = {'BSCALE': (has_bscale, bscale)}
    for k in ['BN_CFAC', 'BN_NPX1', 'BN_NPX2', 'BN_RPX1', 'BN_RPX2']:
        maybe[k] = (compressed, Sym(z3.Int('v_' + k)))
    return SymDict("header" + tag, items, maybe)


def one_call(ctx, tag, sym, band):
    """execute the real load_image_band once; returns (outcome, file header before, expanded header)"""
    rows, ncols, naxis, crpix2 = sym['rows'], sym['ncols'], sym['naxis'], sym['crpix2']
    hdr = mk_header(ctx, tag, sym['file_rows'], sym['file_cols'], naxis, sym['file_crpix2'],
                    sym['has_bscale'], sym['bscale'], sym['compressed'])
    ex_hdr = SymDict("xheader" + tag, {'NAXIS': 2, 'NAXIS1': ncols, 'NAXIS2': rows, 'CRPIX2': crpix2,
                                       'CRPIX1': Sym(z3.Real('xcrpix1'), True),
                                       'CRVAL1': Sym(z3.Real('crval1'), True)})
    called = {'expand': 0}

    def m_getheader(c, filename, ext=0, **kw):
        c.session.trust("astropy.io.fits.getheader(filename, ext) returns that HDU's header")
        return hdr

    def m_open(c, filename, **kw):
        c.session.trust("astropy.io.fits.open(...)[k].section[...] returns the stored, unscaled pixels of HDU k")
        if kw.get('do_not_scale_image_data') is not True:
            c.ghost['scaled_on_read'] = True
        return HDUList(HDU("file", hdr), sym['hdu_index'])

    def m_expand(c, datafile, outfile=None):
        c.session.trust("fits_tools.expand contract (verified under C15): expanded header/data")
        called['expand'] += 1
        return HDUList(HDU("expanded", ex_hdr), 0)

    fits = Namespace('fits', getheader=Model(m_getheader, 'fits.getheader'), open=Model(m_open, 'fits.open'))
    isc = find_function(FILE, 'is_compressed')
    genv = {'fits': fits, 'np': lib.std_np(), 'AegeanError': ExcClass('AegeanError'),
            'logging': Namespace('logging')}
    menv = Env(genv)
    genv['is_compressed'] = Closure(isc, menv, FILE, 'is_compressed')
    genv['expand'] = Model(m_expand, 'expand')
    ctx.interp.inline.add('is_compressed')
    out = run_function(ctx, FILE, 'load_image_band', ["file.fits"],
                       {'band': band, 'hdu_index': sym['hdu_index'], 'cube_index': sym['cube_index']},
                       globals_=genv)
    return out, hdr, ex_hdr


def symbols(ctx):
    I = lambda n: Sym(z3.Int(n))
    Rr = lambda n: Sym(z3.Real(n), True)
    s = dict(rows=I('rows'), ncols=I('ncols'), naxis=I('naxis'), crpix2=Rr('crpix2'),
             has_bscale=Sym(z3.Bool('has_bscale')), bscale=Rr('bscale'),
             compressed=Sym(z3.Bool('compressed')), hdu_index=I('hdu_index'), cube_index=I('cube_index'),
             n=I('n'), i=I('i'))
    ctx.assume(And(s['rows'] >= 1, s['ncols'] >= 1))
    # the header of a compressed file describes the decimated array; the expanded one the image
    s['file_rows'] = ite(s['compressed'], I('crows'), s['rows'])
    s['file_cols'] = ite(s['compressed'], I('ccols'), s['ncols'])
    s['file_crpix2'] = ite(s['compressed'], Rr('ccrpix2'), s['crpix2'])
    ctx.assume(And(I('crows') >= 2, I('ccols') >= 2))
    return s


def view_rows(ctx, data):
    """(lo, hi, cols ok, plane key) of a returned ArrayView"""
    key = data.key
    if not isinstance(key, tuple):
        raise Undecided("data index is not a tuple")
    rsl, csl = key[-2], key[-1]
    if not isinstance(rsl, slice) or not isinstance(csl, slice):
        raise Undecided("row/col index is not a slice")
    return rsl, csl, key[:-2]


def t_single(ctx, force_compressed=False):
    """one call: validation, range, header shift, data selection"""
    ctx.float_rounding = float_rounding
    s = symbols(ctx)
    if force_compressed:
        ctx.assume(s['compressed'])
    n, i, rows = s['n'], s['i'], s['rows']
    out, hdr, xh = one_call(ctx, "", s, (i, n))
    invalid = Or(n <= 0, i >= n, i < 0)
    if out.kind == 'raise':
        if out.value.tname == 'AegeanError':
            ctx.oblige("post", "validation.raises_only_when_invalid", invalid)
        else:
            ctx.oblige("post", "validation.other_exception_only_for_unsupported_naxis",
                       And(Not(invalid), Not(s['compressed']), Or(s['naxis'] < 2, s['naxis'] > 4)))
        return
    ctx.oblige("post", "validation.invalid_band_rejected", Not(invalid))
    ctx.assume(Not(invalid))
    if not (isinstance(out.value, tuple) and len(out.value) == 2):
        raise Undecided("load_image_band no longer returns (data, header)")
    data, rh = out.value
    if not isinstance(data, ArrayView) or not isinstance(rh, SymDict):
        raise Undecided("returned data/header are not the modelled kinds")
    rsl, csl, plane = view_rows(ctx, data)
    lo, hi = rsl.start, rsl.stop
    lo = 0 if lo is None else lo
    ctx.oblige("post", "band.range_within_image", And(lo >= 0, lo <= hi, hi <= rows))
    ctx.oblige("post", "band.first_starts_at_zero", Implies(i == 0, lo == 0))
    ctx.oblige("post", "band.last_ends_at_rows", Implies(i == n - 1, hi == rows))
    ctx.oblige("post", "band.rows_unit_step", rsl.step is None or rsl.step == 1)
    # columns: all of them
    c0 = 0 if csl.start is None else csl.start
    c1 = s['ncols'] if csl.stop is None else csl.stop
    ctx.oblige("post", "band.all_columns", And(c0 == 0, c1 == s['ncols'], csl.step is None or csl.step == 1))
    # header
    comp = s['compressed']
    src = xh if ctx.truth(comp) else hdr
    ctx.oblige("post", "band.header_is_image_header", rh is src)
    ctx.oblige("post", "band.header_shift.naxis2", rh.vals['NAXIS2'] == hi - lo)
    ctx.oblige("post", "band.header_shift.crpix2", rh.vals['CRPIX2'] == s['crpix2'] - lo)
    others = [k for k in ('NAXIS1', 'CRPIX1', 'CRVAL1', 'NAXIS') if k in src.vals]
    ctx.oblige("frame", "band.other_cards_unchanged",
               And(*[rh.vals[k] is src.vals[k] or rh.vals[k] == src.vals[k] for k in others])
               if not any(h[1] not in ('NAXIS2', 'CRPIX2') for h in rh.history) else False)
    # data selection
    if ctx.truth(comp):
        ctx.oblige("post", "band.data_rows.compressed_uses_expanded_data",
                   And(data.array == "expanded", len(plane) == 0, data.scale == 1))
    else:
        ctx.oblige("post", "band.data_rows.source_is_file", data.array == "file")
        ctx.oblige("post", "band.data_rows.unscaled_read", not ctx.ghost.get('scaled_on_read', False))
        nx = s['naxis']
        if len(plane) == 0:
            ctx.oblige("post", "band.data_rows.plane", nx == 2)
        elif len(plane) == 1:
            ctx.oblige("post", "band.data_rows.plane", And(nx == 3, plane[0] == s['cube_index']))
        elif len(plane) == 2:
            ctx.oblige("post", "band.data_rows.plane", And(nx == 4, plane[0] == 0, plane[1] == s['cube_index']))
        else:
            ctx.oblige("post", "band.data_rows.plane", False)
        ctx.oblige("post", "band.data_rows.bscale",
                   data.scale == ite(s['has_bscale'], s['bscale'], 1))
    ctx.cover("band.returns_reachable")


def t_pair(ctx):
    """two calls, bands i and i+1 of the same file: consecutive ranges"""
    ctx.float_rounding = float_rounding
    s = symbols(ctx)
    n, i = s['n'], s['i']
    ctx.assume(And(n >= 2, i >= 0, i + 1 < n, s['naxis'] >= 2, s['naxis'] <= 4))
    o1, _, _ = one_call(ctx, "_a", s, (i, n))
    o2, _, _ = one_call(ctx, "_b", s, (i + 1, n))
    if o1.kind != 'return' or o2.kind != 'return':
        ctx.oblige("post", "validation.valid_band_accepted", False)
        return
    d1, d2 = o1.value[0], o2.value[0]
    r1, _, _ = view_rows(ctx, d1)
    r2, _, _ = view_rows(ctx, d2)
    lo2 = 0 if r2.start is None else r2.start
    ctx.oblige("post", "band.consecutive", r1.stop == lo2)
    ctx.cover("band.pair_reachable")


def verify(S):
    for name, fn in (("fits_tools.load_image_band", t_single), ("fits_tools.load_image_band", t_pair)):
        ctx = Ctx(S, name)
        ctx.explore(fn)
    # canary: an unprovable claim about the same function must fail
    ctx = Ctx(S, "fits_tools.load_image_band")

    def canary(c):
        s = symbols(c)
        c.assume(And(s['n'] >= 1, s['i'] >= 0, s['i'] < s['n'], Not(s['compressed']), s['naxis'] == 2))
        out, _, _ = one_call(c, "", s, (s['i'], s['n']))
        if out.kind == 'return':
            r, _, _ = view_rows(c, out.value[0])
            c.oblige("canary", "band.range_is_empty", r.stop == (0 if r.start is None else r.start), expect="fail")
    ctx.explore(canary)


REPLAY = {
    "band.last_ends_at_rows": "replay_tiling",
    "band.first_starts_at_zero": "replay_tiling",
    "band.consecutive": "replay_tiling",
    "band.range_within_image": "replay_tiling",
    "band.header_shift.naxis2": "replay_header",
    "band.header_shift.crpix2": "replay_header",
    "band.header_is_image_header": "replay_header",
    "band.data_rows.plane": "replay_data",
    "band.data_rows.bscale": "replay_data",
    "band.all_columns": "replay_data",
    "validation.invalid_band_rejected": "replay_validation",
    "validation.raises_only_when_invalid": "replay_validation",
}

NATIVE_CHECKS = [
    {"func": "crosscheck", "payload": {}},
]
