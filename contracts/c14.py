"""C14 — AeRes model images are the catalogue's Gaussians; subtraction closes the loop (AegeanTools/AeRes.py).

Spec, at an arbitrary pixel (i, j) of an image of arbitrary shape, for catalogues of any length (loop invariant + generic
iteration of the source loop on an ARBITRARY previous image, which is additivity):
  make_model(S, shape, w)[i, j] = sum over sources s whose centre (X_s, Y_s) = sky2pix_ellipse(s) lies on the image
      (0 < X < rows, 0 < Y < cols) and whose evaluation box is finite, of
      [ (i, j) in box(s) ] * G(i, j; peak_s, X_s - 1, Y_s - 1, sx_s * FWHM2CC, sy_s * FWHM2CC, theta_s)
  with G the body of fitting.elliptical_gaussian, box(s) = the integer box of half-width 5 * (|sx cos| + |sy sin|) around the
  centre clipped to the image; additive over sources; off-image sources are skipped, nothing raises;
  mask mode blanks exactly the box pixels with G >= frac * peak (or >= sigma * local_rms) and leaves the rest 0;
  make_residual writes data - model (data + model with add / mask) and the model; (data + m) - m = data;
  FWHM2CC * CC2FHWM = 1 and CC2FHWM^2 = 8 ln 2.
"""
import z3

from pyvc.engine import (Ctx, PyObj, Model, Namespace, Obj, run_function, find_function, Closure, Env, Undecided, PyRaise,
                         ExcValue, module_constant, Interp, SymDict)
from pyvc.values import Sym, And, Or, Not, Implies, ite, NaN, NaNType
from pyvc import lib
from contracts.arrays import (SArr, MGrid, np_zeros, np_array, reset_uids, uid, np_all, np_isfinite_arr, np_where1)

PROPERTY = "C14"
FILE = "AegeanTools/AeRes.py"
FFILE = "AegeanTools/fitting.py"
ASSUMPTIONS = [
    "WCSHelper.sky2pix_ellipse(pos, a, b, pa) returns the 1-based (row, column) centre, FWHM axes in pixels and angle (C16 contract); "
    "its numerical accuracy is not part of this proof",
    "the 5-sigma extent clause (model below 1e-4 of the peak outside the box) is not decided: the box half-width "
    "5*(|sx cos|+|sy sin|) with sx, sy FWHM is assumed generous enough",
    "numpy: np.mgrid / ravel / fancy indexing with the distinct cells of an mgrid box / np.where selection as in contracts/arrays.py",
    "floats as reals; float32 storage of the model image not modelled",
]
R = z3.RealSort()
E_X = z3.Function('ell_x', z3.IntSort(), R)
E_Y = z3.Function('ell_y', z3.IntSort(), R)
E_SX = z3.Function('ell_sx', z3.IntSort(), R)
E_SY = z3.Function('ell_sy', z3.IntSort(), R)
E_TH = z3.Function('ell_theta', z3.IntSort(), R)
K2 = z3.Real('FWHM2CC')


def rl(x):
    e = Sym.num(x)
    return z3.ToReal(e) if z3.is_int(e) else e


def genv(ctx, calls):
    class Helper(PyObj):
        def getattr_(s, c, name):
            if name == 'sky2pix_ellipse':
                def f(c2, pos, a, b, pa):
                    calls.append((pos, a, b, pa))
                    k = source_index(c2.interp.iterate(pos))
                    return (Sym(E_X(k), True), Sym(E_Y(k), True), Sym(E_SX(k), True), Sym(E_SY(k), True), Sym(E_TH(k), True))
                return Model(f, 'sky2pix_ellipse')
            raise Undecided("wcshelper." + name)
    np_ = lib.std_np(zeros=Model(np_zeros), mgrid=MGrid(), all=Model(np_all), isfinite=Model(np_isfinite_arr),
                     where=Model(np_where1), squeeze=Model(lambda c, x: x))
    fenv = Env({'np': np_, 'math': lib.std_math(), 'ValueError': lib.__dict__.get('ExcClass', None)})
    from pyvc.engine import ExcClass
    fenv.vars['ValueError'] = ExcClass('ValueError')
    eg = Closure(find_function(FFILE, 'elliptical_gaussian'), fenv, FFILE, 'elliptical_gaussian')
    logging = Namespace('logging', getLogger=Model(lambda c, *a: Namespace('logger', isEnabledFor=Model(lambda c2, lvl: False))),
                        DEBUG=10)
    g = {'np': np_, 'fitting': Namespace('fitting', elliptical_gaussian=eg), 'FWHM2CC': Sym(K2, True), 'logging': logging}
    ctx.interp.inline.add('elliptical_gaussian')
    return g, Helper(), eg


SRCF = {n: z3.Function('src_' + n, z3.IntSort(), R) for n in ('ra', 'dec', 'a', 'b', 'pa', 'peak', 'local_rms')}


def mk_source(k):
    """source number k (python int or symbolic index) of the catalogue"""
    kk = Sym.lift(k)
    s = lambda n: Sym(SRCF[n](kk), True)
    o = Obj('ComponentSource', ra=s('ra'), dec=s('dec'), a=s('a'), b=s('b'), pa=s('pa'), peak_flux=s('peak'),
            local_rms=s('local_rms'), island=Sym(kk) if not isinstance(k, int) else k, source=0)
    o.ghost_k = k
    return o


def source_index(pos):
    """the catalogue index of the source a sky2pix_ellipse call is about (from its ra term)"""
    e = Sym.lift(pos[0])
    if z3.is_app(e) and e.decl().name() == 'src_ra':
        return e.arg(0)
    raise Undecided("sky2pix_ellipse called with a position that is not a catalogue position")


def gauss(ctx, eg, i, j, amp, xo, yo, sx, sy, th):
    return ctx.interp.call(eg, [Sym(rl(i), True), Sym(rl(j), True), amp, xo, yo, sx, sy, th], {})


def spec_terms(ctx, eg, srcs, rows, cols, i, j):
    """per source: (included condition at (i,j), model value at (i,j))"""
    out = []
    for k, s in srcs:
        kk = Sym.lift(k)
        X, Y, SX, SY, TH = [Sym(f(kk), True) for f in (E_X, E_Y, E_SX, E_SY, E_TH)]
        phi = lib.m_radians(ctx, TH)
        cph, sph = lib.m_cos(ctx, phi), lib.m_sin(ctx, phi)
        # the documented box: integer box of half-width 5*(|sx cos|+|sy sin|) (resp. sin/cos for columns) around the centre,
        # floor/ceil outwards, clipped to the image  (built with the same arithmetic helpers the executor uses)
        from pyvc.values import smin, smax, to_int_trunc
        xoff = 5 * (abs(SX * cph) + abs(SY * sph))
        yoff = 5 * (abs(SX * sph) + abs(SY * cph))
        xmin = to_int_trunc(smax(lib.np_floor(ctx, X - xoff), 0))
        xmax = to_int_trunc(smin(lib.np_ceil(ctx, X + xoff), rows))
        ymin = to_int_trunc(smax(lib.np_floor(ctx, Y - yoff), 0))
        ymax = to_int_trunc(smin(lib.np_ceil(ctx, Y + yoff), cols))
        on_image = And(X > 0, X < rows, Y > 0, Y < cols)
        inbox = And(i >= xmin, i < xmax, j >= ymin, j < ymax)
        G = gauss(ctx, eg, i, j, s.fields['peak_flux'], X - 1, Y - 1, SX * Sym(K2, True), SY * Sym(K2, True), TH)
        out.append((And(on_image, inbox), G))
    return out


def rl_(x):
    return Sym(rl(x), True)


def t_make_model(ctx):
    """generic iteration of the source loop: the image before the iteration is arbitrary (that is additivity)"""
    reset_uids()
    from pyvc.engine import SeqList, LoopSpec
    mode = ctx.choice(3)          # sum / mask by frac / mask by sigma
    calls = []
    g, helper, eg = genv(ctx, calls)
    rows, cols = Sym(z3.Int('rows')), Sym(z3.Int('cols'))
    n = Sym(z3.Int('n_sources'))
    ctx.assume(And(rows >= 1, cols >= 1, n >= 0))
    cache = {}

    def item(k):
        key = str(Sym.lift(k))
        if key not in cache:
            cache[key] = mk_source(k)
        return cache[key]
    sources = SeqList(ctx, n, item)
    kw = {}
    frac = Sym(z3.Real('frac'), True)
    sigma = Sym(z3.Real('nsigma'), True)
    if mode == 1:
        kw = {'mask': True, 'frac': frac}
    elif mode == 2:
        kw = {'mask': True, 'sigma': sigma}
    lab = "make_model.%s" % (("sum", "mask_frac", "mask_sigma")[mode])
    i, j = Sym(z3.Int('pi_')), Sym(z3.Int('pj_'))
    ctx.assume(And(i >= 0, i < rows, j >= 0, j < cols))
    st = {}

    def havoc(c, env):
        M = SArr.fresh(uid("model_before"), (rows, cols), with_nan=True)
        env.vars['m'] = M
        st['m'] = M

    def inv(c, env, k):
        m = env.lookup('m')
        if not isinstance(m, SArr) or len(m.shape_) != 2:
            return [("model_is_an_image_of_the_requested_shape", False)]
        out = [("model_is_an_image_of_the_requested_shape", And(m.shape_[0] == rows, m.shape_[1] == cols))]
        if mode == 0:
            out.append(("no_nan_in_model", Not(m.isnan((i, j)))))
        return out

    def before(c, env, k):
        del calls[:]
        m = st['m']
        st['before'] = SArr("before", m.shape_, m.elem, m.blank0)
        st['before'].writes = list(m.writes)
        st['w0'] = len(m.writes)

    def after(c, env, k):
        m = st['m']
        if env.lookup('m') is not m:
            c.oblige("post", lab + ".model_is_updated_in_place", False)
            return
        okc = len(calls) == 1
        c.oblige("post", lab + ".one_ellipse_conversion_per_source", okc)
        s_ = item(k).fields
        if okc:
            pos, a, b, pa = calls[0]
            p = c.interp.iterate(pos)
            c.oblige("post", lab + ".ellipse_arguments_arcsec_to_degrees",
                     And(p[0] == s_['ra'], p[1] == s_['dec'], a == s_['a'] / 3600, b == s_['b'] / 3600, pa == s_['pa']))
        kk = Sym.lift(k)
        X, Y = Sym(E_X(kk), True), Sym(E_Y(kk), True)
        on_image = c.truth(And(X > 0, X < rows, Y > 0, Y < cols))
        new = m.writes[st['w0']:]
        c.oblige("post", lab + ".one_write_per_source_centred_on_the_image_offimage_sources_skipped", len(new) == (1 if on_image else 0))
        if len(new) != 1 or not on_image:
            return
        cond, val, nanf = new[0]
        inc, G = spec_terms(c, eg, [(k, item(k))], rows, cols, i, j)[0]
        prev = st['before']
        if mode == 0:
            c.oblige("post", lab + ".write_region_is_the_source_box_clipped_to_the_image", cond((i, j)) == inc, timeout_ms=60000)
            c.oblige("post", lab + ".written_value_is_previous_plus_source_gaussian",
                     Implies(inc, And(val((i, j)) == prev.at((i, j)) + G, Sym(Sym.lift(nanf((i, j))) == Sym.lift(prev.isnan((i, j)))))),
                     timeout_ms=60000)
        else:
            thr = frac * s_['peak_flux'] if mode == 1 else sigma * s_['local_rms']
            c.oblige("post", lab + ".mask_rule", cond((i, j)) == And(inc, G >= thr), timeout_ms=60000)
            c.oblige("post", lab + ".masked_pixels_become_nan_others_untouched", nanf((i, j)) is True or nanf((i, j)) == True)  # noqa: E712
    spec = LoopSpec(inv, havoc=havoc, label="sources", modifies=lambda c, env: [st['m']], types={'i_count': 'int'})
    spec.before_body, spec.after_body = before, after
    ctx.interp.loops["for src in sources"] = spec
    out = run_function(ctx, FILE, 'make_model', [sources, (rows, cols), helper], kw, globals_=g)
    if out.kind != 'return' or not isinstance(out.value, SArr):
        ctx.oblige("safe", lab + ".no_exception_and_returns_image", False)
        return
    m = out.value
    ctx.oblige("post", lab + ".shape", And(m.shape_[0] == rows, m.shape_[1] == cols))
    if mode == 0:
        ctx.oblige("post", lab + ".no_nan_in_model", Not(m.isnan((i, j))), timeout_ms=60000)
    ctx.cover(lab + ".reachable")


def t_load_sources(ctx):
    """AeRes.load_sources hands the caller's columns, renamed only, to table_to_source_list"""
    reset_uids()
    from contracts.arrays import SArr as _SArr
    n = Sym(z3.Int('n_rows'))
    ctx.assume(n >= 1)
    user = {'ra': 'RAJ2000', 'dec': 'DEJ2000', 'peak_flux': 'Sp', 'a': 'maj', 'b': 'min', 'pa': 'ang'}
    default = ctx.free_branch()
    names = {k: (k if default else v) for k, v in user.items()}
    missing = ctx.free_branch()
    cols = {nm: _SArr.fresh("col_" + k, (n,)) for k, nm in names.items()}
    cols['island'] = _SArr.fresh("col_island", (n,), sort='int')
    if missing:
        del cols[names['pa']]
    orig = dict(cols)
    renames = []

    class Tab(PyObj):
        typename = 'Table'

        def getattr_(s, c, name):
            if name == 'colnames':
                return list(cols.keys())
            if name == 'rename_column':
                def rn(c2, old, new):
                    if old not in cols:
                        raise PyRaise(ExcValue('KeyError', (old,)))
                    renames.append((old, new))
                    items = [(new if k == old else k, v) for k, v in cols.items()]
                    cols.clear()
                    cols.update(items)
                return Model(rn, 'rename_column')
            raise Undecided("Table." + name)

        def getitem_(s, c, k):
            if k in cols:
                return cols[k]
            raise PyRaise(ExcValue('KeyError', (k,)))

        def setitem_(s, c, k, v):
            cols[k] = v

        def len_(s, c):
            return n
    tab = Tab()
    got = {}

    def t2s(c, t, **kw):
        got['table'] = t
        got['cols'] = dict(cols)
        return Obj('source list')
    np_ = lib.std_np()
    g = {'catalogs': Namespace('catalogs', load_table=Model(lambda c, f: tab), table_to_source_list=Model(t2s)),
         'logging': Namespace('logging'), 'np': np_, 'len': Model(lambda c, x: n)}
    kw = {} if default else {'ra_col': names['ra'], 'dec_col': names['dec'], 'peak_col': names['peak_flux'], 'a_col': names['a'],
                             'b_col': names['b'], 'pa_col': names['pa']}
    out = run_function(ctx, FILE, 'load_sources', ['cat.fits'], kw, globals_=g)
    if out.kind != 'return':
        ctx.oblige("safe", "load_sources.no_exception", False)
        return
    if missing:
        ctx.oblige("post", "load_sources.missing_column_gives_none_without_reading", out.value is None and 'table' not in got)
        return
    ok = got.get('table') is tab
    ctx.oblige("post", "load_sources.the_loaded_table_goes_to_table_to_source_list", ok)
    if not ok:
        return
    final = got['cols']
    ctx.oblige("post", "load_sources.each_standard_column_holds_the_data_of_the_callers_column_unchanged",
               all(final.get(std) is orig[names[std]] and not final[std].writes for std in user))
    ctx.oblige("post", "load_sources.other_columns_untouched", final.get('island') is orig['island'] and not orig['island'].writes)


def t_constants(ctx):
    """FWHM2CC = 1 / CC2FHWM, CC2FHWM = 2 sqrt(2 ln 2)"""
    env = Env({'math': lib.std_math(), 'np': lib.std_np()})
    it = ctx.interp
    cc = it.eval(module_constant(FILE, 'CC2FHWM') if _has_const(FILE, 'CC2FHWM') else module_constant("AegeanTools/source_finder.py", 'CC2FHWM'), env)
    env.vars['CC2FHWM'] = cc
    f2 = it.eval(module_constant(FILE, 'FWHM2CC'), env)
    ln2 = lib.m_log(ctx, 2)
    ctx.oblige("lemma", "FWHM2CC.times_CC2FWHM_is_one", Implies(ln2 > 0, f2 * cc == 1))
    ctx.oblige("lemma", "CC2FWHM.squared_is_8_ln2", Implies(ln2 > 0, And(cc > 0, cc * cc == ln2 * 8)))


def _has_const(rel, name):
    try:
        module_constant(rel, name)
        return True
    except Undecided:
        return False


def t_make_residual(ctx):
    reset_uids()
    add, mask = ctx.free_branch(), ctx.free_branch()
    rows, cols = Sym(z3.Int('rows')), Sym(z3.Int('cols'))
    data = SArr.fresh("data", (rows, cols), with_nan=True)
    model = SArr.fresh("model", (rows, cols), with_nan=True)
    hdu = Obj('PrimaryHDU', data=data, header=SymDict('h', {}, strict=False))
    written = []

    class HL(PyObj):
        def getitem_(s, c, k):
            return hdu

        def getattr_(s, c, name):
            if name == 'writeto':
                return Model(lambda c2, fn, **kw: written.append((fn, hdu.fields['data'])), 'writeto')
            raise Undecided("HDUList." + name)
    mm_calls = []
    FRAC_IN, SIGMA_IN = Sym(z3.Real('frac_given'), True), Sym(z3.Real('sigma_given'), True)

    # the call is bound against the REAL signature of make_model (argument order included)
    real_args = [a.arg for a in find_function(FILE, 'make_model').args.args]

    def c_make_model(c, *a, **kw):
        bound = dict(zip(real_args, a))
        dup = [k_ for k_ in kw if k_ in bound]
        bound.update(kw)
        if dup or any(k_ not in real_args for k_ in bound):
            raise PyRaise(ExcValue('TypeError', ('make_model() got unexpected / multiple values',)))
        mm_calls.append((bound.get('sources'), bound.get('shape'), bound.get('mask', False), bound.get('frac', None), bound.get('sigma', 4)))
        return model
    srcs = [mk_source(0)]
    g = {'np': lib.std_np(squeeze=Model(lambda c, x: x)), 'fits': Namespace('fits', open=Model(lambda c, f, **k: HL())),
         'wcs_helpers': Namespace('wcs_helpers', WCSHelper=Namespace('WCSHelper', from_header=Model(lambda c, h: Obj('helper')))),
         'load_sources': Model(lambda c, cat, **k: srcs), 'make_model': Model(c_make_model), 'logging': Namespace('logging')}
    out = run_function(ctx, FILE, 'make_residual', ["im.fits", "cat.fits", "res.fits"],
                       {'mfile': "mod.fits", 'add': add, 'mask': mask, 'frac': FRAC_IN, 'sigma': SIGMA_IN}, globals_=g)
    lab = "make_residual.%s%s" % ("add" if add else "sub", ".mask" if mask else "")
    ok = out.kind == 'return' and len(written) == 2 and written[0][0] == "res.fits" and written[1][0] == "mod.fits"
    ctx.oblige("post", lab + ".writes_residual_then_model", ok)
    if not ok:
        return
    res = written[0][1]
    i, j = ctx.fresh_int("pi_"), ctx.fresh_int("pj_")
    ctx.assume(And(i >= 0, i < rows, j >= 0, j < cols))
    sign = 1 if (add or mask) else -1
    ctx.oblige("post", lab + ".residual_is_data_plus_or_minus_model",
               And(res.at((i, j)) == data.at((i, j)) + model.at((i, j)) * sign,
                   res.isnan((i, j)) == Or(data.isnan((i, j)), model.isnan((i, j)))) if isinstance(res, SArr) else False)
    ctx.oblige("post", lab + ".model_written_unchanged", written[1][1] is model)
    ctx.oblige("post", lab + ".model_made_with_callers_options",
               len(mm_calls) == 1 and mm_calls[0][0] is srcs and mm_calls[0][2] is mask and mm_calls[0][3] is FRAC_IN
               and mm_calls[0][4] is SIGMA_IN)
    x, mval = Sym(z3.Real('d'), True), Sym(z3.Real('mv'), True)
    ctx.oblige("lemma", "add_then_subtract_restores_the_image", (x + mval) - mval == x, nohyps=True)


def verify(S):
    for name, fn in (("AeRes.make_model", t_make_model), ("AeRes.constants", t_constants), ("AeRes.make_residual", t_make_residual),
                     ("AeRes.load_sources", t_load_sources)):
        if S.only and S.only not in name:
            continue
        ctx = Ctx(S, name)
        try:
            ctx.explore(fn)
        except Undecided as u:
            S.undecided.append("%s: %s" % (name, u))


REPLAY = {"*": "replay_models"}
NATIVE_CHECKS = [{"func": "crosscheck", "payload": {}}]
