"""numpy array models (assumed numpy contracts: basic slicing = index shift,
row-major shapes, elementwise arithmetic, np.arange / np.mgrid / np.empty)."""
import z3

from pyvc.engine import PyObj, Model, Undecided, PyRaise, ExcValue
from pyvc.values import Sym, And, Or, Not, Implies, ite, Opaque, NaNType, to_real

_uid = [0]


def uid(prefix):
    _uid[0] += 1
    return "%s%d" % (prefix, _uid[0])


def reset_uids():
    _uid[0] = 0


def zint(v):
    e = Sym.num(v)
    if not z3.is_int(e):
        raise Undecided("array index/shape is not an integer term")
    return e


class Axis:
    """index map of one axis of a view: position i of the view -> base index start + step*i, i in [0,count)"""

    def __init__(self, start, step, count):
        self.start, self.step, self.count = start, step, count

    def at(self, i):
        return self.start + self.step * i


def slice_axis(ctx, sl, n):
    """numpy basic slice on an axis of length n (non-negative step)"""
    step = 1 if sl.step is None else sl.step
    if isinstance(step, Sym):
        ctx.oblige("safe", "slice_step_positive.L%d" % ctx.cur_line, step > 0)
        ctx.assume(step > 0)
    elif step <= 0:
        raise Undecided("non-positive slice step")
    start = 0 if sl.start is None else sl.start
    stop = n if sl.stop is None else sl.stop

    def clamp(v):
        # python slice semantics: negative counts from the end, then clip to [0,n]
        v2 = ite(v < 0, v + n, v) if isinstance(v, Sym) else (v + n if v < 0 else v)
        lo = ite(v2 < 0, 0, v2) if isinstance(v2, Sym) else max(v2, 0)
        return ite(lo > n, n, lo) if isinstance(lo, Sym) or isinstance(n, Sym) else min(lo, n)
    start, stop = clamp(start), clamp(stop)
    d = stop - start
    cnt = (d + (step - 1)) // step
    cnt = ite(cnt > 0, cnt, 0) if isinstance(cnt, Sym) else max(cnt, 0)
    return Axis(start, step, cnt)


def index_axis(ctx, k, n):
    """single integer index (negative allowed); obligation: in range"""
    if isinstance(k, Sym):
        kk = ite(k < 0, k + n, k)
    else:
        kk = k + n if k < 0 else k
    ctx.oblige("safe", "index_in_range.L%d" % ctx.cur_line, And(kk >= 0, kk < n))
    return kk


class SArr(PyObj):
    """N-d array (N<=2 modelled) whose cells are given by an element function.

    elem(idx tuple of z3 Int terms) -> Sym value."""
    typename = 'ndarray'

    def __init__(self, name, shape, elem):
        self.name, self.shape_, self.elem = name, tuple(shape), elem
        self.writes = []        # later writes shadow earlier ones: (cond(idx)->bool Sym, value(idx)->Sym)

    @staticmethod
    def fresh(name, shape, sort='real'):
        nd = len(shape)
        rng = z3.RealSort() if sort == 'real' else z3.IntSort()
        f = z3.Function("val_" + name, *([z3.IntSort()] * nd + [rng]))
        return SArr(name, shape, lambda idx: Sym(f(*[zint(i) for i in idx])))

    def at(self, idx):
        idx = tuple(Sym(i) if z3.is_expr(i) else i for i in idx)
        v = self.elem(idx)
        for cond, val in self.writes:
            c = cond(idx)
            if c is True:
                v = val(idx)
            elif c is False:
                continue
            else:
                v = ite(c, val(idx), v)
        return v

    def getattr_(self, ctx, name):
        if name == 'shape':
            return self.shape_
        if name == 'ndim':
            return len(self.shape_)
        if name == 'size':
            r = 1
            for s in self.shape_:
                r = r * s
            return r
        if name == 'copy':
            return Model(lambda c: self.snapshot(), 'ndarray.copy')
        if name == 'astype':
            return Model(lambda c, *a, **k: self.snapshot(), 'ndarray.astype')
        if name == 'dtype':
            return Opaque('dtype')
        if name == 'T' and len(self.shape_) == 2:
            return SArr(self.name + ".T", (self.shape_[1], self.shape_[0]), lambda idx: self.at((idx[1], idx[0])))
        raise Undecided("ndarray.%s not modelled" % name)

    def snapshot(self):
        old_elem, old_w = self.elem, list(self.writes)
        frozen = SArr(self.name + "'", self.shape_, old_elem)
        frozen.writes = old_w
        for k_, v_ in self.__dict__.items():
            if k_ not in ('name', 'shape_', 'elem', 'writes'):
                setattr(frozen, k_, v_)
        return frozen

    def len_(self, ctx):
        return self.shape_[0]

    def fingerprint_(self):
        return ('ndarray', len(self.writes), id(self.elem)), []

    def _axes(self, ctx, key):
        if not isinstance(key, tuple):
            key = (key,)
        if len(key) > len(self.shape_):
            raise PyRaise(ExcValue('IndexError', ('too many indices',)))
        key = key + (slice(None),) * (len(self.shape_) - len(key))
        axes = []
        for k, n in zip(key, self.shape_):
            if isinstance(k, slice):
                axes.append(slice_axis(ctx, k, n))
            elif isinstance(k, (int, Sym)) and not isinstance(k, bool):
                axes.append(index_axis(ctx, k, n))
            else:
                raise Undecided("array index kind %s" % type(k).__name__)
        return axes

    def getitem_(self, ctx, key):
        axes = self._axes(ctx, key)
        vshape = tuple(a.count for a in axes if isinstance(a, Axis))
        base = self

        def elem(idx):
            it = iter(idx)
            full = []
            for a in axes:
                full.append(a.at(next(it)) if isinstance(a, Axis) else a)
            return base.at(tuple(full))
        if not vshape:
            return elem(())
        # a view aliases the base (later writes to the base are visible) - fine for reads
        return SArr(self.name + "[view]", vshape, elem)

    def setitem_(self, ctx, key, value):
        axes = self._axes(ctx, key)
        vshape = tuple(a.count for a in axes if isinstance(a, Axis))
        if isinstance(value, SArr):
            if len(value.shape_) != len(vshape):
                raise Undecided("broadcast assignment between different ranks")
            ctx.oblige("safe", "slice_shapes_match.L%d" % ctx.cur_line,
                       And(*[a == b for a, b in zip(value.shape_, vshape)]))
            src = value.snapshot()
        else:
            src = None

        def cond(idx):
            cs = []
            for a, i in zip(axes, idx):
                if isinstance(a, Axis):
                    # i = start + step*j for some 0 <= j < count
                    if isinstance(a.step, int) and a.step == 1:
                        cs.append(And(i >= a.start, i < a.start + a.count))
                    else:
                        cs.append(And(i >= a.start, (i - a.start) % a.step == 0,
                                      (i - a.start) // a.step < a.count))
                else:
                    cs.append(i == a)
            return And(*cs)

        def val(idx):
            if src is None:
                return value
            vi = []
            for a, i in zip(axes, idx):
                if isinstance(a, Axis):
                    vi.append((i - a.start) // a.step if not (isinstance(a.step, int) and a.step == 1) else i - a.start)
            return src.at(tuple(vi))
        self.writes.append((cond, val))

    def map_(self, ctx, f):
        base = self.snapshot()
        return SArr(uid("map"), self.shape_, lambda idx: f(base.at(idx)))

    def binop_(self, ctx, op, other, swapped):
        import operator
        ops = {'add': operator.add, 'sub': operator.sub, 'mul': operator.mul, 'truediv': operator.truediv,
               'floordiv': operator.floordiv, 'mod': operator.mod, 'pow': operator.pow,
               'Lt': operator.lt, 'LtE': operator.le, 'Gt': operator.gt, 'GtE': operator.ge,
               'Eq': operator.eq, 'NotEq': operator.ne}
        inplace = op.startswith('i') and op[1:] in ops
        name = op[1:] if inplace else op
        if name == 'neg':
            b = self.snapshot()
            return SArr(uid("neg"), self.shape_, lambda idx: -b.at(idx))
        if name not in ops:
            return NotImplemented
        f = ops[name]
        a = self.snapshot()
        if isinstance(other, SArr):
            if len(other.shape_) != len(self.shape_):
                raise Undecided("broadcast between different ranks")
            ctx.oblige("safe", "operand_shapes_match.L%d" % ctx.cur_line,
                       And(*[x == y for x, y in zip(self.shape_, other.shape_)]))
            o = other.snapshot()
            g = (lambda idx: f(o.at(idx), a.at(idx))) if swapped else (lambda idx: f(a.at(idx), o.at(idx)))
        elif isinstance(other, (int, float, Sym)) or hasattr(other, 'numerator'):
            g = (lambda idx: f(other, a.at(idx))) if swapped else (lambda idx: f(a.at(idx), other))
        else:
            return NotImplemented
        res = SArr(uid(name), self.shape_, g)
        if inplace:
            self.elem, self.writes = res.elem, []
            return self
        return res


def np_arange(ctx, *a):
    if len(a) == 1:
        start, stop = 0, a[0]
    elif len(a) == 2:
        start, stop = a
    else:
        raise Undecided("np.arange with step")
    n = stop - start
    n = ite(n > 0, n, 0) if isinstance(n, Sym) else max(n, 0)
    return SArr(uid("arange"), (n,), lambda idx: Sym(zint(start + idx[0])) if isinstance(start + idx[0], Sym) else start + idx[0])


class MGrid(PyObj):
    def getitem_(self, ctx, key):
        if not isinstance(key, tuple):
            key = (key,)
        shp = []
        los = []
        for k in key:
            if not isinstance(k, slice) or k.step is not None:
                raise Undecided("np.mgrid with step / non-slice")
            lo = 0 if k.start is None else k.start
            n = k.stop - lo
            shp.append(ite(n > 0, n, 0) if isinstance(n, Sym) else max(n, 0))
            los.append(lo)
        out = []
        for ax in range(len(key)):
            out.append(SArr(uid("mgrid%d_" % ax), tuple(shp), (lambda ax: lambda idx: los[ax] + idx[ax])(ax)))
        return tuple(out) if len(out) > 1 else out[0]


def np_empty(ctx, shape, *a, **k):
    if not isinstance(shape, tuple):
        shape = (shape,)
    return SArr.fresh(uid("empty"), shape)


def np_zeros(ctx, shape, *a, **k):
    if not isinstance(shape, tuple):
        shape = (shape,)
    return SArr(uid("zeros"), shape, lambda idx: 0)


def np_array(ctx, x, *a, **k):
    if isinstance(x, SArr):
        return x.snapshot()
    return x


def np_squeeze(ctx, x, *a, **k):
    if isinstance(x, SArr):
        keep = [i for i, s in enumerate(x.shape_) if not (isinstance(s, int) and s == 1)]
        if len(keep) == len(x.shape_):
            return x
        base = x

        def elem(idx):
            it = iter(idx)
            return base.at(tuple(next(it) if i in keep else 0 for i in range(len(base.shape_))))
        return SArr(x.name + ".squeeze", tuple(x.shape_[i] for i in keep), elem)
    return x
