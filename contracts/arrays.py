"""numpy array models (assumed numpy contracts: basic slicing = index shift,
row-major shapes, elementwise arithmetic, np.arange / np.mgrid / np.empty)."""
import z3

from pyvc.engine import PyObj, Model, Undecided, PyRaise, ExcValue
from pyvc.values import Sym, And, Or, Not, Implies, ite, Opaque, NaNType, to_real

_uid = [0]


def uid(prefix):
    _uid[0] += 1
    return "%s%d" % (prefix, _uid[0])


def reset_uids():
    _uid[0] = 0


def zint(v):
    e = Sym.num(v)
    if not z3.is_int(e):
        raise Undecided("array index/shape is not an integer term")
    return e


class Axis:
    """index map of one axis of a view: position i of the view -> base index start + step*i, i in [0,count)"""

    def __init__(self, start, step, count):
        self.start, self.step, self.count = start, step, count

    def at(self, i):
        return self.start + self.step * i


def slice_axis(ctx, sl, n):
    """numpy basic slice on an axis of length n (non-negative step)"""
    step = 1 if sl.step is None else sl.step
    if isinstance(step, Sym):
        ctx.oblige("safe", "slice_step_positive.L%d" % ctx.cur_line, step > 0)
        ctx.assume(step > 0)
    elif step <= 0:
        raise Undecided("non-positive slice step")
    start = 0 if sl.start is None else sl.start
    stop = n if sl.stop is None else sl.stop

    def clamp(v):
        # python slice semantics: negative counts from the end, then clip to [0,n]
        v2 = ite(v < 0, v + n, v) if isinstance(v, Sym) else (v + n if v < 0 else v)
        lo = ite(v2 < 0, 0, v2) if isinstance(v2, Sym) else max(v2, 0)
        return ite(lo > n, n, lo) if isinstance(lo, Sym) or isinstance(n, Sym) else min(lo, n)
    start, stop = clamp(start), clamp(stop)
    d = stop - start
    cnt = (d + (step - 1)) // step
    cnt = ite(cnt > 0, cnt, 0) if isinstance(cnt, Sym) else max(cnt, 0)
    return Axis(start, step, cnt)


def index_axis(ctx, k, n):
    """single integer index (negative allowed); obligation: in range"""
    if isinstance(k, Sym):
        kk = ite(k < 0, k + n, k)
    else:
        kk = k + n if k < 0 else k
    ctx.oblige("safe", "index_in_range.L%d" % ctx.cur_line, And(kk >= 0, kk < n))
    return kk


class Pick:
    """fancy index with a concrete list of positions on one axis"""

    def __init__(self, items):
        self.items = list(items)
        self.count = len(self.items)

    def at(self, i):
        if isinstance(i, int):
            return self.items[i]
        r = self.items[-1]
        for q in range(len(self.items) - 2, -1, -1):
            r = ite(i == q, self.items[q], r)
        return r

    def position_of(self, i):
        """(cond that i is picked, position in the list)"""
        cond = Or(*[i == v for v in self.items])
        pos = len(self.items) - 1
        for q in range(len(self.items) - 2, -1, -1):
            pos = ite(i == self.items[q], q, pos)
        return cond, pos


class SArr(PyObj):
    """N-d array (N<=2 modelled).  Every cell has a real value `at(idx)` and a NaN flag `isnan(idx)`;
    arithmetic is done on the values and propagates the flag (numpy semantics for NaN)."""
    typename = 'ndarray'

    def __init__(self, name, shape, elem, blank=None):
        self.name, self.shape_, self.elem = name, tuple(shape), elem
        self.blank0 = blank     # idx -> Bool: cell holds NaN (None: no NaN cells)
        self.writes = []        # later writes shadow earlier ones: (cond(idx), value(idx), nan(idx))

    @staticmethod
    def fresh(name, shape, sort='real', with_nan=False):
        nd = len(shape)
        rng = z3.RealSort() if sort == 'real' else z3.IntSort()
        f = z3.Function("val_" + name, *([z3.IntSort()] * nd + [rng]))
        blank = None
        if with_nan:
            nf = z3.Function("nan_" + name, *([z3.IntSort()] * nd + [z3.BoolSort()]))
            blank = lambda idx: Sym(nf(*[zint(i) for i in idx]))
        return SArr(name, shape, lambda idx: Sym(f(*[zint(i) for i in idx])), blank)

    @staticmethod
    def _norm(idx):
        return tuple(Sym(i) if z3.is_expr(i) else i for i in idx)

    def at(self, idx):
        idx = SArr._norm(idx)
        v = self.elem(idx)
        for cond, val, _ in self.writes:
            c = cond(idx)
            if c is True:
                v = val(idx)
            elif c is False:
                continue
            else:
                v = ite(c, val(idx), v)
        return v

    def isnan(self, idx):
        idx = SArr._norm(idx)
        n = self.blank0(idx) if self.blank0 is not None else False
        for cond, _, nanf in self.writes:
            c = cond(idx)
            w = nanf(idx)
            if c is True:
                n = w
            elif c is False:
                continue
            else:
                n = Or(And(c, w), And(Not(c), n))
        return n

    def derived(self, name, shape, elem, nanf):
        return SArr(name, shape, elem, nanf)

    def getattr_(self, ctx, name):
        if name == 'reshape':
            def reshape(c, *shape):
                if len(shape) == 1 and isinstance(shape[0], tuple):
                    shape = shape[0]
                base = self.snapshot()
                if len(self.shape_) == 1 and len(shape) == 2:
                    tot = shape[0] * shape[1]
                    c.oblige("safe", "reshape_size_matches.L%d" % c.cur_line, self.shape_[0] == tot)
                    ncols = shape[1]
                    return SArr(self.name + ".reshape", shape, lambda idx: base.at((idx[0] * ncols + idx[1],)),
                                lambda idx: base.isnan((idx[0] * ncols + idx[1],)))
                if len(self.shape_) == 2 and len(shape) == 2 and shape[0] == -1 and shape[1] == self.shape_[1]:
                    return base
                if len(self.shape_) == 2 and len(shape) == 2 and shape[0] == -1 and isinstance(self.shape_[1], int):
                    raise Undecided("reshape((-1, %r)) of an (n, %r) array" % (shape[1], self.shape_[1]))
                raise Undecided("reshape %r -> %r" % (self.shape_, shape))
            return Model(reshape, 'ndarray.reshape')
        if name in ('transpose', 'T') and len(self.shape_) == 2:
            base = self

            def mk():
                t = SArr(self.name + ".T", (self.shape_[1], self.shape_[0]), lambda idx: base.at((idx[1], idx[0])),
                         lambda idx: base.isnan((idx[1], idx[0])))
                return t
            return Model(lambda c: mk(), 'ndarray.transpose') if name == 'transpose' else mk()
        if name in ('ravel', 'flatten'):
            def ravel(c, *a):
                base = self.snapshot()
                if len(base.shape_) == 1:
                    return base
                if len(base.shape_) != 2:
                    raise Undecided("ravel of rank %d" % len(base.shape_))
                nc = base.shape_[1]
                flat = SArr(self.name + ".ravel", (base.shape_[0] * nc,),
                            lambda idx: base.at((idx[0] // nc, idx[0] % nc)), lambda idx: base.isnan((idx[0] // nc, idx[0] % nc)))
                if getattr(self, 'mgrid', None) is not None:
                    flat.mgrid_flat = self.mgrid
                    gid, los, shp, ax = self.mgrid
                    # value as a function of the 2-d cell (r, c) of the grid box -- avoids div/mod on the flat index
                    flat.g2 = (gid, (lambda r, c, ax=ax: r if ax == 0 else c), (lambda r, c: False))
                return flat
            return Model(ravel, 'ndarray.ravel')
        if name == 'shape':
            return self.shape_
        if name == 'ndim':
            return len(self.shape_)
        if name == 'size':
            r = 1
            for s in self.shape_:
                r = r * s
            return r
        if name == 'copy':
            return Model(lambda c: self.snapshot(), 'ndarray.copy')
        if name == 'astype':
            def astype(c, dtype=None, *a, **k):
                nm = getattr(dtype, 'name', dtype)
                if isinstance(nm, str) and 'float32' in nm:
                    # single precision: every value moves by a relative error of at most 2^-24
                    b = self.snapshot()
                    ERR = z3.Function(uid("f32err"), *([z3.IntSort()] * len(b.shape_) + [z3.RealSort()]))
                    eps = z3.RealVal(1) / (2 ** 24)

                    def elem(idx):
                        d = ERR(*[zint(i) for i in idx])
                        c.assume(z3.And(d >= -eps, d <= eps)) if False else None
                        return b.at(idx) * Sym(1 + z3.If(d > eps, eps, z3.If(d < -eps, -eps, d)), True)
                    return SArr(uid("float32"), b.shape_, elem, lambda idx: b.isnan(idx))
                return self.snapshot()
            return Model(astype, 'ndarray.astype')
        if name == 'dtype':
            return Opaque('dtype')
        raise PyRaise(ExcValue('AttributeError', ('ndarray.%s' % name,)))

    def snapshot(self):
        if getattr(self, 'view_of', None) is not None:
            # freeze the array this view reads through
            base, fi = self.view_of
            b = base.snapshot()
            fv = SArr(self.name + "'", self.shape_, lambda idx: b.at(fi(idx)), lambda idx: b.isnan(fi(idx)))
            fv.writes = []
            return fv
        frozen = SArr(self.name + "'", self.shape_, self.elem, self.blank0)
        frozen.writes = list(self.writes)
        for k_, v_ in self.__dict__.items():
            if k_ not in ('name', 'shape_', 'elem', 'writes', 'blank0', 'view_of', 'view_axes'):
                setattr(frozen, k_, v_)
        return frozen

    def len_(self, ctx):
        return self.shape_[0]

    def fingerprint_(self):
        return ('ndarray', len(self.writes), id(self.elem)), []

    def zip_(self, ctx, xs):
        if all(isinstance(x, SArr) and len(x.shape_) == 1 for x in xs):
            return ZipArr(list(xs))
        cols = [ctx.interp.iterate(x) for x in xs]
        return [tuple(t) for t in zip(*cols)]

    def _axes(self, ctx, key):
        if not isinstance(key, tuple):
            key = (key,)
        if len(key) > len(self.shape_):
            raise PyRaise(ExcValue('IndexError', ('too many indices',)))
        key = key + (slice(None),) * (len(self.shape_) - len(key))
        axes = []
        for k, n in zip(key, self.shape_):
            if isinstance(k, slice):
                axes.append(slice_axis(ctx, k, n))
            elif isinstance(k, (int, Sym)) and not isinstance(k, bool):
                axes.append(index_axis(ctx, k, n))
            elif isinstance(k, list) and all(isinstance(v, int) for v in k):
                for v in k:
                    index_axis(ctx, v, n)
                axes.append(Pick(k))
            elif isinstance(k, SArr) and len(k.shape_) == 1:
                axes.append(('mask', k.snapshot()))
            else:
                raise Undecided("array index kind %s (%r) at line %s" % (type(k).__name__, k, getattr(ctx, "cur_line", "?")))
        return axes

    def _grid_key(self, key):
        """key = (x, y) raveled coordinate arrays of one np.mgrid (optionally selected by the same np.where): returns
        (los, shp, cond) describing the box of cells they enumerate, else None"""
        if not (isinstance(key, tuple) and len(key) == 2 and len(self.shape_) == 2):
            return None
        ks = []
        for k in key:
            sel = None
            if isinstance(k, Selected):
                sel, k = k.sel, k.base
            g = getattr(k, 'mgrid_flat', None)
            if g is None:
                return None
            ks.append((g, sel))
        (g0, s0), (g1, s1) = ks
        if g0[0] != g1[0] or g0[3] != 0 or g1[3] != 1 or (s0 is not s1):
            return None
        return g0[1], g0[2], s0

    def getitem_(self, ctx, key):
        if isinstance(key, tuple) and len(key) == 1 and isinstance(key[0], WhereSel):
            key = key[0]
        if isinstance(key, WhereSel):
            return Selected(self, key)
        gk = self._grid_key(key)
        if gk is not None:
            los, shp, sel = gk
            if sel is not None:
                raise Undecided("gather through an np.where selection")
            base = self.snapshot()        # advanced indexing copies
            nc = shp[1]
            ga = SArr(self.name + "[grid]", (shp[0] * nc,),
                      lambda idx: base.at((los[0] + idx[0] // nc, los[1] + idx[0] % nc)),
                      lambda idx: base.isnan((los[0] + idx[0] // nc, los[1] + idx[0] % nc)))
            gid = key[0].mgrid_flat[0]
            ga.g2 = (gid, (lambda rr, cc: base.at((rr, cc))), (lambda rr, cc: base.isnan((rr, cc))))
            return ga
        axes = self._axes(ctx, key)
        if any(isinstance(a, tuple) for a in axes):
            raise Undecided("boolean-mask selection (result length is data dependent)")
        vshape = tuple(a.count for a in axes if isinstance(a, (Axis, Pick)))
        base = self

        def full_index(idx):
            it = iter(idx)
            full = []
            for a in axes:
                full.append(a.at(next(it)) if isinstance(a, (Axis, Pick)) else a)
            return tuple(full)
        if not vshape:
            v = base.at(full_index(()))
            if ctx.truth(base.isnan(full_index(()))) if base.blank0 is not None or base.writes else False:
                from pyvc.values import NaN as _NaN
                return _NaN
            return v
        if any(isinstance(a, Pick) for a in axes):
            base = self.snapshot()        # advanced indexing copies
            return SArr(self.name + "[picked]", vshape, lambda idx: base.at(full_index(idx)),
                        lambda idx: base.isnan(full_index(idx)))
        # numpy basic slices are views: reads through this object see later writes to the base; writes go to the base
        v = SArr(self.name + "[view]", vshape, lambda idx: base.at(full_index(idx)),
                 lambda idx: base.isnan(full_index(idx)))
        v.view_of = (base, full_index)
        v.view_axes = axes
        return v

    def iter_(self, ctx):
        n = self.shape_[0]
        if isinstance(n, int):
            return [self.getitem_(ctx, k) for k in range(n)]
        raise Undecided("iteration over an array of symbolic length")

    def setitem_(self, ctx, key, value):
        gk = self._grid_key(key)
        if gk is not None:
            # scatter over the (distinct) cells of an mgrid box: cell (i, j) <- value[(i-lo0)*ncols + (j-lo1)]
            los, shp, sel = gk
            nc = shp[1]
            ctx.oblige("safe", "grid_index_in_range.L%d" % ctx.cur_line,
                       And(los[0] >= 0, los[1] >= 0, los[0] + shp[0] <= self.shape_[0], los[1] + shp[1] <= self.shape_[1]))
            src = value.snapshot() if isinstance(value, SArr) else None
            isn = isinstance(value, NaNType)
            if src is not None and sel is None:
                ctx.oblige("safe", "grid_value_length_matches.L%d" % ctx.cur_line, src.shape_[0] == shp[0] * nc)
            flat = lambda idx: (idx[0] - los[0]) * nc + (idx[1] - los[1])
            gid = None
            for kk in key:
                base_k = kk.base if isinstance(kk, Selected) else kk
                gid = getattr(base_k, 'mgrid_flat', (None,))[0]
            sg2 = getattr(value, 'g2', None) if isinstance(value, SArr) else None
            if sg2 is not None and sg2[0] != gid:
                sg2 = None
            cg2 = getattr(sel.cond, 'g2', None) if sel is not None else None
            if cg2 is not None and cg2[0] != gid:
                cg2 = None
            inbox = lambda idx: And(idx[0] >= los[0], idx[0] < los[0] + shp[0], idx[1] >= los[1], idx[1] < los[1] + shp[1])
            if sel is None:
                cond = lambda idx: inbox(idx)
            elif cg2 is not None:
                cond = lambda idx: And(inbox(idx), cg2[1](idx[0], idx[1]))
            else:
                cond = lambda idx: And(inbox(idx), sel.cond.at((flat(idx),)))
            if src is not None and sel is not None:
                raise Undecided("array scattered through an np.where selection")
            if src is not None and sg2 is not None:
                self._push_write(cond, lambda idx: sg2[1](idx[0], idx[1]), lambda idx: sg2[2](idx[0], idx[1]))
            else:
                self._push_write(cond, (lambda idx: src.at((flat(idx),))) if src is not None else (lambda idx: 0 if isn else value),
                                 (lambda idx: src.isnan((flat(idx),))) if src is not None else (lambda idx: isn))
            return
        if isinstance(key, SArr) and len(key.shape_) == len(self.shape_):
            # boolean mask assignment a[mask] = scalar
            ctx.oblige("safe", "mask_shape_matches.L%d" % ctx.cur_line,
                       And(*[a == b for a, b in zip(key.shape_, self.shape_)]))
            m = key.snapshot()
            isn = isinstance(value, NaNType)
            if isinstance(value, (SArr, PyObj)):
                raise Undecided("boolean mask assignment of an array")
            self._push_write(lambda idx: m.at(idx), lambda idx: (0 if isn else value), lambda idx: isn)
            return
        axes = self._axes(ctx, key)
        vshape = tuple(a.count for a in axes if isinstance(a, (Axis, Pick)))
        if isinstance(value, SArr):
            nmask = sum(1 for a in axes if isinstance(a, tuple))
            if nmask:
                raise Undecided("array assigned through a boolean mask")
            if len(value.shape_) != len(vshape):
                raise Undecided("broadcast assignment between different ranks")
            ctx.oblige("safe", "slice_shapes_match.L%d" % ctx.cur_line,
                       And(*[a == b for a, b in zip(value.shape_, vshape)]))
            src = value.snapshot()
        else:
            src = None
            if isinstance(value, PyObj):
                raise Undecided("assignment of %s into an array" % type(value).__name__)

        def cond(idx):
            cs = []
            for a, i in zip(axes, idx):
                if isinstance(a, Axis):
                    if isinstance(a.step, int) and a.step == 1:
                        cs.append(And(i >= a.start, i < a.start + a.count))
                    else:
                        cs.append(And(i >= a.start, (i - a.start) % a.step == 0,
                                      (i - a.start) // a.step < a.count))
                elif isinstance(a, Pick):
                    cs.append(a.position_of(i)[0])
                elif isinstance(a, tuple):
                    cs.append(a[1].at((i,)))
                else:
                    cs.append(i == a)
            return And(*cs)

        def src_index(idx):
            vi = []
            for a, i in zip(axes, idx):
                if isinstance(a, Axis):
                    vi.append((i - a.start) // a.step if not (isinstance(a.step, int) and a.step == 1) else i - a.start)
                elif isinstance(a, Pick):
                    vi.append(a.position_of(i)[1])
            return tuple(vi)
        isn = isinstance(value, NaNType)

        def val(idx):
            if src is None:
                return 0 if isn else value
            return src.at(src_index(idx))

        def nanf(idx):
            if src is None:
                return isn
            return src.isnan(src_index(idx))
        self._push_write(cond, val, nanf)

    def _push_write(self, cond, val, nanf):
        """record a write; a basic-slice view writes through to its base"""
        if getattr(self, 'view_of', None) is None:
            self.writes.append((cond, val, nanf))
            return
        base, _ = self.view_of
        axes = self.view_axes

        def to_view(bidx):
            """(membership condition, view index) of a base index"""
            cs, vi = [], []
            for a, i in zip(axes, bidx):
                if isinstance(a, Axis):
                    if isinstance(a.step, int) and a.step == 1:
                        cs.append(And(i >= a.start, i < a.start + a.count))
                        vi.append(i - a.start)
                    else:
                        cs.append(And(i >= a.start, (i - a.start) % a.step == 0, (i - a.start) // a.step < a.count))
                        vi.append((i - a.start) // a.step)
                else:
                    cs.append(i == a)
            return And(*cs), tuple(vi)
        base._push_write(lambda bidx: And(to_view(bidx)[0], cond(to_view(bidx)[1])),
                         lambda bidx: val(to_view(bidx)[1]), lambda bidx: nanf(to_view(bidx)[1]))

    def map_(self, ctx, f):
        base = self.snapshot()
        r = SArr(uid("map"), self.shape_, lambda idx: f(base.at(idx)), lambda idx: base.isnan(idx))
        g2 = getattr(self, 'g2', None)
        if g2 is not None:
            r.g2 = (g2[0], (lambda rr, cc: f(g2[1](rr, cc))), g2[2])
        return r

    def binop_(self, ctx, op, other, swapped):
        import operator
        ops = {'add': operator.add, 'sub': operator.sub, 'mul': operator.mul, 'truediv': operator.truediv,
               'floordiv': operator.floordiv, 'mod': operator.mod, 'pow': operator.pow,
               'Lt': operator.lt, 'LtE': operator.le, 'Gt': operator.gt, 'GtE': operator.ge,
               'Eq': operator.eq, 'NotEq': operator.ne}
        inplace = op.startswith('i') and (op[1:] in ops or op[1:] in ('and', 'or'))
        name = op[1:] if inplace else op
        if name == 'neg':
            b = self.snapshot()
            return SArr(uid("neg"), self.shape_, lambda idx: -b.at(idx), lambda idx: b.isnan(idx))
        if name == 'invert':
            b = self.snapshot()
            return SArr(uid("not"), self.shape_, lambda idx: Not(b.at(idx)))
        if name in ('and', 'or') and isinstance(other, SArr) and len(other.shape_) == len(self.shape_):
            a_, o_ = self.snapshot(), other.snapshot()
            ctx.oblige("safe", "operand_shapes_match.L%d" % ctx.cur_line,
                       And(*[x == y for x, y in zip(self.shape_, other.shape_)]))
            comb = And if name == 'and' else Or
            res = SArr(uid(name), self.shape_, lambda idx: comb(a_.at(idx), o_.at(idx)))
            if inplace:
                self.elem, self.blank0, self.writes = res.elem, None, []
                return self
            return res
        if name not in ops:
            return NotImplemented
        f = ops[name]
        a = self.snapshot()
        cmpop = name[0].isupper()
        if isinstance(other, SArr):
            if len(other.shape_) != len(self.shape_):
                raise Undecided("broadcast between different ranks")
            ctx.oblige("safe", "operand_shapes_match.L%d" % ctx.cur_line,
                       And(*[x == y for x, y in zip(self.shape_, other.shape_)]))
            o = other.snapshot()
            g = (lambda idx: f(o.at(idx), a.at(idx))) if swapped else (lambda idx: f(a.at(idx), o.at(idx)))
            nf = lambda idx: Or(a.isnan(idx), o.isnan(idx))
        elif isinstance(other, (int, float, Sym)) or hasattr(other, 'numerator'):
            g = (lambda idx: f(other, a.at(idx))) if swapped else (lambda idx: f(a.at(idx), other))
            nf = lambda idx: a.isnan(idx)
        elif isinstance(other, NaNType):
            g = lambda idx: 0
            nf = lambda idx: True
        else:
            return NotImplemented
        if cmpop:
            # comparisons with NaN are False (True for !=)
            g0 = g
            g = (lambda idx: Or(g0(idx), nf(idx))) if name == 'NotEq' else (lambda idx: And(g0(idx), Not(nf(idx))))
            res = SArr(uid(name), self.shape_, g)
        else:
            res = SArr(uid(name), self.shape_, g, nf)
        # grid-cell form of the result (only when every array operand lives on the same mgrid box)
        ga = getattr(self, 'g2', None)
        if ga is not None:
            if isinstance(other, SArr):
                gb = getattr(other, 'g2', None)
                if gb is not None and gb[0] == ga[0]:
                    h = (lambda rr, cc: f(gb[1](rr, cc), ga[1](rr, cc))) if swapped else (lambda rr, cc: f(ga[1](rr, cc), gb[1](rr, cc)))
                    hn = lambda rr, cc: Or(ga[2](rr, cc), gb[2](rr, cc))
                    res.g2 = (ga[0], h, hn)
            elif not isinstance(other, NaNType):
                h = (lambda rr, cc: f(other, ga[1](rr, cc))) if swapped else (lambda rr, cc: f(ga[1](rr, cc), other))
                res.g2 = (ga[0], h, ga[2])
            if cmpop and getattr(res, 'g2', None) is not None:
                h0, hn0 = res.g2[1], res.g2[2]
                res.g2 = (res.g2[0], ((lambda rr, cc: Or(h0(rr, cc), hn0(rr, cc))) if name == 'NotEq'
                                     else (lambda rr, cc: And(h0(rr, cc), Not(hn0(rr, cc))))), (lambda rr, cc: False))
        if inplace:
            self.elem, self.blank0, self.writes = res.elem, res.blank0, []
            if getattr(res, 'g2', None) is not None:
                self.g2 = res.g2
            elif hasattr(self, 'g2'):
                del self.g2
            return self
        return res


class WhereSel(PyObj):
    """np.where(cond1d)[0]: the (data dependent) list of selected positions, kept as the condition itself"""

    def __init__(self, cond):
        self.cond = cond


class Selected(PyObj):
    """base[np.where(cond)]"""

    def __init__(self, base, sel):
        self.base, self.sel = base, sel


def np_where3(c, cond, a, b):
    """np.where(cond, a, b): pointwise selection (values and NaN flags)"""
    if not isinstance(cond, SArr):
        raise Undecided("np.where condition")
    cs = cond.snapshot()

    def val(x, idx):
        if isinstance(x, SArr):
            return x.at(idx), x.isnan(idx)
        if isinstance(x, NaNType):
            return 0, True
        return x, False
    A = a.snapshot() if isinstance(a, SArr) else a
    B = b.snapshot() if isinstance(b, SArr) else b
    return SArr(uid("where"), cs.shape_, lambda idx: ite(cs.at(idx), val(A, idx)[0], val(B, idx)[0]),
                lambda idx: Or(And(cs.at(idx), val(A, idx)[1]), And(Not(cs.at(idx)), val(B, idx)[1])))


def np_where1(ctx, cond, *ab):
    if len(ab) == 2:
        return np_where3(ctx, cond, ab[0], ab[1])
    if isinstance(cond, SArr) and len(cond.shape_) == 1:
        return (WhereSel(cond.snapshot()),)
    raise Undecided("np.where on an unmodelled argument")


class ZipArr(PyObj):
    """zip(a, b, ...) of 1-d arrays of equal symbolic length; list(...) keeps it; np.array(...) makes an (n, k) array"""

    def __init__(self, arrs):
        self.arrs = arrs

    def tolist_(self, ctx):
        return self

    def iter_(self, ctx):
        n = self.arrs[0].shape_[0]
        if isinstance(n, int):
            return [tuple(a.at((k,)) for a in self.arrs) for k in range(n)]
        raise Undecided("iteration over a zip of arrays of symbolic length")

    def to_array(self, ctx):
        arrs = [a.snapshot() for a in self.arrs]
        n = arrs[0].shape_[0]
        for a in arrs[1:]:
            ctx.assume(a.shape_[0] == n) if False else None
        k = len(arrs)

        def pick(fn):
            def elem(idx):
                c = idx[1]
                if isinstance(c, int):
                    return fn(arrs[c], (idx[0],))
                r = fn(arrs[k - 1], (idx[0],))
                for q in range(k - 2, -1, -1):
                    r = ite(c == q, fn(arrs[q], (idx[0],)), r) if not isinstance(r, bool) or True else r
                return r
            return elem
        return SArr(uid("zipped"), (n, k), pick(lambda a, i: a.at(i)), pick(lambda a, i: a.isnan(i)))


def np_arange(ctx, *a):
    if len(a) == 1:
        start, stop = 0, a[0]
    elif len(a) == 2:
        start, stop = a
    else:
        raise Undecided("np.arange with step")
    n = stop - start
    n = ite(n > 0, n, 0) if isinstance(n, Sym) else max(n, 0)
    return SArr(uid("arange"), (n,), lambda idx: Sym(zint(start + idx[0])) if isinstance(start + idx[0], Sym) else start + idx[0])


class MGrid(PyObj):
    def getitem_(self, ctx, key):
        if not isinstance(key, tuple):
            key = (key,)
        shp = []
        los = []
        for k in key:
            if not isinstance(k, slice) or k.step is not None:
                raise Undecided("np.mgrid with step / non-slice")
            lo = 0 if k.start is None else k.start
            n = k.stop - lo
            shp.append(ite(n > 0, n, 0) if isinstance(n, Sym) else max(n, 0))
            los.append(lo)
        out = []
        gid = uid("grid")
        for ax in range(len(key)):
            a = SArr(uid("mgrid%d_" % ax), tuple(shp), (lambda ax: lambda idx: los[ax] + idx[ax])(ax))
            a.mgrid = (gid, tuple(los), tuple(shp), ax)
            out.append(a)
        return tuple(out) if len(out) > 1 else out[0]


def np_empty(ctx, shape, *a, **k):
    if not isinstance(shape, tuple):
        shape = (shape,)
    return SArr.fresh(uid("empty"), shape)


def np_zeros(ctx, shape, *a, **k):
    if not isinstance(shape, tuple):
        shape = (shape,)
    return SArr(uid("zeros"), shape, lambda idx: 0)


def np_array(ctx, x, *a, **k):
    from pyvc.engine import LazyList
    if isinstance(x, SArr):
        return x.snapshot()
    if isinstance(x, ZipArr):
        return x.to_array(ctx)
    if isinstance(x, (list, tuple)) and x and all(isinstance(v, (int, float, Sym)) and not isinstance(v, bool) for v in x):
        vals = list(x)

        def el(idx):
            i = idx[0]
            if isinstance(i, int):
                return vals[i]
            r = vals[-1]
            for q in range(len(vals) - 2, -1, -1):
                r = ite(i == q, vals[q], r)
            return r
        return SArr(uid("vals"), (len(vals),), el)
    if isinstance(x, list) and x and all(isinstance(r, (tuple, list)) and all(isinstance(v, (int, float, Sym, NaNType)) for v in r) for r in x):
        rows = [tuple(r) for r in x]
        w = len(rows[0])

        def sel(fn):
            def elem(idx):
                i, c = idx
                def row(rw):
                    if isinstance(c, int):
                        return fn(rw[c])
                    r = fn(rw[w - 1])
                    for q in range(w - 2, -1, -1):
                        r = ite(c == q, fn(rw[q]), r)
                    return r
                if isinstance(i, int):
                    return row(rows[i])
                r = row(rows[-1])
                for q in range(len(rows) - 2, -1, -1):
                    r = ite(i == q, row(rows[q]), r)
                return r
            return elem
        return SArr(uid("rows"), (len(rows), w), sel(lambda v: 0 if isinstance(v, NaNType) else v),
                    sel(lambda v: isinstance(v, NaNType)))
    if isinstance(x, LazyList):
        n = x.len_(ctx)
        probe = x.at(Sym(z3.Int('probe_k')))
        if isinstance(probe, tuple):
            w = len(probe)

            def elem(idx):
                t = x.at(idx[0])
                c = idx[1]
                if isinstance(c, int):
                    return t[c]
                r = t[w - 1]
                for q in range(w - 2, -1, -1):
                    r = ite(c == q, t[q], r)
                return r
            return SArr(uid("listcomp"), (n, w), elem)
        return SArr(uid("listcomp"), (n,), lambda idx: x.at(idx[0]))
    return x


def np_bitwise_not(ctx, x):
    if isinstance(x, SArr):
        b = x.snapshot()
        return SArr(uid("not"), x.shape_, lambda idx: Not(b.at(idx)))
    if isinstance(x, Sym):
        return Not(x)
    if isinstance(x, bool):
        return not x
    raise Undecided("bitwise_not of %s" % type(x).__name__)


def np_squeeze(ctx, x, *a, **k):
    if isinstance(x, SArr):
        keep = [i for i, s in enumerate(x.shape_) if not (isinstance(s, int) and s == 1)]
        if len(keep) == len(x.shape_):
            return x
        base = x

        def elem(idx):
            it = iter(idx)
            return base.at(tuple(next(it) if i in keep else 0 for i in range(len(base.shape_))))
        return SArr(x.name + ".squeeze", tuple(x.shape_[i] for i in keep), elem)
    return x


def _small_indices(shape):
    import itertools
    if all(isinstance(n, int) for n in shape):
        tot = 1
        for n in shape:
            tot *= n
        if tot <= 64:
            return list(itertools.product(*[range(n) for n in shape]))
    return None


def np_any(ctx, x, axis=None, **kw):
    """np.any(a): exists a True cell.  Small concrete shapes are expanded; otherwise the truth value is decided by
    branching: True gives a witness index, False a universal fact (instantiated by oblige(at=[index tuples]))."""
    if isinstance(x, (bool, Sym)):
        return x
    if isinstance(x, (list, tuple)):
        return Or(*[v for v in x])
    if not isinstance(x, SArr):
        raise Undecided("np.any of %s" % type(x).__name__)
    b = x.snapshot()
    if axis is not None:
        if len(b.shape_) == 2 and axis in (0, 1):
            return AxisAny(ctx, b, axis)
        raise Undecided("np.any(axis=%r)" % (axis,))
    def truthy(idx):
        # numpy truth of a cell: booleans as they are; numbers are true when non-zero, NaN is true
        v = b.at(idx)
        if isinstance(v, bool) or (isinstance(v, Sym) and v.is_bool):
            return v
        nz = (v != 0)
        return Or(nz, b.isnan(idx))
    small = _small_indices(b.shape_)
    if small is not None:
        return Or(*[truthy(i) for i in small])
    if ctx.free_branch():
        w = tuple(ctx.fresh_int("any_w%d" % k) for k in range(len(b.shape_)))
        ctx.assume(And(*[And(wi >= 0, wi < n) for wi, n in zip(w, b.shape_)]))
        ctx.assume(truthy(w))
        ctx.ghost.setdefault('any_witness', []).append((x, w))
        return True
    shape = b.shape_
    ctx.ufacts.append(lambda t: Implies(And(*[And(ti >= 0, ti < n) for ti, n in zip(t, shape)]), Not(truthy(t)))
                      if isinstance(t, tuple) and len(t) == len(shape) else True)
    return False


def np_all(ctx, x, axis=None, **kw):
    if isinstance(x, (bool, Sym)):
        return x
    if isinstance(x, (list, tuple)):
        return And(*[v for v in x])
    if not isinstance(x, SArr) or axis is not None:
        raise Undecided("np.all of %s" % type(x).__name__)
    b = x.snapshot()
    small = _small_indices(b.shape_)
    if small is not None:
        return And(*[b.at(i) for i in small])
    neg = SArr(uid("notall"), b.shape_, lambda idx: Not(b.at(idx)))
    return not np_any(ctx, neg)


def AxisAny(ctx, b, axis):
    """np.any(a, axis): 1-d array; element j is an uninterpreted flag linked to a witness / universal fact"""
    other = 1 - axis
    n_keep, n_red = b.shape_[other], b.shape_[axis]
    F = z3.Function(uid("anyax"), z3.IntSort(), z3.BoolSort())
    Wt = z3.Function(uid("anyax_w"), z3.IntSort(), z3.IntSort())

    def cell(j, k):
        return b.at((k, j)) if axis == 0 else b.at((j, k))
    # F(j) -> cell(j, Wt(j)) with Wt(j) in range ;  cell(j,k) -> F(j)
    res = SArr(uid("any_axis%d" % axis), (n_keep,), lambda idx: Sym(F(Sym.lift(idx[0]))))
    res.any_link = (F, Wt, cell, n_red)
    ctx.ufacts.append(lambda t: And(Implies(Sym(F(Sym.lift(t[0]))),
                                            And(Sym(Wt(Sym.lift(t[0]))) >= 0, Sym(Wt(Sym.lift(t[0]))) < n_red,
                                                cell(t[0], Sym(Wt(Sym.lift(t[0])))))),
                                    Implies(And(t[1] >= 0, t[1] < n_red, cell(t[0], t[1])), Sym(F(Sym.lift(t[0])))))
                      if isinstance(t, tuple) and len(t) == 2 and t and t[0] is not None and getattr(t, 'tag', 'axis') else True)
    return res


def np_nan_to_num(ctx, x, *a, **k):
    if isinstance(x, SArr):
        b = x.snapshot()
        return SArr(uid("nan_to_num"), b.shape_, lambda idx: ite(b.isnan(idx), 0, b.at(idx)))
    if isinstance(x, NaNType):
        return 0.0
    return x


def np_isnan(ctx, x):
    if isinstance(x, SArr):
        b = x.snapshot()
        return SArr(uid("isnan"), b.shape_, lambda idx: b.isnan(idx))
    if isinstance(x, NaNType):
        return True
    if isinstance(x, (int, float, Sym)):
        return False
    raise Undecided("np.isnan of %s" % type(x).__name__)


def np_isfinite_arr(ctx, x):
    if isinstance(x, SArr):
        b = x.snapshot()
        return SArr(uid("isfinite"), b.shape_, lambda idx: Not(b.isnan(idx)))
    from pyvc import lib
    return lib.m_isfinite(ctx, x)
