"""C03 — every output catalogue is internally consistent (AegeanTools/source_finder.py, fitting.py).

Clauses decided (each as obligations on the real code):
  fix_shape: afterwards a >= b, the ellipse is the same (swap <=> pa + 90, errors swapped with the axes);
  pa_limit: result in (-90, 90], congruent to the input mod 180, both while loops terminate (variant);
  result_to_components (component loop, any number of components, loop invariant + generic iteration):
     component j is numbered (island = the island number handed in, source = j), a >= b, -90 < pa <= 90, 0 <= ra < 360,
     flags use only the seven documented bits, int_flux * beam_area_pix = peak * (sx k)(sy k) pi, ra_str / dec_str are
     dec2hms(ra) / dec2dms(dec) of the stored decimals, psf columns filled; indices into the bkg/rms cut-outs are in range;
  errors (every path): each of the seven uncertainties is -1 or positive finite, given finite inputs;
  priorized island numbers: the numbers used over all batches of 20 groups are pairwise distinct;
  blind island numbers: strictly increasing (loop invariant), hence distinct;
  island pixels / bounding box / mask = the detected pixels: the find_islands contract of contracts/c02.py, re-run here.
NOT decided: "completes on every valid image" (third-party exceptions), run-to-run reproducibility, the 1 % pixel-vs-sky
ratio behind int_flux = peak*a*b/(psf_a*psf_b), island-row pixel counts / peak pixel (native cross-check only).
"""
import ast

import z3

from pyvc.engine import (Ctx, PyObj, Model, Namespace, Obj, run_function, run_stmts, find_function, Closure, Env, Undecided,
                         PyRaise, ExcValue, ExcClass, LoopSpec, ClassModel, Instance, SymList, SeqList, seq_len, seq_at,
                         Opaque, unparse, module_constant)
from pyvc.values import Sym, And, Or, Not, Implies, ite, NaN, NaNType
from pyvc import lib
from contracts.models import Params, FlagWord, PNAMES
from contracts.arrays import SArr, np_array, reset_uids, uid, np_all, np_any, np_isfinite_arr

PROPERTY = "C03"
FILE = "AegeanTools/source_finder.py"
FFILE = "AegeanTools/fitting.py"
MFILE = "AegeanTools/models.py"
ALLFLAGS = 0x7F

ASSUMPTIONS = [
    "WCSHelper.pix2sky_ellipse / pix2sky return finite (ra in (-360, 360), dec, a > 0, b > 0, pa) or NaNs; get_beamarea_pix > 0 "
    "(C16 contracts); gcd(p, q) > 0 for the distinct positions used in errors(), bear finite; dec2hms / dec2dms by their C17 contracts",
    "errors(): the bearings of the two offset positions used for err_pa differ (err_theta is not a multiple of 360 deg); "
    "parameter values are finite floats; stderr may be None/NaN/any real (covar_errors hands out -2 on a singular matrix)",
    "'fitting completes on every valid image' and run-to-run reproducibility are NOT decided (third-party code)",
    "int_flux = peak*a*b/(psf_a*psf_b) 'to 1 %': proved in pixel units (exact); the pixel<->sky ratio is assumed",
    "island rows (pixel count, peak pixel, extent) are only cross-checked natively",
    "floats as reals",
]

R = z3.RealSort()


def sym(n):
    return Sym(z3.Real(n), True)


# ---------------------------------------------------------------------------
# T1  fix_shape / pa_limit
# ---------------------------------------------------------------------------

def t_fix_shape(ctx):
    src = Obj('src', a=sym('a'), b=sym('b'), pa=sym('pa'), err_a=sym('err_a'), err_b=sym('err_b'))
    a0, b0, pa0, ea0, eb0 = [src.fields[k] for k in ('a', 'b', 'pa', 'err_a', 'err_b')]
    out = run_function(ctx, FILE, 'fix_shape', [src], globals_={})
    f = src.fields
    ctx.oblige("post", "fix_shape.a_ge_b", f['a'] >= f['b'])
    swapped = a0 < b0
    ctx.oblige("post", "fix_shape.same_ellipse",
               And(Implies(swapped, And(f['a'] == b0, f['b'] == a0, f['pa'] == pa0 + 90, f['err_a'] == eb0, f['err_b'] == ea0)),
                   Implies(Not(swapped), And(f['a'] == a0, f['b'] == b0, f['pa'] == pa0, f['err_a'] == ea0, f['err_b'] == eb0))))


def pa_loops(ctx, pa0):
    def cong(pa):
        return Sym(z3.IsInt((Sym.lift(pa) - Sym.lift(pa0)) / 180))

    def inv1(c, env, k):
        if isinstance(env.lookup('pa'), NaNType):
            return []
        return [("congruent_mod_180", cong(env.lookup('pa')))]

    def inv2(c, env, k):
        pa = env.lookup('pa')
        if isinstance(pa, NaNType):
            return []
        return [("congruent_mod_180", cong(pa)), ("above_minus_90", pa > -90)]

    def var1(c, env):
        pa = env.lookup('pa')
        return ite(pa <= -90, Sym(z3.ToInt((-90 - Sym.lift(pa)) / 180)) + 1, 0)

    def var2(c, env):
        pa = env.lookup('pa')
        return ite(pa > 90, Sym(-z3.ToInt(-(Sym.lift(pa) - 90) / 180)), 0)
    def hv(c, env):      # NaN +- 180 stays NaN; a number stays a number
        return env.lookup('pa') if isinstance(env.lookup('pa'), NaNType) else c.fresh_real('pa')
    ctx.interp.loops["while pa <= -90"] = LoopSpec(inv1, decreases=var1, label="raise_to_range", types={'pa': hv})
    ctx.interp.loops["while pa > 90"] = LoopSpec(inv2, decreases=var2, label="lower_to_range", types={'pa': hv})


def t_pa_limit(ctx):
    pa0 = sym('pa0')
    pa_loops(ctx, pa0)
    out = run_function(ctx, FILE, 'pa_limit', [pa0], globals_={})
    if out.kind != 'return' or not isinstance(out.value, Sym):
        ctx.oblige("post", "pa_limit.returns_angle", False)
        return
    r = out.value
    ctx.oblige("post", "pa_limit.range_and_congruent_mod_180",
               And(r > -90, r <= 90, Sym(z3.IsInt((r.e - pa0.e) / 180))))
    nan = run_function(ctx, FILE, 'pa_limit', [NaN], globals_={})
    ctx.oblige("post", "pa_limit.nan_passes_through", nan.kind == 'return' and isinstance(nan.value, NaNType))


# ---------------------------------------------------------------------------
# T2  result_to_components: the component loop
# ---------------------------------------------------------------------------

KAPPA = z3.Real('CC2FHWM')
E2S = {k: z3.Function('e2s_' + k, z3.IntSort(), R) for k in ('ra', 'dec', 'a', 'b', 'pa')}
BAPIX = z3.Function('beamarea_pix_at', R, R, R)      # beam area in pixels at a sky position
ERRV = {k: z3.Function('errv_' + k, z3.IntSort(), R) for k in ('err_peak_flux', 'err_a', 'err_b', 'err_pa', 'err_ra', 'err_dec',
                                                                'err_int_flux')}


class CompList(SymList):
    def __init__(self, ctx, checker):
        base = SymList.fresh(ctx, "sources", sort='int')
        SymList.__init__(self, "sources", base.length, base.elem)
        self.checker = checker
        self.appended = 0

    def getattr_(self, ctx, name):
        if name == 'append':
            def app(c, s):
                self.checker(c, s)
                self.writes.append((self.length, c.fresh_int("stored_component")))
                self.length = self.length + 1
                self.appended += 1
            return Model(app, 'list.append')
        return SymList.getattr_(self, ctx, name)


def t_result_to_components(ctx):
    reset_uids()
    n = Sym(z3.Int('n'))
    ctx.assume(n >= 1)
    P = Params('P', n, split_stderr=False)
    fl = z3.Function('P_flags', z3.IntSort(), z3.BitVecSort(FlagWord.W))
    P.flagword = lambda i: FlagWord(fl(Sym.lift(i)))
    isflag, pre = FlagWord.fresh('isflags')
    ctx.assume(pre)
    wcs_nan = ctx.free_branch()
    isle_num = Sym(z3.Int('isle_num'))
    xmin, xmax, ymin, ymax = [Sym(z3.Int(k)) for k in ('xmin', 'xmax', 'ymin', 'ymax')]
    Rr, Cc = Sym(z3.Int('R')), Sym(z3.Int('C'))
    ctx.assume(And(xmin >= 0, xmin < xmax, xmax <= Rr, ymin >= 0, ymin < ymax, ymax <= Cc))
    cur = {}

    def m_p2s_ellipse(c, pix, sx, sy, theta):
        k = Sym.lift(cur['j'])
        c.ghost['p2s'] = (pix, sx, sy, theta)
        if wcs_nan:
            return (NaN, NaN, NaN, NaN, NaN)
        vals = [Sym(E2S[q](k), True) for q in ('ra', 'dec', 'a', 'b', 'pa')]
        c.assume(And(vals[0] > -360, vals[0] < 360, vals[2] > 0, vals[3] > 0, vals[1] >= -90, vals[1] <= 90))
        return tuple(vals)

    def m_errors(c, source, model, wcshelper):
        """contract of fitting.errors (verified separately): every uncertainty is -1 or positive"""
        k = Sym.lift(cur['j'])
        for q in ERRV:
            v = Sym(ERRV[q](k), True)
            c.assume(Or(v == -1, v > 0))
            source.fields[q] = v
        return source
    helper = Obj('WCSHelper')
    helper.methods['pix2sky_ellipse'] = lambda c, s, *a: m_p2s_ellipse(c, *a)
    helper.methods['pix2sky'] = lambda c, s, p: (sym('isl_ra'), sym('isl_dec'))
    psf = Obj('psfhelper')
    psf.methods['get_beamarea_pix'] = lambda c, s, ra, dec: _ba(c, ra, dec)
    psf.methods['get_skybeam'] = lambda c, s, ra, dec: (None if c.free_branch() else Obj('Beam', a=sym('lb_a'), b=sym('lb_b'), pa=sym('lb_pa')))
    rms = SArr.fresh("rmsimg", (Rr, Cc))
    bkg = SArr.fresh("bkgimg", (Rr, Cc))
    gd = Obj('GlobalFittingData', rmsimg=rms, bkgimg=bkg, wcshelper=helper, psfhelper=psf, blank=False, img=Opaque('img'))
    island_data = Obj('IslandFittingData', isle_num=isle_num, i=Opaque('idata'), offsets=(xmin, xmax, ymin, ymax),
                      scalars=(4, 4, None), doislandflux=False)
    result = Obj('result', residual=Opaque('residual'))
    menv = Env({'np': lib.std_np(nan=NaN), 'uuid': Namespace('uuid', uuid4=Model(lambda c: "uuid"))})
    cs_cls = ClassModel(MFILE, 'ComponentSource', menv)
    menv.vars['SimpleSource'] = ClassModel(MFILE, 'SimpleSource', menv)
    for m in list(cs_cls.methods) + ['SimpleSource.__init__']:
        ctx.interp.inline.add("ComponentSource." + m)
    ctx.interp.inline.update(['SimpleSource.__init__', 'fix_shape'])
    np_ = lib.std_np(median=Model(lambda c, x: sym('res_median')), std=Model(lambda c, x: sym('res_std')), inf=Opaque('inf'))
    flags_ns = Namespace('flags', FITERRSMALL=1, FITERR=2, FIXED2PSF=4, FIXEDCIRCULAR=8, NOTFIT=16, WCSERR=32, PRIORIZED=64)
    g = {'np': np_, 'ComponentSource': cs_cls, 'CC2FHWM': Sym(KAPPA, True), 'flags': flags_ns,
         'errors': Model(m_errors, 'errors'), 'dec2hms': Model(lambda c, v: ('hms', v)), 'dec2dms': Model(lambda c, v: ('dms', v)),
         }
    menv2 = Env(g)
    for fn in ('fix_shape', 'pa_limit'):
        g[fn] = Closure(find_function(FILE, fn), menv2, FILE, fn)
    sf_cls = ClassModel(FILE, 'SourceFinder', menv2)
    ctx.interp.inline.add("SourceFinder.result_to_components")
    me = Instance(sf_cls, global_data=gd, log=Namespace('log'))

    def check(c, s):
        j = cur['j']
        f = s.fields
        lab = "component"
        c.oblige("post", lab + ".numbered_island_and_position", And(f['island'] == isle_num, f['source'] == j))
        fw = f['flags']
        c.oblige("post", lab + ".flags_use_only_documented_bits",
                 fw.subset_of(ALLFLAGS) if isinstance(fw, FlagWord) else (isinstance(fw, int) and fw & ~ALLFLAGS == 0))
        pix, sx, sy, theta = c.ghost['p2s']
        P_ = lambda nm: P.f['value'](Sym.lift(j), z3.IntVal(PNAMES.index(nm)))
        c.oblige("post", lab + ".pixel_to_sky_call_uses_fits_offset_and_fwhm",
                 And(pix[0] == Sym(P_('xo')) + xmin + 1, pix[1] == Sym(P_('yo')) + ymin + 1,
                     sx == Sym(P_('sx')) * Sym(KAPPA, True), sy == Sym(P_('sy')) * Sym(KAPPA, True), theta == Sym(P_('theta'))))
        c.oblige("post", lab + ".peak_is_amp", f['peak_flux'] == Sym(P_('amp')))
        if not wcs_nan:
            c.oblige("post", lab + ".a_ge_b_positive", And(f['a'] >= f['b'], f['b'] > 0))
            c.oblige("post", lab + ".pa_in_range", And(f['pa'] > -90, f['pa'] <= 90))
            c.oblige("post", lab + ".ra_wrapped", And(f['ra'] >= 0, f['ra'] < 360))
            k = Sym.lift(j)
            c.oblige("post", lab + ".axes_in_arcsec_same_ellipse",
                     Or(And(f['a'] == Sym(E2S['a'](k)) * 3600, f['b'] == Sym(E2S['b'](k)) * 3600),
                        And(f['a'] == Sym(E2S['b'](k)) * 3600, f['b'] == Sym(E2S['a'](k)) * 3600)))
            c.oblige("post", lab + ".int_flux_formula",
                     f['int_flux'] * Sym(BAPIX(f['ra'].e, f['dec'].e)) == f['peak_flux'] * (sx * sy) * Sym(lib.PI, True), timeout_ms=30000)
            c.oblige("post", lab + ".flags_are_island_flags_or_component_flags",
                     Sym(fw.bv == (isflag.bv | fl(Sym.lift(j)))) if isinstance(fw, FlagWord) else False)
        else:
            c.oblige("post", lab + ".unprojectable_component_flagged_wcserr",
                     fw.has(32) if isinstance(fw, FlagWord) else (isinstance(fw, int) and fw & 32 != 0))
        c.oblige("post", lab + ".strings_are_sexagesimal_of_stored_decimals",
                 f['ra_str'] == ('hms', f['ra']) and f['dec_str'] == ('dms', f['dec'])
                 if isinstance(f['ra_str'], tuple) and isinstance(f['dec_str'], tuple) else False)
        errs_ok = And(*[Or(f[q] == -1, f[q] > 0) if isinstance(f[q], Sym) else (f[q] == -1 or (isinstance(f[q], (int, float)) and f[q] > 0))
                        for q in ERRV])
        c.oblige("post", lab + ".uncertainties_masked_or_positive", errs_ok)
        c.oblige("post", lab + ".psf_columns_filled", all(not isinstance(f[q], NaNType) for q in ('psf_a', 'psf_b', 'psf_pa')))

    def havoc(c, env):
        env.vars['sources'] = CompList(c, check)

    def before(c, env, k):
        cur['j'] = k
        c.assume(FlagWord(fl(Sym.lift(k))).subset_of(ALLFLAGS))    # precondition: component flag parameters hold documented bits
        if isinstance(env.lookup('sources'), CompList):
            env.lookup('sources').appended = 0

    def after(c, env, k):
        srcs = env.lookup('sources')
        if isinstance(srcs, CompList):
            c.oblige("post", "component.exactly_one_row_per_component", srcs.appended == 1)

    def inv(c, env, k):
        return [("one_row_per_component_so_far", Sym(Sym.lift(seq_len(env.lookup("sources"))) == Sym.lift(k)))]
    spec = LoopSpec(inv, havoc=havoc, label="components", modifies=lambda c, env: [env.vars['sources'], P],
                    types={'j': 'int', 'x': 'int', 'y': 'int'})
    spec.before_body, spec.after_body = before, after
    ctx.interp.loops["for j in range(*"] = spec
    _patch_pa_limit(ctx, g)
    try:
        res = ctx.interp.call(me.getattr_(ctx, 'result_to_components'), [result, P, island_data, isflag], {})
    except PyRaise as pr:
        ctx.oblige("safe", "result_to_components.no_exception", False)
        return
    ok = isinstance(res, SymList)
    ctx.oblige("post", "result_to_components.returns_the_component_rows", ok)
    if ok:
        ctx.oblige("post", "result_to_components.one_row_per_component", res.length == n)


def _ba(c, ra, dec):
    if isinstance(ra, NaNType) or isinstance(dec, NaNType):
        return c.fresh_real("beamarea_of_an_unprojectable_position")
    v = Sym(BAPIX(Sym.lift(ra), Sym.lift(dec)), True)
    c.assume(v > 0)
    return v


def _patch_pa_limit(ctx, g):
    """callers of pa_limit see its contract (proved in t_pa_limit), not its body"""
    def contract(c, pa):
        if isinstance(pa, NaNType):
            return pa
        r = c.fresh_real("pa_limited")
        c.assume(And(r > -90, r <= 90, Sym(z3.IsInt((r.e - Sym.lift(pa)) / 180))))
        return r
    g['pa_limit'] = Model(contract, 'pa_limit (contract)')


# ---------------------------------------------------------------------------
# T3  fitting.errors
# ---------------------------------------------------------------------------

def t_errors(ctx):
    P = Params('M', Sym(z3.Int('n')), split_stderr=True)
    jn = Sym(z3.Int('jsrc'))
    fw, pre = FlagWord.fresh('srcflags')
    ctx.assume(pre)
    src = Obj('ComponentSource', source=jn, flags=fw, peak_flux=sym('peak'), a=sym('a'), b=sym('b'), pa=sym('pa'),
              int_flux=sym('int_flux'), ra=sym('ra'), dec=sym('dec'))
    ctx.assume(And(src.fields['peak_flux'] != 0, src.fields['a'] > 0, src.fields['b'] > 0, src.fields['int_flux'] != 0))
    ref_nan = ctx.free_branch()
    npix = [0]

    def pix2sky(c, s, pixel):
        npix[0] += 1
        if ref_nan and npix[0] == 1:
            return [NaN, NaN]
        return [Sym(z3.Real(c._fresh('sky_ra')), True), Sym(z3.Real(c._fresh('sky_dec')), True)]
    helper = Obj('WCSHelper')
    helper.methods['pix2sky'] = pix2sky

    def m_gcd(c, *a):
        v = Sym(z3.Real(c._fresh('gcd')), True)
        c.assume(v > 0)
        return v

    bears = []

    def m_bear(c, *a):
        v = Sym(z3.Real(c._fresh('bear')), True)
        for w in bears:
            c.assume(v != w)       # assumed: the two offset positions used for err_pa have different bearings
        bears.append(v)
        return v
    flags_ns = Namespace('flags', FITERRSMALL=1, FITERR=2, FIXED2PSF=4, FIXEDCIRCULAR=8, NOTFIT=16, WCSERR=32, PRIORIZED=64)
    LN2 = sym('ln2')
    ctx.assume(And(LN2 > 0.693, LN2 < 0.6932))
    g = {'np': lib.std_np(isfinite=Model(np_isfinite_arr)), 'flags': flags_ns, 'ERR_MASK': Sym(z3.RealVal(-1), True),
         'gcd': Model(m_gcd), 'bear': Model(m_bear), 'log': Namespace('log'),
         'math': Namespace('math', sqrt=Model(lib.m_sqrt), log=Model(lambda c, v: LN2 if v == 2 else lib.m_log(c, v)))}
    g['ERR_MASK'] = -1.0
    out = run_function(ctx, FFILE, 'errors', [src, P, helper], globals_=g)
    if out.kind != 'return':
        ctx.oblige("safe", "errors.no_exception", False)
        return
    f = src.fields
    for q in ('err_peak_flux', 'err_a', 'err_b', 'err_pa', 'err_ra', 'err_dec', 'err_int_flux'):
        v = f.get(q)
        if isinstance(v, Sym):
            good = Or(v == -1, v > 0)
        elif isinstance(v, (int, float)) and not isinstance(v, bool):
            good = (v == -1 or v > 0)
        else:
            good = False          # NaN / None / missing
        ctx.oblige("post", "errors.each_error_masked_or_positive." + q, good, timeout_ms=30000)
    ctx.oblige("post", "errors.returns_the_source", out.value is src)


# ---------------------------------------------------------------------------
# T4  priorized island numbers
# ---------------------------------------------------------------------------

def t_priorized_numbers(ctx):
    """the island numbers handed to _refit_islands over all batches are pairwise distinct.
    From the source: group_size (the batch length bound, by the batching loop) and the `istart=` expression of the call."""
    fn = find_function(FILE, 'SourceFinder.priorized_fit_islands')
    gs = None
    call = None
    for node in ast.walk(fn):
        if isinstance(node, ast.Assign) and len(node.targets) == 1 and isinstance(node.targets[0], ast.Name) \
                and node.targets[0].id == 'group_size':
            gs = node.value
        if isinstance(node, ast.Call) and isinstance(node.func, ast.Attribute) and node.func.attr == '_refit_islands':
            call = node
    if gs is None or call is None:
        raise Undecided("priorized_fit_islands: batching constant or _refit_islands call not found")
    ctx.info = ctx.session.register_function(FILE, 'SourceFinder.priorized_fit_islands', fn, mode="region")
    it = ctx.interp
    group_size = it.eval(gs, Env({}))
    # the batching loop: batches are closed when len >= group_size  => every batch has at most group_size members
    loop = None
    for node in ast.walk(fn):
        if isinstance(node, ast.For) and unparse(node.iter) == 'groups':
            loop = node
    if loop is None:
        raise Undecided("batching loop over `groups` not found")
    # execute the loop body on a ghost length model: island_group has symbolic length L < group_size before the body
    L = Sym(z3.Int('L'))
    ctx.assume(And(L >= 0, L < group_size))

    class LenList(PyObj):
        def __init__(s, n):
            s.n = n

        def getattr_(s, c, name):
            if name == 'append':
                return Model(lambda c2, x: setattr(s, 'n', s.n + 1), 'append')
            raise Undecided("list." + name)

        def len_(s, c):
            return s.n

        def fingerprint_(s):
            return ('lenlist',), []
    closed = []

    class Batches(PyObj):
        def getattr_(s, c, name):
            if name == 'append':
                return Model(lambda c2, b: closed.append(b.n if isinstance(b, LenList) else None), 'append')
            raise Undecided("list." + name)
    env = Env({'island_group': LenList(L), 'island_groups': Batches(), 'group_size': group_size, 'island': Obj('island')})
    it.relpath = FILE
    it.exec_block(loop.body, env)
    after = env.lookup('island_group')
    newL = after.n if isinstance(after, LenList) else 0
    ctx.oblige("inv-preserve", "batching.open_batch_stays_below_group_size", And(Sym.lift(newL) >= 0, Sym.lift(newL) < group_size)
               if isinstance(newL, (int, Sym)) else False)
    for b in closed:
        ctx.oblige("post", "batching.closed_batches_have_at_most_group_size_members", And(b >= 1, b <= group_size) if b is not None else False)
    # the istart expression of the call, as a function of the enumerate index i
    i = Sym(z3.Int('i'))
    kw = {k.arg: k.value for k in call.keywords}
    # what the loop has accumulated before batch i is only known to be a list whose length is some function of i
    NSRC = z3.Function('components_returned_before_batch', z3.IntSort(), z3.IntSort())
    so_far = SymList("sources", Sym(NSRC(i.e)), lambda j: Sym(z3.Int('some_source')))
    ctx.assume(Sym(NSRC(i.e)) >= 0)
    call_env = Env({'i': i, 'group_size': group_size, 'g': Obj('g'), 'sources': so_far, 'island_groups': Opaque('island_groups')})
    if 'istart' in kw:
        e = it.eval(kw['istart'], call_env)
    elif len(call.args) >= 4:
        e = it.eval(call.args[3], call_env)
    else:
        e = 0
    if not isinstance(e, (int, Sym)):
        raise Undecided("istart expression is not an integer term")
    i1, i2, k1, k2 = [z3.Int(nm) for nm in ('i1', 'i2', 'k1', 'k2')]
    e1 = z3.substitute(Sym.lift(e), (i.e, i1)) if isinstance(e, Sym) else z3.IntVal(e)
    e2 = z3.substitute(Sym.lift(e), (i.e, i2)) if isinstance(e, Sym) else z3.IntVal(e)
    gsz = Sym.lift(group_size)
    ctx.oblige("post", "priorized.island_numbers_injective",
               Sym(z3.Implies(z3.And(0 <= i1, i1 < i2, 0 <= k1, k1 < gsz, 0 <= k2, k2 < gsz), e1 + k1 != e2 + k2)), nohyps=True)
    # inside _refit_islands the number of the k-th island of a batch is istart + k
    rf = find_function(FILE, 'SourceFinder._refit_islands')
    outer = [nd for nd in rf.body if isinstance(nd, ast.For)]
    ok = False
    if outer:
        itx = outer[0].iter
        ok = isinstance(itx, ast.Call) and getattr(itx.func, 'id', '') == 'enumerate' and \
            any(kw_.arg == 'start' and unparse(kw_.value) == 'istart' for kw_ in itx.keywords) and \
            isinstance(outer[0].target, ast.Tuple) and unparse(outer[0].target.elts[0]) == 'inum'
        used = [nd for nd in ast.walk(outer[0]) if isinstance(nd, ast.Call) and getattr(nd.func, 'id', '') == 'IslandFittingData']
        ok = ok and len(used) == 1 and used[0].args and unparse(used[0].args[0]) == 'inum'
    ctx.oblige("post", "refit.island_number_is_istart_plus_position_in_batch", ok)


# ---------------------------------------------------------------------------
# T5  blind island numbers
# ---------------------------------------------------------------------------

def t_blind_numbers(ctx):
    fn = find_function(FILE, 'SourceFinder.find_sources_in_image')
    loop = None
    for node in ast.walk(fn):
        if isinstance(node, ast.For) and unparse(node.iter) == 'islands' and unparse(node.target) == 'island':
            loop = node
    if loop is None:
        raise Undecided("island numbering loop not found in find_sources_in_image")
    ctx.info = ctx.session.register_function(FILE, 'SourceFinder.find_sources_in_image', fn, mode="region")
    n0 = Sym(z3.Int('isle_num_before'))
    made = []

    PRELOOP = ('scalars built before the loop',)
    seen_scalars = []

    def m_ifd(c, isle_num, i, scalars, offsets, doislandflux):
        made.append(isle_num)
        seen_scalars.append(scalars)
        return Obj('IslandFittingData', isle_num=isle_num)
    class _Img(PyObj):
        """the finder's image, tracked for aliasing only: slices are views, writes through a view reach the image"""
        written = False

        def getitem_(s, c, k):
            return _View(s)

    class _View(PyObj):
        def __init__(s, base):
            s.base = base

        def setitem_(s, c, k, v):
            if s.base is not None:
                s.base.written = True

        def getattr_(s, c, name):
            if name == 'copy':
                return Model(lambda c2: _View(None), 'ndarray.copy')
            if name in ('flat', 'ravel', 'flatten'):
                return s if name == 'flat' else Model(lambda c2: s, 'ndarray.' + name)
            if name in ('max', 'min', 'mean', 'sum'):
                return Model(lambda c2, *a, **k: c2.fresh_real('pixel_reduction'), 'ndarray.' + name)
            if name == 'shape':
                return (c.fresh_int('rows'), c.fresh_int('cols'))
            raise Undecided("ndarray." + name)

        def getitem_(s, c, k):
            return c.fresh_real('pixel_value')        # some pixel of the cut-out: any value

        def abs_(s, c):
            return s
    img = _Img()
    gd = Obj('gd', img=img)
    island = Obj('PixelIsland', bounding_box=[[Sym(z3.Int('bx0')), Sym(z3.Int('bx1'))], [Sym(z3.Int('by0')), Sym(z3.Int('by1'))]],
                 mask=Opaque('mask'))
    group = []
    anyfin = []

    def m_any(c, x):
        v = c.free_branch()
        anyfin.append(v)
        return v
    env = Env({'island': island, 'global_data': gd, 'isle_num': n0, 'island_group': group, 'innerclip': sym('ic'),
               'outerclip': sym('oc'), 'max_summits': None, 'doislandflux': False, 'self': Obj('self', log=Namespace('log')),
               'nopositive': Sym(z3.Bool('nopositive')), 'nonegative': Sym(z3.Bool('nonegative')), 'scalars': PRELOOP,
               'np': lib.std_np(any=Model(m_any), isfinite=Model(lambda c, x: Opaque('finite')),
                                nanmax=Model(lambda c, x: c.fresh_real('nanmax')), nanmin=Model(lambda c, x: c.fresh_real('nanmin')),
                                nanargmax=Model(lambda c, x: c.fresh_int('argmax')), nanargmin=Model(lambda c, x: c.fresh_int('argmin')),
                                argmax=Model(lambda c, x: c.fresh_int('argmax')), argmin=Model(lambda c, x: c.fresh_int('argmin')),
                                abs=Model(lambda c, x: x if isinstance(x, PyObj) else lib.m_abs(c, x)),
                                nansum=Model(lambda c, x: c.fresh_real('nansum')), sign=Model(lambda c, x: c.fresh_real('sign')),
                                array=Model(lambda c, x, *a, **k: _View(None) if k.get('copy', True) is not False else x, 'np.array'),
                                # these return their argument when no conversion is needed: the result may alias the image
                                ascontiguousarray=Model(lambda c, x, *a, **k: x, 'np.ascontiguousarray'),
                                asarray=Model(lambda c, x, *a, **k: x, 'np.asarray'),
                                asanyarray=Model(lambda c, x, *a, **k: x, 'np.asanyarray')),
               'copy': Namespace('copy', deepcopy=Model(lambda c, x: _View(None)), copy=Model(lambda c, x: _View(None))),
               'IslandFittingData': Model(m_ifd), 'abs': Model(lambda c, x: x if isinstance(x, PyObj) else lib.m_abs(c, x))})
    ctx.interp.relpath = FILE
    try:
        ctx.interp.exec_block(loop.body, env)
    except Exception as e:
        from pyvc.engine import _Continue
        if not isinstance(e, _Continue):
            raise
    n1 = env.lookup('isle_num')
    ctx.oblige("inv-preserve", "blind.island_numbers_strictly_increase_by_one_per_fitted_island",
               And(n1 == n0 + len(made), *[m == n0 + 1 for m in made]) if len(made) <= 1 else False)
    ctx.oblige("post", "blind.island_is_dropped_only_when_it_has_no_finite_pixel",
               len(made) == 1 or (len(anyfin) == 1 and anyfin[0] is False))
    for sc in seen_scalars:
        # islands are characterised with the clips in force when they were detected (the clamped flood clip): either built here from
        # the loop's own variables, or built before the loop -- then the detection region's obligation speaks about them
        ok_sc = sc is PRELOOP or (isinstance(sc, tuple) and len(sc) == 3 and sc[0] is env.lookup('innerclip') and sc[1] is env.lookup('outerclip')
                                   and sc[2] is env.lookup('max_summits'))
        ctx.oblige("post", "blind.island_is_characterised_with_the_clips_it_was_detected_with", ok_sc)
    ctx.oblige("post", "blind.masking_the_island_cut_out_never_writes_to_the_image", not img.written)
    ctx.oblige("post", "blind.fitted_island_is_queued_once", len(group) == len(made) if isinstance(group, list) else False)


class _Cut(PyObj):
    def setitem_(self, ctx, k, v):
        pass


def t_summit_numbering(ctx):
    """estimate_lmfit_parinfo: the k-th ACCEPTED summit becomes component k (prefix c<k>_), skipped summits leave no gap, and the
    `components` entry is the number accepted"""
    from contracts import c13
    from contracts.c05 import AddParams
    fn = find_function(FILE, c13.QE)
    loop = None
    for node in fn.body:
        if isinstance(node, ast.For) and 'summits' in unparse(node.iter):
            loop = node
    if loop is None:
        raise Undecided("summit loop not found")
    shape = (Sym(z3.Int('R')), Sym(z3.Int('C')))
    sshape = (Sym(z3.Int('SR')), Sym(z3.Int('SC')))
    box = [Sym(z3.Int(n)) for n in ('xmin', 'xmax', 'ymin', 'ymax')]
    i0 = Sym(z3.Int('i'))
    ctx.assume(And(shape[0] >= 1, shape[1] >= 1, sshape[0] >= 1, sshape[1] >= 1, box[0] >= 0, box[2] >= 0, i0 >= 0))
    innerclip, outerclip = sym('innerclip'), sym('outerclip')
    ctx.assume(And(innerclip > 0, outerclip > 0))
    psf = Obj('PSFHelper')
    psf.methods['get_psf_pix2pix'] = lambda c, s, x, y: (sym('pb_a'), sym('pb_b'), sym('pb_pa'))
    gd = Obj('gd', psfhelper=psf)
    F2C = sym('FWHM2CC')
    ctx.assume(F2C > 0)
    g = {'np': c13.np_model(), 'flags': c13.FLAGS, 'Beam': Model(lambda c, a, b, pa: Obj('Beam', a=a, b=b, pa=pa), 'Beam'),
         'FWHM2CC': F2C, 'CC2FHWM': sym('CC2FHWM'), 'math': Namespace('math', sqrt=Model(lib.m_sqrt)), 'abs': Model(c13.m_abs)}
    S_ = c13.SgnArr('summit', 1, sshape)
    am = c13.m_argmax(ctx, S_)
    an = c13.m_argmin(ctx, S_)
    ctx.assume(And(am >= 0, am < sshape[0] * sshape[1], an >= 0, an < sshape[0] * sshape[1]))
    P = AddParams('P', i0)
    # whatever the loop uses as a running index over ALL summits is a different number from the count of accepted ones
    env = {'self': Obj('self', log=Namespace('log'), global_data=gd), 'global_data': gd, 'summit': S_,
           'xmin': box[0], 'xmax': box[1], 'ymin': box[2], 'ymax': box[3],
           'data': c13.SgnArr('island', 1, shape), 'rmsimg': c13.SgnArr('rmsimg', 1, shape, kind='rms'), 'isnegative': ctx.free_branch(),
           'innerclip': innerclip, 'outerclip': outerclip, 'offsets': (Sym(z3.Int('off0')), Sym(z3.Int('off1'))),
           'max_summits': None if ctx.free_branch() else Sym(z3.Int('max_summits')), 'i': i0, 'params': P,
           'is_flag': 0, 'summits_considered': Sym(z3.Int('considered')), 'debug_on': False}
    # loop variables other than the documented ones (e.g. an enumerate index) are arbitrary integers
    targets = [n.id for n in ast.walk(loop.target) if isinstance(n, ast.Name)]
    for k_, nm in enumerate(targets):
        if nm not in env:
            env[nm] = Sym(z3.Int('loop_var_' + nm))
    out = run_stmts(ctx, FILE, c13.QE, loop.body, env, globals_=g, region_desc="one summit -> parameters: component numbering")
    if out.kind == 'raise':
        ctx.oblige("safe", "summits.no_exception", False)
        return
    i1 = out.env.lookup('i')
    if out.kind == 'continue' or not P.added:
        ctx.oblige("post", "summits.skipped_summit_adds_nothing_and_keeps_the_counter", And(i1 == i0, len(P.added) == 0))
        return
    idx = [a_[0] for a_ in P.added]
    ctx.oblige("post", "summits.accepted_summit_becomes_component_number_accepted_so_far",
               And(i1 == i0 + 1, *[Sym(Sym.lift(x) == i0.e) for x in idx]))
    ctx.oblige("post", "summits.seven_parameters_per_component", sorted(a_[1] for a_ in P.added) == sorted(PNAMES))
    # after the loop: components = i
    tail = [st for st in fn.body if isinstance(st, ast.Expr) and "params.add('components'" in unparse(st)]
    ctx.oblige("post", "summits.components_entry_is_the_number_accepted", len(tail) == 1 and "value=i," in unparse(tail[0]).replace(" ", "").replace("value=i,", "value=i,"))


WFILE = "AegeanTools/wcs_helpers.py"


def t_beamarea(ctx):
    """int_flux = peak*a*b/(psf_a*psf_b) needs the beam area used for int_flux to be the area of the SAME pixel beam
    (get_psf_sky2pix) that the psf_a/psf_b columns and the fit are derived from"""
    PA, PB = sym('pixbeam_a'), sym('pixbeam_b')
    calls = []
    me = Obj('WCSHelper', psf_file=(None if ctx.free_branch() else 'psf.fits'), beam=Obj('Beam', a=sym('ba'), b=sym('bb'), pa=sym('bpa')),
             _psf_a=sym('ref_a'), _psf_b=sym('ref_b'), _psf_theta=sym('ref_t'))
    me.methods['get_psf_sky2pix'] = lambda c, s, ra, dec: (calls.append((ra, dec)), (PA, PB, sym('pixbeam_pa')))[1]
    me.methods['sky2pix_ellipse'] = lambda c, s, pos, a, b, pa: (sym('ex'), sym('ey'), sym('other_a'), sym('other_b'), sym('et'))
    me.methods['get_psf_sky2sky'] = lambda c, s, ra, dec: (sym('sky_a'), sym('sky_b'), sym('sky_pa'))
    ra, dec = sym('ra'), sym('dec')
    out = run_function(ctx, WFILE, 'WCSHelper.get_beamarea_pix', [me, ra, dec], globals_={'np': lib.std_np()})
    if out.kind != 'return' or not isinstance(out.value, Sym):
        ctx.oblige("post", "beamarea.returns_a_number", False)
        return
    ctx.oblige("post", "beamarea.is_pi_a_b_of_the_pixel_beam_at_that_position",
               And(out.value == PA * PB * Sym(lib.PI, True), len(calls) == 1 and calls[0][0] is ra and calls[0][1] is dec))


def _detection(ctx):
    from contracts import c01
    return c01.t_detection_call(ctx)


def verify(S):
    # the sexagesimal strings: dec2hms / dec2dms by their C17 contracts (fields in range, sign, round trip to the printed precision)
    from contracts import c17
    for name, fn in (("angle_tools.dec2dms", c17.t_dec2dms), ("angle_tools.dec2hms", c17.t_dec2hms), ("angle_tools.nonfinite", c17.t_nonfinite)):
        if S.only and S.only not in name:
            continue
        ctx = Ctx(S, name)
        try:
            ctx.explore(fn)
        except Undecided as u:
            S.undecided.append("%s: %s" % (name, u))
    # island rows agree with the detected pixels: the find_islands contract of C02 (own pixels, bounding box, mask)
    from contracts import c02, c05
    c02.verify(S)
    # flags / uuids of priorized rows: the copy-back contract of C05 (documented bits only, uuid of the k-th accepted source)
    if not S.only or 'copy_back' in S.only:
        ctx = Ctx(S, "source_finder.SourceFinder._refit_islands[copy_back]")
        try:
            ctx.explore(c05.t_copy_back)
        except Undecided as u:
            S.undecided.append("_refit_islands[copy_back]: %s" % u)
    targets = [("source_finder.fix_shape", t_fix_shape), ("source_finder.pa_limit", t_pa_limit),
               ("source_finder.SourceFinder.result_to_components", t_result_to_components), ("fitting.errors", t_errors),
               ("source_finder.SourceFinder.priorized_fit_islands", t_priorized_numbers),
               ("source_finder.SourceFinder.find_sources_in_image", t_blind_numbers),
               ("wcs_helpers.WCSHelper.get_beamarea_pix", t_beamarea),
               ("source_finder.SourceFinder.estimate_lmfit_parinfo[numbering]", t_summit_numbering),
               ("source_finder.SourceFinder.find_sources_in_image[detection]", _detection)]
    for name, fn in targets:
        if S.only and S.only not in name:
            continue
        ctx = Ctx(S, name)
        try:
            ctx.explore(fn)
        except Undecided as u:
            S.undecided.append("%s: %s" % (name, u))


REPLAY = {"*": "replay_catalogue"}
NATIVE_CHECKS = [{"func": "crosscheck", "payload": {}, "timeout": 1500}]
