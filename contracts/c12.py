"""C12 — region exports describe exactly the region (AegeanTools/regions.py: _uniq, write_fits, write_reg, save, load).

Spec: for every well-formed region state (arbitrary symbolic pixel sets, demoted cache filled or not -- i.e.
whatever operations or queries preceded the export; C08 proves every operation preserves WF):
  _uniq() is the sorted list of 4*4^d + p over ALL levels d = 1..maxdepth and all p stored at level d (the NUNIQ
     encoding is injective on valid ids, so decoding yields exactly the stored (level, pixel) pairs);
  write_fits writes that list as the int64 column NPIX with MOCORDER = maxdepth and ORDERING = NUNIQ;
  write_reg writes exactly one polygon line per stored pixel, built from healpy.boundaries(2**d, p, step=1,
     nest=True) of that pixel with (ra/15, dec) in that order for each corner;
  load(save(r)) returns the saved object.
"""
import z3

from pyvc.engine import (Ctx, PyObj, Model, Namespace, Obj, SymDict, StrFormat, Undecided, PyRaise, ExcValue, Opaque,
                         Instance)
from pyvc.values import Sym, And, Or, Not, Implies, ite
from contracts.sets import SSet, SetLoopSpec, fresh_pred, to_r
from contracts import sets as setsmod
from contracts import c08
from contracts.c08 import genv as region_genv, mk_region, call, npix, valid_id, FILE

PROPERTY = "C12"

ASSUMPTIONS = [
    "depth enumerated (1..3 quick, 1..4 thorough); contents symbolic (see C08)",
    "sorted() returns the sorted list of the same elements; map(f, set) applies f to every element once",
    "astropy fits.Column/BinTableHDU.from_columns/HDUList.writeto store the column array and header cards given",
    "healpy.boundaries(nside, pix, step=1, nest=True) returns the four corner vectors of that pixel; "
    "Region.vec2sky (C09) converts vectors to (ra, dec); SkyCoord(...).to_string formats them",
    "pickle.dump/load: value identity of the dumped object graph",
]


class CollPart:
    def __init__(self, s, f):
        self.s, self.f = s, f


class Mapped(PyObj):
    """map(f, <symbolic set>): f is applied (symbolically, to a placeholder element) when the map object is made --
    CPython's map is lazy, but every use in scope consumes it before any captured variable changes"""
    _n = [0]

    def __init__(self, ctx, f, s):
        Mapped._n[0] += 1
        self.x = Sym(z3.Int("map_x!%d" % Mapped._n[0]))
        self.s = s
        self.gx = ctx.interp.call(f, [self.x], {})
        self.f = lambda c, v: subst(self.gx, self.x, v)

    def extend_into_(self, ctx, lst):
        lst.append(CollPart(self.s, self.f))


def subst(expr, x, v):
    if isinstance(expr, Sym):
        return Sym(z3.substitute(expr.e, (x.e, Sym.lift(v))))
    return expr


class SortedColl(PyObj):
    def __init__(self, parts):
        self.parts = parts


def genv12(ctx):
    g, cls = region_genv(ctx)

    def m_map(c, f, *xs):
        if len(xs) == 1 and isinstance(xs[0], SSet):
            return Mapped(c, f, xs[0])
        from pyvc.engine import b_map
        return b_map(c, f, *xs)

    def m_sorted(c, xs, **kw):
        if isinstance(xs, list) and all(isinstance(x, CollPart) for x in xs):
            c.session.trust("sorted(list): same elements in ascending order")
            return SortedColl(list(xs))
        from pyvc.engine import b_sorted
        return b_sorted(c, xs, **kw)
    g['map'] = Model(m_map, 'map')
    g['sorted'] = Model(m_sorted, 'sorted')
    return g, cls


def check_uniq(ctx, lab, r, res, D, pd0):
    ok = isinstance(res, SortedColl) and len(res.parts) == D and \
        all(res.parts[i].s is pd0[i + 1] for i in range(min(D, len(res.parts))))
    ctx.oblige("post", lab + ".covers_all_levels_once_each", ok)
    if not isinstance(res, SortedColl):
        return
    x = ctx.fresh_int("x")
    for part in res.parts:
        d = [k for k in pd0 if pd0[k] is part.s]
        if not d:
            continue
        d = d[0]
        ctx_val = part.f(ctx, x)
        ctx.oblige("post", lab + ".encoding_is_nuniq", Implies(valid_id(x, d), ctx_val == 4 * 4 ** d + x))
        ctx.oblige("post", lab + ".entries_are_ints", isinstance(ctx_val, int) or (isinstance(ctx_val, Sym) and ctx_val.is_int))
    # injectivity of the encoding on valid ids: ranges of different levels are disjoint
    a, b = ctx.fresh_int("ua"), ctx.fresh_int("ub")
    for d1 in range(1, D + 1):
        for d2 in range(d1 + 1, D + 1):
            ctx.oblige("lemma", lab + ".encoding_injective_across_levels",
                       Implies(And(valid_id(a, d1), valid_id(b, d2)), 4 * 4 ** d1 + a != 4 * 4 ** d2 + b), nohyps=True)


def targets(S):
    depths = [1, 2, 3] if getattr(S, 'tier', 'quick') == 'quick' else [1, 2, 3, 4]
    T = []
    for D in depths:
        for cached in (False, True):
            tag = "D%d.%s" % (D, "after_query" if cached else "before_query")

            def t_uniq(ctx, D=D, cached=cached, tag=tag):
                setsmod.reset()
                g, cls = genv12(ctx)
                r = mk_region(ctx, cls, "a", D, cached)
                pd0 = dict(r.fields['pixeldict'])
                preds0 = {d: pd0[d].pred for d in pd0}
                k, res = call(ctx, r, '_uniq')
                lab = "_uniq." + tag
                if k != 'return':
                    ctx.oblige("safe", lab + ".no_exception", False)
                    return
                check_uniq(ctx, lab, r, res, D, pd0)
                ctx.oblige("frame", lab + ".region_unchanged",
                           all(r.fields['pixeldict'][d] is pd0[d] and pd0[d].pred is preds0[d] for d in pd0))
            T.append(("regions.Region._uniq", t_uniq))

            def t_write_fits(ctx, D=D, cached=cached, tag=tag):
                setsmod.reset()
                g, cls = genv12(ctx)
                r = mk_region(ctx, cls, "a", D, cached)
                pd0 = dict(r.fields['pixeldict'])
                written = {}
                cols = []

                class HL(PyObj):
                    def __init__(s):
                        s.items = {0: Obj('PrimaryHDU', header=SymDict('h0', {}, strict=False)),
                                   1: Obj('BinTableHDU', header=SymDict('h1', {}, strict=False))}

                    def getitem_(s, c, k):
                        return s.items[k]

                    def setitem_(s, c, k, v):
                        s.items[k] = v

                    def getattr_(s, c, name):
                        if name == 'writeto':
                            def wt(c2, fn, **kw):
                                written['file'] = fn
                                written['hdus'] = dict(s.items)
                            return Model(wt, 'writeto')
                        raise Undecided("HDUList." + name)

                def m_open(c, f, *a, **k):
                    return HL()

                def m_column(c, **kw):
                    cols.append(kw)
                    return Obj('Column', **kw)

                def m_from_columns(c, cl):
                    return Obj('BinTableHDU', header=SymDict('tb', {}, strict=False), columns=list(cl))
                g['fits'] = Namespace('fits', open=Model(m_open, 'fits.open'), Column=Model(m_column, 'fits.Column'),
                                      BinTableHDU=Namespace('BinTableHDU', from_columns=Model(m_from_columns)))
                g['os'] = Namespace('os', path=Namespace('path', join=Model(lambda c, *a: "MOC.fits"),
                                                         dirname=Model(lambda c, a: "dir"), abspath=Model(lambda c, a: "abs")))
                g['__file__'] = "regions.py"
                dt = Namespace('datetime', utcnow=Model(lambda c: Opaque('now')), strftime=Model(lambda c, *a, **k: "date"))
                g['datetime'] = Namespace('datetime', datetime=dt)
                k, res = call(ctx, r, 'write_fits', "out.fits", moctool="tool")
                lab = "write_fits." + tag
                if k != 'return' or 'hdus' not in written:
                    ctx.oblige("post", lab + ".file_written", False)
                    return
                tb = written['hdus'].get(1)
                ok_tb = isinstance(tb, Obj) and 'columns' in tb.fields and len(tb.fields['columns']) == 1
                ctx.oblige("post", lab + ".table_is_extension_1_with_one_column", ok_tb)
                if not ok_tb:
                    return
                col = tb.fields['columns'][0].fields
                ctx.oblige("post", lab + ".column_name_and_format", col.get('name') == 'NPIX' and col.get('format') == '1K')
                check_uniq(ctx, lab + ".column", r, col.get('array'), D, pd0)
                h = tb.fields['header']
                ctx.oblige("post", lab + ".order_keyword_is_depth",
                           h.present.get('MOCORDER') is True and h.vals.get('MOCORDER') == D)
                ctx.oblige("post", lab + ".ordering_is_nuniq",
                           h.present.get('ORDERING') is True and str(h.vals.get('ORDERING')).strip() == 'NUNIQ'
                           and str(h.vals.get('PIXTYPE')).strip() == 'HEALPIX' and str(h.vals.get('COORDSYS')).strip() == 'C')
            T.append(("regions.Region.write_fits", t_write_fits))

    def t_save_load(ctx):
        setsmod.reset()
        g, cls = genv12(ctx)
        r = mk_region(ctx, cls, "a", 2, False)
        store = {}

        def m_open(c, fn, mode='r'):
            return ('file', fn, mode)

        def m_dump(c, obj, f, protocol=None):
            c.session.trust("pickle.dump/load: the loaded object equals the dumped one")
            store[f[1]] = (obj, f[2])

        def m_load(c, f):
            if f[1] not in store or 'b' not in f[2] or 'r' not in f[2]:
                raise PyRaise(ExcValue('IOError'))
            return store[f[1]][0]
        g['open'] = Model(m_open, 'open')
        g['cPickle'] = Namespace('cPickle', dump=Model(m_dump), load=Model(m_load))
        k, _ = call(ctx, r, 'save', "x.mim")
        ok = k == 'return' and 'x.mim' in store and store['x.mim'][0] is r and 'w' in store['x.mim'][1] and 'b' in store['x.mim'][1]
        ctx.oblige("post", "save.dumps_the_whole_region_binary", ok)
        try:
            loaded = ctx.interp.call(cls.getattr_(ctx, 'load'), ["x.mim"], {})
        except PyRaise:
            loaded = None
        ctx.oblige("post", "save_load.identity", loaded is r)
    T.append(("regions.Region.save_load", t_save_load))

    # write_reg: one polygon per stored pixel with that pixel's corners
    for D in depths[:2]:
        def t_write_reg(ctx, D=D):
            setsmod.reset()
            g, cls = genv12(ctx)
            r = mk_region(ctx, cls, "a", D, False)
            pd0 = dict(r.fields['pixeldict'])
            out = OutFile()
            g['open'] = Model(lambda c, fn, mode='r': out.opened(fn, mode), 'open')
            g['hp'].members['boundaries'] = Model(
                lambda c, nside, pix, step=None, nest=False: Boundary(nside, pix, step, nest), 'hp.boundaries')
            g['np'].members['array'] = Model(lambda c, x, *a, **k: x, 'np.array')
            g['SkyCoord'] = Model(lambda c, a, b, unit=None: Obj('SkyCoord', ra=AngleStr('ra', a, unit), dec=AngleStr('dec', b, unit)))
            g['u'] = Namespace('u', degree='deg', hourangle='hourangle')
            bnds = []
            g['hp'].members['boundaries'] = Model(
                lambda c, nside, pix, step=None, nest=False: (bnds.append(Boundary(nside, pix, step, nest)) or bnds[-1]), 'hp.boundaries')
            ctx.ghost_bnds = bnds
            ctx.interp.contracts['Region.vec2sky'] = Model(
                lambda c, klass, vecs, degrees=False: [sky_of(v, degrees) for v in vecs])
            install_write_reg_spec(ctx, out, pd0, D, g)
            k, res = call(ctx, r, 'write_reg', "out.reg")
            lab = "write_reg.D%d" % D
            if k != 'return':
                ctx.oblige("safe", lab + ".no_exception", False)
                return
            d0 = ctx.fresh_int("d0")
            p0 = ctx.fresh_int("p0")
            stored = Or(*[And(d0 == d, pd0[d].has(p0)) for d in range(1, D + 1)])
            ctx.oblige("post", lab + ".one_polygon_per_stored_pixel", out.count(d0, p0) == ite(stored, 1, 0))
            ctx.oblige("post", lab + ".opened_for_writing", out.mode == 'w' and out.name == "out.reg")
        T.append(("regions.Region.write_reg", t_write_reg))
    return T


# ---- write_reg helpers -----------------------------------------------------------------------------

class Boundary(PyObj):
    def __init__(self, nside, pix, step, nest):
        self.nside, self.pix, self.step, self.nest = nside, pix, step, nest

    def iter_(self, ctx):
        # 3 x N array of corner vectors: rows are x, y, z
        return [[('corner', self, k, ax) for k in range(4)] for ax in range(3)]


CRA = z3.Function('corner_ra_deg', z3.IntSort(), z3.IntSort(), z3.IntSort(), z3.RealSort())
CDEC = z3.Function('corner_dec_deg', z3.IntSort(), z3.IntSort(), z3.IntSort(), z3.RealSort())


def corner_of(vec):
    """(boundary, k) of a corner vector (x_k, y_k, z_k) as produced by zip(*Boundary), or None"""
    if not (isinstance(vec, tuple) and len(vec) == 3 and all(isinstance(c, tuple) and c and c[0] == 'corner' for c in vec)):
        return None
    if len(set(id(c[1]) for c in vec)) != 1 or len(set(c[2] for c in vec)) != 1 or [c[3] for c in vec] != [0, 1, 2]:
        return None
    return vec[0][1], vec[0][2]


def sky_of(vec, degrees):
    """contract of Region.vec2sky on a corner vector: its (ra, dec) as symbolic reals"""
    co = corner_of(vec)
    if co is None or degrees is not True:
        raise Undecided("vec2sky called on something else than the boundary corners in degrees")
    b, k = co
    args = (Sym.lift(b.nside), Sym.lift(b.pix), z3.IntVal(k))
    return (Sym(CRA(*args), True), Sym(CDEC(*args), True))


class AngleStr(PyObj):
    def __init__(self, axis, value, unit):
        self.axis, self.value, self.unit = axis, value, unit

    def getattr_(self, ctx, name):
        if name == 'to_string':
            return Model(lambda c, **kw: ('str', self, tuple(sorted(kw.items()))), 'to_string')
        raise Undecided("Angle." + name)


class OutFile(PyObj):
    """text file written by print(..., file=out): a multiset of polygon records keyed by (level, pixel)"""

    def __init__(self):
        self.cnt = lambda d, p: 0
        self.mode = None
        self.name = None
        self.bad = []

    def opened(self, fn, mode):
        self.name, self.mode = fn, mode
        return self

    def enter_(self, ctx):
        return self

    def count(self, d, p):
        return self.cnt(d, p)

    def fingerprint_(self):
        return ('outfile', id(self.cnt)), []


def install_write_reg_spec(ctx, out, pd0, D, g):
    it = ctx.interp
    st = {}

    def m_print(c, *args, **kw):
        if kw.get('file') is not out:
            return None
        line = args[0] if args else None
        rec = analyse_line(c, line)
        d, p = st.get('d'), st.get('p')
        if rec is None:
            c.oblige("post", "write_reg.line_is_polygon_of_the_pixels_corners", False)
        else:
            c.oblige("post", "write_reg.line_is_polygon_of_the_pixels_corners",
                     And(rec['nside'] == 2 ** d, rec['nest'] is True, rec['step'] == 1, rec['order_ok'],
                         to_r(rec['pix']) == to_r(p)))
        old = out.cnt
        out.cnt = lambda dd, pp: old(dd, pp) + ite(And(dd == d, to_r(pp) == to_r(p)), 1, 0)
        return None
    g['print'] = Model(m_print, 'print')

    def enter(c, env):
        st['d'] = env.lookup('d')
        st['before'] = out.cnt

    def F(done):
        before, d = st['before'], st['d']
        return lambda dd, pp: before(dd, pp) + ite(And(dd == d, done(pp)), 1, 0)

    def install(c, env, done):
        out.cnt = F(done)
        st['d'] = env.lookup('d')

    def claims(c, env, done):
        f = F(done)
        dd = c.fresh_int("dd")
        return [("one_line_per_done_pixel", lambda e: out.cnt(dd, e) == f(dd, e))]

    class Spec(SetLoopSpec):
        pass
    spec = SetLoopSpec(enter, install, claims, lambda c, env: [out], label="pixels_of_level")
    it.loops["for p in self.pixeldict[d]"] = spec
    # remember the current pixel for the print model
    old_hook = it.stmt_hook

    def hook(c, stn, env):
        if env.has('p'):
            st['p'] = env.lookup('p')
        if env.has('d'):
            st['d'] = env.lookup('d')
    it.stmt_hook = hook


def analyse_line(ctx, line):
    """decode the printed polygon line: 8 formatted angles (ra/15, dec per corner) of ONE healpy.boundaries call"""
    from contracts.models import flatten_str
    parts = flatten_str(line) if isinstance(line, (str, StrFormat)) else None
    if parts is None:
        return None
    strs = [x for x in parts if isinstance(x, tuple) and x and x[0] == 'str']
    others = [x for x in parts if not isinstance(x, (str, tuple))]
    lits = "".join(x for x in parts if isinstance(x, str))
    if others or len(strs) != 8:
        # positions are not formatted through SkyCoord(...).to_string: a different formatter -> this contract cannot vouch
        raise Undecided("write_reg formats positions with something else than SkyCoord(...).to_string")
    if not lits.startswith("fk5; polygon(") or not lits.endswith(")"):
        return None
    bnds = getattr(ctx, 'ghost_bnds', [])
    if not bnds:
        return None
    b = bnds[-1]
    args = lambda k: (Sym.lift(b.nside), Sym.lift(b.pix), z3.IntVal(k))
    conds = []
    for j, s_ in enumerate(strs):
        ang = s_[1]
        k = j // 2
        want_axis = 'ra' if j % 2 == 0 else 'dec'
        want = Sym(CRA(*args(k)) / 15, True) if want_axis == 'ra' else Sym(CDEC(*args(k)), True)
        if ang.axis != want_axis or not isinstance(ang.value, Sym):
            return {'nside': b.nside, 'pix': b.pix, 'step': b.step, 'nest': b.nest, 'order_ok': False}
        conds.append(ang.value == want)
    return {'nside': b.nside, 'pix': b.pix, 'step': b.step, 'nest': b.nest, 'order_ok': And(*conds)}


def verify(S):
    for name, fn in targets(S):
        if S.only and S.only not in name:
            continue
        ctx = Ctx(S, name)
        try:
            ctx.explore(fn)
        except Undecided as u:
            S.undecided.append("%s: %s" % (name, u))
    ctx = Ctx(S, "regions.Region._uniq")

    def canary(c):
        setsmod.reset()
        g, cls = genv12(c)
        r = mk_region(c, cls, "a", 2, False)
        k, res = call(c, r, '_uniq')
        c.oblige("canary", "uniq_has_a_single_part", isinstance(res, SortedColl) and len(res.parts) == 1, expect="fail")
    ctx.explore(canary)


ENUMERATED = [{"what": 'proof per enumerated depth: maxdepth 1..3 (quick) / 1..4 (thorough); contents symbolic', "counted_as_proved": "per instance"}]
REPLAY = {"*": "replay_exports"}
NATIVE_CHECKS = [{"func": "crosscheck_exports", "payload": {}}]
