"""C09 — circle and polygon regions cover their shape and nothing far from it (AegeanTools/regions.py).

Relative to healpy's geometric guarantees (assumed, listed), the property reduces to: the insert side (add_circles,
add_poly) and the query side (sky_within) use the SAME, correct conversion sky (ra, dec) -> (theta, phi) =
(pi/2 - dec, ra) in radians -> vector / NESTED pixel, at consistent resolutions, for scalar and vector input,
with degin handled on both columns and NaN positions answering False.

Functions under contract (real bodies): radec2sky, sky2ang, sky2vec, vec2sky, sky_within, add_circles, add_poly.
"""
import z3

from pyvc.engine import (Ctx, PyObj, Model, Namespace, Obj, Undecided, PyRaise, ExcValue, ExcClass, Instance, Opaque)
from pyvc.values import Sym, And, Or, Not, Implies, ite, NaN, NaNType
from pyvc import lib
from contracts.arrays import SArr, np_array, np_bitwise_not, reset_uids, uid, ZipArr, np_nan_to_num, np_isnan, np_any, np_all
from contracts.sets import SSet, fresh_pred
from contracts import sets as setsmod
from contracts.c08 import genv as region_genv, mk_region, call, valid_id, snapshot_view, view, skolem_pixel, idiv, npix

PROPERTY = "C09"
FILE = "AegeanTools/regions.py"

ASSUMPTIONS = [
    "healpy.query_disc(nside, vec, r, inclusive=True, nest=True) returns (valid NESTED ids of) every pixel containing a point "
    "within r of vec and no pixel farther than r + 3 pixel sizes; query_polygon(..., inclusive=True, nest=True) likewise for "
    "convex polygons; ang2vec/vec2ang/ang2pix are mutually consistent ((theta, phi) colatitude/longitude in radians) -- the "
    "coverage and margin clauses of the property follow from these and are NOT proved here; the cap-area clause is not decided",
    "numpy: zip/array/copy/column permutation/boolean masks/logical_and.reduce/isfinite/isin as modelled in contracts/arrays.py "
    "(pointwise, NaN compares False / is not finite)",
    "number of circles given as vectors is enumerated (1 scalar, 2 in vector form); positions are symbolic",
    "floats as reals; depth enumerated as in C08",
]

PIXOF = z3.Function('pix_of', z3.IntSort(), z3.RealSort(), z3.RealSort(), z3.IntSort())      # (nside, theta, phi) -> id


def rl(x):
    e = Sym.num(x)
    return z3.ToReal(e) if z3.is_int(e) else e


class Vec(PyObj):
    def __init__(self, theta, phi):
        self.theta, self.phi = theta, phi


def logical_and_reduce(ctx, x, axis=None):
    if isinstance(x, SArr) and len(x.shape_) == 2 and axis == 1 and isinstance(x.shape_[1], int):
        b = x.snapshot()
        k = x.shape_[1]
        return SArr(uid("and_reduce"), (x.shape_[0],), lambda idx: And(*[b.at((idx[0], c)) for c in range(k)]))
    raise Undecided("np.logical_and.reduce on an unmodelled argument")


def np_isfinite(ctx, x):
    if isinstance(x, SArr):
        b = x.snapshot()
        return SArr(uid("isfinite"), x.shape_, lambda idx: Not(b.isnan(idx)))
    return lib.m_isfinite(ctx, x)


def np_isin(ctx, pix, lst, assume_unique=False, invert=False, **kw):
    if assume_unique:
        # numpy: "If True, the input arrays are both assumed to be unique" -- the queried positions are arbitrary, several may share a pixel
        ctx.oblige("pre", "np_isin.assume_unique_needs_unique_inputs", False)
    if invert or kw:
        raise Undecided("np.isin with options %s" % sorted(list(kw) + (['invert'] if invert else [])))
    if isinstance(pix, SArr) and isinstance(lst, SSet):
        ctx.session.trust("np.isin(a, list(S))[k] = (a[k] in S)")
        b = pix.snapshot()
        pred = lst.pred
        return SArr(uid("isin"), pix.shape_, lambda idx: pred(b.at(idx)))
    raise Undecided("np.isin on unmodelled arguments")


def genv9(ctx, calls):
    g, cls = region_genv(ctx)
    np_ = g['np']
    np_.members.update(array=Model(np_array, 'np.array'), bitwise_not=Model(np_bitwise_not, 'np.bitwise_not'),
                       isfinite=Model(np_isfinite, 'np.isfinite'), isin=Model(np_isin, 'np.isin'),
                       nan_to_num=Model(np_nan_to_num, 'np.nan_to_num'), isnan=Model(np_isnan, 'np.isnan'),
                       any=Model(np_any, 'np.any'), all=Model(np_all, 'np.all'),
                       logical_and=Namespace('np.logical_and', reduce=Model(logical_and_reduce, 'np.logical_and.reduce')))
    hp = g['hp']

    def ang2pix(c, nside, theta, phi, nest=False, **kw):
        c.session.trust("healpy.ang2pix(nside, theta, phi, nest): id of the pixel containing colatitude theta, longitude phi")
        calls.append(('ang2pix', nside, nest))
        if isinstance(theta, SArr):
            t, p = theta.snapshot(), phi.snapshot()
            return SArr(uid("pix"), theta.shape_, lambda idx: Sym(PIXOF(Sym.lift(nside), rl(t.at(idx)), rl(p.at(idx)))))
        return Sym(PIXOF(Sym.lift(nside), rl(theta), rl(phi)))

    def ang2vec(c, theta, phi, **kw):
        c.session.trust("healpy.ang2vec(theta, phi): unit vector of colatitude theta, longitude phi (radians)")
        if isinstance(theta, tuple):
            return [Vec(t, p) for t, p in zip(theta, phi)]
        if isinstance(theta, SArr) and isinstance(theta.shape_[0], int):
            return [Vec(theta.at((k,)), phi.at((k,))) for k in range(theta.shape_[0])]
        if isinstance(theta, (Sym, int, float)):
            return Vec(theta, phi)
        raise Undecided("ang2vec on unmodelled arguments")

    def vec2ang(c, vec, **kw):
        if isinstance(vec, list) and all(isinstance(v, Vec) for v in vec):
            return (np_array(c, [v.theta for v in vec]), np_array(c, [v.phi for v in vec]))
        if isinstance(vec, Vec):
            return (vec.theta, vec.phi)
        raise Undecided("vec2ang on unmodelled argument")

    def query_disc(c, nside, vec, radius, inclusive=False, nest=False, **kw):
        PIX = fresh_pred("DISC")
        calls.append(('query_disc', nside, vec, radius, inclusive, nest, PIX))
        from contracts.c08 import PixArray
        depth = [d for d in range(0, 30) if 2 ** d == nside]
        d = depth[0] if depth else None
        return PixArray(lambda e: And(PIX(e), valid_id(e, d)) if d is not None else PIX(e))

    def query_polygon(c, nside, vertices, inclusive=False, nest=False, **kw):
        PIX = fresh_pred("POLY")
        calls.append(('query_polygon', nside, vertices, inclusive, nest, PIX))
        from contracts.c08 import PixArray
        depth = [d for d in range(0, 30) if 2 ** d == nside]
        d = depth[0] if depth else None
        return PixArray(lambda e: And(PIX(e), valid_id(e, d)) if d is not None else PIX(e))
    hp.members.update(ang2pix=Model(ang2pix), ang2vec=Model(ang2vec), vec2ang=Model(vec2ang),
                      query_disc=Model(query_disc), query_polygon=Model(query_polygon))
    g['TypeError'] = ExcClass('TypeError')
    g['AttributeError'] = ExcClass('AttributeError')
    return g, cls


def positions(ctx, form, n=None):
    """symbolic ra/dec inputs: 'scalar' or 'vector' (1-d arrays of symbolic length with NaN flags)"""
    if form == 'scalar':
        return Sym(z3.Real('ra'), True), Sym(z3.Real('dec'), True), None
    n = Sym(z3.Int('npos')) if n is None else n
    if isinstance(n, Sym):
        ctx.assume(n >= 0)
    ra = SArr.fresh("ra", (n,), with_nan=True)
    dec = SArr.fresh("dec", (n,), with_nan=True)
    return ra, dec, n


def t_sky_within(ctx):
    reset_uids()
    setsmod.reset()
    calls = []
    g, cls = genv9(ctx, calls)
    D = 2 + ctx.choice(2)
    cached = ctx.free_branch()
    form = ('scalar', 'vector')[ctx.choice(2)]
    degin = ctx.free_branch()
    r = mk_region(ctx, cls, "a", D, cached)
    V0 = snapshot_view(r)
    ra, dec, n = positions(ctx, form)
    k, res = call(ctx, r, 'sky_within', ra, dec, degin=degin)
    lab = "sky_within.%s.%s" % (form, "deg" if degin else "rad")
    if k != 'return' or not isinstance(res, SArr):
        ctx.oblige("safe", lab + ".no_exception", False)
        return
    i = ctx.fresh_int("i")
    if form == 'scalar':
        ctx.oblige("post", lab + ".one_answer", res.shape_[0] == 1)
        ctx.assume(i == 0)
        a, d_, fin = ra, dec, True
    else:
        ctx.oblige("post", lab + ".one_answer_per_position", res.shape_[0] == n)
        ctx.assume(And(i >= 0, i < n))
        a, d_ = ra.at((i,)), dec.at((i,))
        fin = And(Not(ra.isnan((i,))), Not(dec.isnan((i,))))
    conv = (lambda v: Sym(rl(v) * lib.PI / 180, True)) if degin else (lambda v: v)
    theta = Sym(lib.PI / 2 - rl(conv(d_)), True)
    phi = conv(a)
    pix = Sym(PIXOF(z3.IntVal(2 ** D), rl(theta), rl(phi)))
    ctx.axiom_once('pi', lib.PI_AXIOM)
    ctx.oblige("post", lab + ".answer_is_membership_of_own_pixel_and_nan_is_false",
               res.at((i,)) == And(fin, V0(pix)), at=[pix])
    ctx.oblige("post", lab + ".queried_at_maxdepth_nested",
               [c for c in calls if c[0] == 'ang2pix'] == [('ang2pix', 2 ** D, True)])
    q = skolem_pixel(ctx, D)
    ctx.oblige("frame", lab + ".view_unchanged", view(r, q) == V0(q), at=[q])
    if form == 'vector':
        ctx.oblige("frame", lab + ".input_arrays_not_modified", not ra.writes and not dec.writes)


def t_conversions(ctx):
    reset_uids()
    setsmod.reset()
    calls = []
    g, cls = genv9(ctx, calls)
    n = 2
    ra, dec, _ = positions(ctx, 'vector', n)
    sky = ctx.interp.call(cls.getattr_(ctx, 'radec2sky'), [ra, dec], {})
    ok = isinstance(sky, SArr) and len(sky.shape_) == 2
    ctx.oblige("post", "radec2sky.shape_n_by_2", ok and sky.shape_[0] == n and sky.shape_[1] == 2)
    if not ok:
        return
    for k in range(n):
        ctx.oblige("post", "radec2sky.rows_are_ra_dec", And(sky.at((k, 0)) == ra.at((k,)), sky.at((k, 1)) == dec.at((k,))))
    s0 = sky.snapshot()
    ang = ctx.interp.call(cls.getattr_(ctx, 'sky2ang'), [sky], {})
    ctx.axiom_once('pi', lib.PI_AXIOM)
    if not isinstance(ang, SArr):
        ctx.oblige("post", "sky2ang.theta_phi", False)
        return
    for k in range(n):
        ctx.oblige("post", "sky2ang.theta_phi",
                   And(ang.at((k, 0)) == Sym(lib.PI / 2 - rl(dec.at((k,))), True), ang.at((k, 1)) == ra.at((k,))))
        ctx.oblige("frame", "sky2ang.input_unchanged", And(sky.at((k, 0)) == s0.at((k, 0)), sky.at((k, 1)) == s0.at((k, 1))))
    vecs = ctx.interp.call(cls.getattr_(ctx, 'sky2vec'), [sky], {})
    okv = isinstance(vecs, list) and len(vecs) == n and all(isinstance(v, Vec) for v in vecs)
    ctx.oblige("post", "sky2vec.one_vector_per_position", okv)
    if okv:
        for k in range(n):
            ctx.oblige("post", "sky2vec.vector_of_colatitude_longitude",
                       And(vecs[k].theta == Sym(lib.PI / 2 - rl(dec.at((k,))), True), vecs[k].phi == ra.at((k,))))
        for degrees in (False, True):
            back = ctx.interp.call(cls.getattr_(ctx, 'vec2sky'), [vecs], {'degrees': degrees})
            okb = isinstance(back, SArr) and len(back.shape_) == 2
            lab = "vec2sky.inverse_of_sky2vec" + (".degrees" if degrees else "")
            if not okb:
                ctx.oblige("post", lab, False)
                continue
            conv = (lambda v: Sym(rl(v) * 180 / lib.PI, True)) if degrees else (lambda v: v)
            for k in range(n):
                ctx.oblige("post", lab, And(back.at((k, 0)) == conv(ra.at((k,))), back.at((k, 1)) == conv(dec.at((k,)))))
    # scalar form of radec2sky
    a, d_ = Sym(z3.Real('ra_s'), True), Sym(z3.Real('dec_s'), True)
    sky1 = ctx.interp.call(cls.getattr_(ctx, 'radec2sky'), [a, d_], {})
    ctx.oblige("post", "radec2sky.scalar_gives_one_row",
               isinstance(sky1, SArr) and sky1.shape_ == (1, 2) and
               ctx.truth(And(sky1.at((0, 0)) == a, sky1.at((0, 1)) == d_)) is True
               if isinstance(sky1, SArr) and sky1.shape_ == (1, 2) else False)


def t_add_circles(ctx):
    reset_uids()
    setsmod.reset()
    calls = []
    g, cls = genv9(ctx, calls)
    D = 3
    form = ('scalar', 'vector')[ctx.choice(2)]
    dsel = ctx.choice(4)
    depth = [None, 2, 3, 5][dsel]
    r = mk_region(ctx, cls, "a", D, ctx.free_branch())
    V0 = snapshot_view(r)
    if form == 'scalar':
        ra, dec, rad = Sym(z3.Real('ra'), True), Sym(z3.Real('dec'), True), Sym(z3.Real('rad'), True)
        n = 1
        cen = [(ra, dec, rad)]
    else:
        n = 2
        ras, decs, rads = SArr.fresh("ra", (n,)), SArr.fresh("dec", (n,)), SArr.fresh("rad", (n,))
        ra, dec, rad = ras, decs, rads
        cen = [(ras.at((k,)), decs.at((k,)), rads.at((k,))) for k in range(n)]
    k, res = call(ctx, r, 'add_circles', ra, dec, rad, depth=depth)
    lab = "add_circles.%s.depth_%s" % (form, depth)
    if k != 'return':
        ctx.oblige("safe", lab + ".no_exception", False)
        return
    eff = D if depth is None or depth > D else depth
    discs = [c for c in calls if c[0] == 'query_disc']
    ctx.oblige("post", lab + ".one_disc_query_per_circle", len(discs) == n)
    ctx.axiom_once('pi', lib.PI_AXIOM)
    for j, c in enumerate(discs[:n]):
        _, nside, vec, radius, inclusive, nest, PIX = c
        ctx.oblige("post", lab + ".insert_depth_clamped_to_maxdepth", nside == 2 ** eff)
        ctx.oblige("post", lab + ".inclusive_nested", inclusive is True and nest is True)
        okv = isinstance(vec, Vec)
        ctx.oblige("post", lab + ".centre_vector_and_radius",
                   And(vec.theta == Sym(lib.PI / 2 - rl(cen[j][1]), True), vec.phi == cen[j][0], radius == cen[j][2])
                   if okv else False)
    q = skolem_pixel(ctx, D)
    want = Or(V0(q), *[c[6](idiv(q, 4 ** (D - eff))) for c in discs])
    ctx.oblige("post", lab + ".view_is_union_with_disc_pixels", view(r, q) == want, at=[q])
    from contracts.c08 import oblige_wf
    oblige_wf(ctx, r, lab, normalised=True)


def t_add_poly(ctx):
    reset_uids()
    setsmod.reset()
    calls = []
    g, cls = genv9(ctx, calls)
    D = 3
    depth = [None, 2, 7][ctx.choice(3)]
    nv = 3 + ctx.choice(2)
    r = mk_region(ctx, cls, "a", D, ctx.free_branch())
    V0 = snapshot_view(r)
    pos = [(Sym(z3.Real('pra%d' % k), True), Sym(z3.Real('pdec%d' % k), True)) for k in range(nv)]
    k, res = call(ctx, r, 'add_poly', list(pos), depth=depth)
    lab = "add_poly.%dgon.depth_%s" % (nv, depth)
    if k != 'return':
        ctx.oblige("safe", lab + ".no_exception", False)
        return
    eff = D if depth is None or depth > D else depth
    polys = [c for c in calls if c[0] == 'query_polygon']
    ctx.oblige("post", lab + ".one_polygon_query", len(polys) == 1)
    ctx.axiom_once('pi', lib.PI_AXIOM)
    if len(polys) == 1:
        _, nside, verts, inclusive, nest, PIX = polys[0]
        ctx.oblige("post", lab + ".insert_depth_clamped_to_maxdepth", nside == 2 ** eff)
        ctx.oblige("post", lab + ".inclusive_nested", inclusive is True and nest is True)
        okv = isinstance(verts, list) and len(verts) == nv and all(isinstance(v, Vec) for v in verts)
        ctx.oblige("post", lab + ".vertices_in_order_with_colatitude_longitude",
                   And(*[And(verts[j].theta == Sym(lib.PI / 2 - rl(pos[j][1]), True), verts[j].phi == pos[j][0])
                         for j in range(nv)]) if okv else False)
        q = skolem_pixel(ctx, D)
        ctx.oblige("post", lab + ".view_is_union_with_polygon_pixels",
                   view(r, q) == Or(V0(q), PIX(idiv(q, 4 ** (D - eff)))), at=[q])
    # fewer than three vertices are rejected
    r2 = mk_region(ctx, cls, "b", D, False)
    k2, res2 = call(ctx, r2, 'add_poly', list(pos[:2]))
    ctx.oblige("post", "add_poly.two_vertices_rejected", k2 == 'raise' and res2.tname == 'AssertionError')


def verify(S):
    for name, fn in (("regions.Region.sky_within", t_sky_within), ("regions.Region.conversions", t_conversions),
                     ("regions.Region.add_circles", t_add_circles), ("regions.Region.add_poly", t_add_poly)):
        if S.only and S.only not in name:
            continue
        ctx = Ctx(S, name)
        try:
            ctx.explore(fn)
        except Undecided as u:
            S.undecided.append("%s: %s" % (name, u))
    ctx = Ctx(S, "regions.Region.sky_within")

    def canary(c):
        reset_uids()
        setsmod.reset()
        g, cls = genv9(c, [])
        r = mk_region(c, cls, "a", 2, False)
        ra, dec, n = positions(c, 'vector')
        k, res = call(c, r, 'sky_within', ra, dec, degin=True)
        i = c.fresh_int("i")
        c.assume(And(i >= 0, i < n))
        c.oblige("canary", "sky_within_always_false", Not(res.at((i,))), expect="fail")
    ctx.explore(canary)


ENUMERATED = [{"what": 'maxdepth fixed at 3 (2..3 for sky_within); insert depth enumerated (None, 2, 3, 5 for circles; None, 2, 7 for polygons); vector form with 2 circles, scalar with 1; polygons with 3 and 4 vertices; pixel sets and coordinates symbolic', "counted_as_proved": "per instance"}]
REPLAY = {"*": "replay_cover"}
NATIVE_CHECKS = [{"func": "crosscheck", "payload": {}}]
