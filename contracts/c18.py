"""C18 — catalogues survive a write/read round trip (AegeanTools/catalogs.py, models.py).

The writers and readers themselves are third-party (astropy ascii / votable / fits, sqlite3) and are assumed to store and
return what they are given, at the precision of the declared column type.  What Aegean's own code decides, and what is
proved here for every catalogue (symbolic number of rows, symbolic values):
  classify_catalog : components / islands / simples receive exactly the sources of their class, in catalogue order;
  write_catalog    : one file per present class named <root>_comp|_isle|_simp<ext>; its table has one column per entry of the
                     class's `names`, in that order (prefix / galactic renaming applied to the column NAME only), column j row k =
                     attribute names[j] of source k; the table goes to the writer selected by the format;
  save_catalog     : extension -> writer / format dispatch;
  writeFITSTable   : every column is declared with a type that holds every row: strings as wide as the longest value (>= 1),
                     err_* and floats as 'E', integers as 'J', booleans as 'L'; name / array / order untouched;
  table_to_source_list : one source per row, in order; attribute p = the row's value of column p for every p in names that the
                     table has (float32 widened, masked -> NaN), class defaults otherwise.
"""
import ast

import z3

from pyvc.engine import (Ctx, PyObj, Model, Namespace, Obj, run_function, find_function, Env, Undecided, PyRaise, LoopSpec, SeqList,
                         SymList, Opaque, unparse, StrFormat, ExcValue, Closure)
from pyvc.values import Sym, And, Or, Not, Implies, ite, NaN, NaNType
from pyvc import lib
from contracts.models import flatten_str

PROPERTY = "C18"
CFILE = "AegeanTools/catalogs.py"
MFILE = "AegeanTools/models.py"

ASSUMPTIONS = [
    "astropy Table / ascii.write / votable / fits.BinTableHDU / sqlite3 store and return the values they are given, at the precision of "
    "the declared column type (double for csv/tab/tex/VOTable, single for FITS 'E'); readers return NaN as NaN or as a masked value",
    "the numeric round-trip precision itself and the sqlite rows are only cross-checked natively",
    "python str / list semantics; floats as reals",
]
I = z3.IntSort()
R = z3.RealSort()


def class_names(cls):
    node = find_function(MFILE, cls)
    for st in node.body:
        if isinstance(st, ast.Assign) and unparse(st.targets[0]) == 'names':
            return ast.literal_eval(st.value)
    raise Undecided("%s.names not found" % cls)


KINDS = [('ComponentSource', ('SimpleSource',)), ('IslandSource', ('SimpleSource',)), ('SimpleSource', ()), ('str', ())]


# ---------------------------------------------------------------------------
# classify_catalog
# ---------------------------------------------------------------------------

class Bucket(PyObj):
    def __init__(self, name):
        self.name, self.items = name, []

    def getattr_(self, ctx, name):
        if name == 'append':
            return Model(lambda c, x: self.items.append(x), 'list.append')
        raise Undecided("list." + name)

    def fingerprint_(self):
        return ('bucket', len(self.items)), []


def t_classify(ctx):
    fn = find_function(MFILE, 'classify_catalog')
    loop = next((st for st in fn.body if isinstance(st, ast.For)), None)
    if loop is None:
        raise Undecided("classify_catalog: loop not found")
    ctx.info = ctx.session.register_function(MFILE, 'classify_catalog', fn)
    kind = ctx.choice(len(KINDS), "class of the generic source")
    cls, bases = KINDS[kind]
    src = Obj(cls) if cls != 'str' else "not a source"
    if cls != 'str':
        src.bases = bases
    B = {n: Bucket(n) for n in ('components', 'islands', 'simples')}
    env = Env({'source': src, **B, 'ComponentSource': Namespace('ComponentSource'), 'IslandSource': Namespace('IslandSource'),
               'SimpleSource': Namespace('SimpleSource')})
    ctx.interp.relpath = MFILE
    ctx.interp.exec_block(loop.body, env)
    want = {'ComponentSource': 'components', 'IslandSource': 'islands', 'SimpleSource': 'simples', 'str': None}[cls]
    for n, b in B.items():
        ctx.oblige("post", "classify.source_appended_to_exactly_the_list_of_its_class",
                   (len(b.items) == 1 and b.items[0] is src) if n == want else len(b.items) == 0)
    # shape of the function: three empty lists, one pass over the catalogue, returned in the documented order
    ret = fn.body[-1]
    ok = isinstance(ret, ast.Return) and unparse(ret.value).replace('(', '').replace(')', '') == 'components, islands, simples'
    inits = [unparse(st) for st in fn.body if isinstance(st, ast.Assign)]
    ok = ok and sorted(inits) == sorted(['components = []', 'islands = []', 'simples = []']) and unparse(loop.iter) == 'catalog'
    ctx.oblige("post", "classify.lists_start_empty_one_pass_in_catalogue_order_returned_as_documented", ok)


# ---------------------------------------------------------------------------
# write_catalog
# ---------------------------------------------------------------------------

ATTR = z3.Function('attribute_value', I, I, I, R)      # (class, source index, name index) -> value (abstract)


class TableModel(PyObj):
    typename = 'Table'

    def __init__(self, cols, order, meta):
        self.cols, self.order, self.meta = cols, order, meta

    def getitem_(self, ctx, k):
        if isinstance(k, list) and all(isinstance(n, str) for n in k):
            return TableModel(self.cols, list(k), self.meta)
        if isinstance(k, str):
            return self.cols[k]
        raise Undecided("Table index")

    def getattr_(self, ctx, name):
        if name == 'colnames':
            return list(self.order)
        if name == 'meta':
            return self.meta
        if name == 'write':
            return Model(lambda c, *a, **kw: ctx.ghost.setdefault('writes', []).append(('Table.write', self, a, kw)), 'Table.write')
        raise Undecided("Table." + name)


def t_write_catalog(ctx):
    fmt = [None, 'csv', 'tab', 'latex', 'html', 'vot', 'vo', 'xml', 'hdf5', 'fits'][ctx.choice(10, "format")]
    prefix = 'pre' if ctx.free_branch() else None
    galactic = ctx.free_branch()
    present = [ctx.free_branch() for _ in range(3)]
    CL = ['ComponentSource', 'IslandSource', 'SimpleSource']
    names = {c: class_names(c) for c in CL}
    lists = []
    for ci, c in enumerate(CL):
        n = Sym(z3.Int('n_' + c))
        ctx.assume(n >= 1 if present[ci] else n == 0)

        def item(k, ci=ci, c=c):
            o = Obj(c, names=names[c], galactic=galactic)
            for j, nm in enumerate(names[c]):
                o.fields[nm] = Sym(ATTR(z3.IntVal(ci), Sym.lift(k), z3.IntVal(j)), True)
            return o
        lists.append(SeqList(ctx, n, item) if present[ci] else [])
    writes = []
    ctx.ghost['writes'] = writes
    meta = {'PROGRAM': 'x'}

    def m_table(c, d, meta=None):
        return TableModel(dict(d), list(d.keys()), meta)
    g = {'classify_catalog': Model(lambda c, cat: tuple(lists), 'classify_catalog'),
         'Table': Model(m_table, 'Table'), 'os': Namespace('os', path=Namespace('path', splitext=Model(lambda c, f: ('dir/cat', '.ext')))),
         'from_table': Model(lambda c, t: Obj('VOTableFile', table=t), 'from_table'),
         'writetoVO': Model(lambda c, v, f: writes.append(('writetoVO', v.fields['table'], (f,), {})), 'writetoVO'),
         'writeFITSTable': Model(lambda c, f, t: writes.append(('writeFITSTable', t, (f,), {})), 'writeFITSTable'),
         'ascii': Namespace('ascii', write=Model(lambda c, t, f, *a, **kw: writes.append(('ascii.write', t, (f,) + a, kw)), 'ascii.write')),
         'log': Namespace('log'), 'repr': Model(lambda c, v: 'repr'), }
    ctx.interp.inline.add('writer')
    out = run_function(ctx, CFILE, 'write_catalog', ['dir/cat.ext', Opaque('catalog')], kwargs={'fmt': fmt, 'meta': meta, 'prefix': prefix},
                       globals_=g)
    if out.kind != 'return':
        ctx.oblige("safe", "write_catalog.no_exception", False)
        return
    ctx.oblige("post", "write_catalog.one_file_per_present_class", len(writes) == sum(present))
    w_iter = iter(writes)
    for ci, c in enumerate(CL):
        if not present[ci]:
            continue
        w = next(w_iter, None)
        if w is None:
            break
        how, t, a, kw = w
        suffix = ['_comp', '_isle', '_simp'][ci]
        fname = a[0] if how != 'Table.write' else a[0]
        ctx.oblige("post", "write_catalog.file_name_is_root_suffix_extension", fname == 'dir/cat' + suffix + '.ext')
        want_writer = {'vot': 'writetoVO', 'vo': 'writetoVO', 'xml': 'writetoVO', 'hdf5': 'Table.write', 'fits': 'writeFITSTable'}.get(fmt, 'ascii.write')
        ctx.oblige("post", "write_catalog.writer_matches_the_format",
                   how == want_writer and (how != 'ascii.write' or (list(a[1:]) == ([fmt] if fmt else []))))
        if not isinstance(t, TableModel):
            ctx.oblige("post", "write_catalog.a_table_is_written", False)
            continue
        pre = (prefix + '_') if prefix else ''

        def colname(nm):
            if galactic:
                if nm.startswith('ra'):
                    nm = 'lon' + nm[2:]
                elif nm.endswith('ra'):
                    nm = nm[:-2] + 'lon'
                elif nm.startswith('dec'):
                    nm = 'lat' + nm[3:]
                elif nm.endswith('dec'):
                    nm = nm[:-3] + 'lat'
            return pre + nm
        ctx.oblige("post", "write_catalog.columns_are_the_class_names_in_order", t.order == [colname(nm) for nm in names[c]])
        k = Sym(z3.Int('row'))
        ctx.assume(And(k >= 0, k < lists[ci].len_(ctx)))
        goods = []
        for j, nm in enumerate(names[c]):
            col = t.cols.get(colname(nm))
            if not isinstance(col, SeqList):
                goods = [False]
                break
            goods.append(And(Sym(Sym.lift(col.len_(ctx)) == Sym.lift(lists[ci].len_(ctx))),
                             col.at(k) == Sym(ATTR(z3.IntVal(ci), k.e, z3.IntVal(j)), True)))
        ctx.oblige("post", "write_catalog.column_j_row_k_is_attribute_j_of_source_k", And(*goods) if goods != [False] else False)
        ctx.oblige("post", "write_catalog.metadata_is_attached", t.meta is meta)


# ---------------------------------------------------------------------------
# save_catalog dispatch
# ---------------------------------------------------------------------------

def t_dispatch(ctx):
    exts = ['ann', 'reg', 'db', 'sqlite', 'hdf5', 'fits', 'vo', 'vot', 'xml', 'csv', 'tab', 'tex', 'html', 'FITS', 'dat']
    ext = exts[ctx.choice(len(exts), "extension")]
    calls = []
    g = {'update_meta_data': Model(lambda c, m: {'DATE': 'd'}, 'update_meta_data'), 'log': Namespace('log'),
         'os': Namespace('os', path=Namespace('path', splitext=Model(lambda c, f: ('cat', '.' + ext)))),
         'writeAnn': Model(lambda c, *a, **kw: calls.append(('writeAnn', a, kw)), 'writeAnn'),
         'writeDB': Model(lambda c, *a, **kw: calls.append(('writeDB', a, kw)), 'writeDB'),
         'write_catalog': Model(lambda c, *a, **kw: calls.append(('write_catalog', a, kw)), 'write_catalog')}
    cat = Opaque('catalog')
    out = run_function(ctx, CFILE, 'save_catalog', ['cat.' + ext, cat], kwargs={'prefix': 'p'}, globals_=g)
    if out.kind != 'return' or len(calls) != 1:
        ctx.oblige("post", "save_catalog.exactly_one_writer_is_called", False)
        return
    how, a, kw = calls[0]
    e = ext.lower()
    if e in ('ann', 'reg'):
        ok = how == 'writeAnn' and a[0] == 'cat.' + ext and a[1] is cat and a[2] == e
    elif e in ('db', 'sqlite'):
        ok = how == 'writeDB' and a[0] == 'cat.' + ext and a[1] is cat
    else:
        fmt = {'csv': 'csv', 'tab': 'tab', 'tex': 'latex', 'html': 'html'}.get(e, e if e in ('hdf5', 'fits', 'vo', 'vot', 'xml') else 'tab')
        got_fmt = kw.get('fmt', a[2] if len(a) > 2 else None)
        ok = how == 'write_catalog' and a[0] == 'cat.' + ext and a[1] is cat and got_fmt == fmt and kw.get('prefix') == 'p'
    ctx.oblige("post", "save_catalog.extension_selects_the_documented_writer_and_format", ok)


# ---------------------------------------------------------------------------
# writeFITSTable
# ---------------------------------------------------------------------------

class StrVal(PyObj):
    typename = 'str'

    def __init__(self, length):
        self.length = length

    def len_(self, ctx):
        return self.length


def t_fits_types(ctx):
    n = Sym(z3.Int('n_rows'))
    ctx.assume(n >= 1)
    SLEN = z3.Function('string_length', I, I)
    cols = {}
    spec = [('island', 'int'), ('err_ra', 'float'), ('ra_str', 'str'), ('peak_flux', 'float'), ('uuid', 'str'), ('pre_uuid', 'str'),
            ('pre_err_a', 'float'), ('flag_bool', 'bool'), ('err_mask', 'int')]
    for ci, (nm, ty) in enumerate(spec):
        if ty == 'str':
            f = z3.Function('len_' + nm, I, I)

            def item(k, f=f):
                L = Sym(f(Sym.lift(k)))
                return StrVal(L)
            cols[nm] = SeqList(ctx, n, item)
            cols[nm].lenf = f
        elif ty == 'int':
            f = z3.Function('int_' + nm, I, I)
            cols[nm] = SeqList(ctx, n, lambda k, f=f: Sym(f(Sym.lift(k))))
        elif ty == 'bool':
            cols[nm] = SeqList(ctx, n, lambda k: True)
        else:
            f = z3.Function('flt_' + nm, I, R)
            cols[nm] = SeqList(ctx, n, lambda k, f=f: Sym(f(Sym.lift(k)), True))
    for nm, ty in spec:
        if ty == 'str':
            k_ = ctx.fresh_int("anyrow")
            # string lengths are non-negative
            f = cols[nm].lenf
            ctx.ufacts.append(lambda t, f=f: Sym(f(Sym.lift(t[0])) >= 0))
    table = __import__('contracts.c18', fromlist=['TableModel']).TableModel(cols, [s[0] for s in spec], {'PROGRAM': 'aegean', 'DATE': 'today'})
    made = []

    def m_column(c, name=None, format=None, array=None):
        made.append((name, format, array))
        return Obj('Column', name=name)
    hdr = {}

    class Header(PyObj):
        def setitem_(s, c, k, v):
            hdr.setdefault(k, []).append(v)
    tb = Obj('BinTableHDU', header=Header())
    written = []
    tb.methods['writeto'] = lambda c, s, f, **kw: written.append((f, kw))
    fits = Namespace('fits', Column=Model(m_column, 'fits.Column'), ColDefs=Model(lambda c, cs: ('ColDefs', cs), 'fits.ColDefs'),
                     BinTableHDU=Namespace('BinTableHDU', from_columns=Model(lambda c, cd: tb if cd[0] == 'ColDefs' and cd[1] is not None else None)))
    g = {'fits': fits, 'np': lib.std_np(int64=Namespace('int64'), int32=Namespace('int32'), float64=Namespace('float64'),
                                        float32=Namespace('float32')), 'log': Namespace('log')}
    ctx.interp.inline.add('FITSTableType')
    out = run_function(ctx, CFILE, 'writeFITSTable', ['cat.fits', table], globals_=g)
    if out.kind != 'return':
        ctx.oblige("safe", "fits.no_exception", False)
        return
    ctx.oblige("post", "fits.one_column_per_table_column_in_order_with_its_own_data",
               [m[0] for m in made] == [s[0] for s in spec] and all(m[2] is cols[m[0]] for m in made))
    k = Sym(z3.Int('row'))
    ctx.assume(And(k >= 0, k < n))
    for (nm, ty), (_, fmt, _arr) in zip(spec, made):
        if ty == 'str':
            parts = flatten_str(fmt)
            W = parts[0] if len(parts) == 2 and parts[1] == 'A' else (parts[1] if len(parts) == 3 and parts[0] == '' and parts[2] == 'A' else None)
            ok = isinstance(W, (int, Sym))
            ctx.oblige("post", "fits.string_column_is_wide_enough_for_every_row.%s" % nm,
                       And(W >= 1, W >= Sym(cols[nm].lenf(k.e))) if ok else False, at=[(k,)])
        elif ty == 'float':
            ctx.oblige("post", "fits.float_and_error_columns_are_E.%s" % nm, fmt == 'E')
        elif ty == 'int':
            ctx.oblige("post", "fits.integer_columns_are_J_error_columns_E.%s" % nm, fmt == ('E' if nm.startswith('err_') else 'J'))
        elif ty == 'bool':
            ctx.oblige("post", "fits.boolean_columns_are_L.%s" % nm, fmt == 'L')
    ctx.oblige("post", "fits.table_is_written_to_the_named_file_with_its_metadata",
               len(written) == 1 and written[0][0] == 'cat.fits' and sorted(hdr.get('HISTORY', [])) == sorted(['PROGRAM:aegean', 'DATE:today']))


# ---------------------------------------------------------------------------
# table_to_source_list
# ---------------------------------------------------------------------------

def t_read_back(ctx):
    cls = ['ComponentSource', 'IslandSource', 'SimpleSource'][ctx.choice(3, "class")]
    names = class_names(cls)
    kind = ['float64', 'float32', 'masked'][ctx.choice(3, "float cell kind")]
    missing = ctx.free_branch()
    colnames = [nm for j, nm in enumerate(names) if not (missing and j % 3 == 1)] + ['extra_column']
    n = Sym(z3.Int('n_rows'))
    ctx.assume(n >= 1)
    CELL = z3.Function('cell', I, I, R)
    masked = Obj('masked')
    f32 = Namespace('float32')

    class F32(PyObj):
        typename = 'float32'

        def __init__(s, v):
            s.v = v

    class Row(PyObj):
        def __init__(s, k):
            s.k = k

        def getitem_(s, c, key):
            if key not in colnames:
                raise PyRaise(ExcValue('KeyError', (key,)))
            j = names.index(key) if key in names else -1
            v = Sym(CELL(Sym.lift(s.k), z3.IntVal(j)), True)
            if key in ('uuid', 'ra_str', 'dec_str', 'island', 'source', 'flags'):
                return v
            if kind == 'float32':
                return F32(v)
            if kind == 'masked':
                return masked
            return v
    rows = SeqList(ctx, n, lambda k: Row(k))

    class Tab(PyObj):
        def getattr_(s, c, name):
            if name == 'colnames':
                return list(colnames)
            raise Undecided("Table." + name)

        def cut_loop_(s, interp, st, env, spec):
            return rows.cut_loop_(interp, st, env, spec)
    DEFAULT = 'class default'

    def m_src(c):
        o = Obj(cls)
        for nm in names:
            o.fields[nm] = DEFAULT
        return o
    srcT = Model(m_src, cls)
    srcT.names = names

    class SrcType(PyObj):
        typename = cls

        def call_(s, c, a, kw):
            return m_src(c)

        def getattr_(s, c, name):
            if name == 'names':
                return list(names)
            raise Undecided("%s.%s" % (cls, name))
    npns = lib.std_np(float32=f32, float64=Model(lambda c, v: v.v if isinstance(v, F32) else v, 'np.float64'),
                      ma=Namespace('ma', masked=masked), nan=NaN)
    out_list = []

    class OutList(SymList):
        pass
    st = {}

    def havoc(c, env):
        L = SymList.fresh(c, 'source_list', sort='int')
        L.appended = []
        orig = L.getattr_

        def ga(c2, name):
            if name == 'append':
                def app(c3, v):
                    L.appended.append(v)
                    L.writes.append((L.length, c3.fresh_int('stored')))
                    L.length = L.length + 1
                return Model(app, 'append')
            return orig(c2, name)
        L.getattr_ = ga
        env.vars['source_list'] = L
        st['L'] = L

    def inv(c, env, k):
        L = env.lookup('source_list')
        ln = L.length if isinstance(L, SymList) else len(L)
        return [("one_source_per_row_so_far", Sym(Sym.lift(ln) == Sym.lift(k)))]

    def after(c, env, k):
        L = st['L']
        ok = len(L.appended) == 1
        c.oblige("post", "read_back.exactly_one_source_per_row", ok)
        if not ok:
            return
        s = L.appended[0]
        for j, nm in enumerate(names):
            got = s.fields.get(nm)
            if nm not in colnames:
                c.oblige("post", "read_back.attributes_without_a_column_keep_the_class_default", got == DEFAULT if isinstance(got, str) else False)
                continue
            cell = Sym(CELL(Sym.lift(k), z3.IntVal(j)), True)
            if kind == 'masked' and nm not in ('uuid', 'ra_str', 'dec_str', 'island', 'source', 'flags'):
                c.oblige("post", "read_back.masked_cells_become_nan", isinstance(got, NaNType))
            else:
                c.oblige("post", "read_back.attribute_is_the_rows_value_of_its_column", (got == cell) if isinstance(got, Sym) else False)
    spec = LoopSpec(inv, havoc=havoc, label="rows", types={},
                    modifies=lambda c, env: [env.vars.get('source_list'), env.vars.get('src')] + list(st['L'].appended))
    spec.after_body = after

    def before(c, env, k):
        st['L'].appended = []
    spec.before_body = before
    ctx.interp.loops["for row in table"] = spec
    out = run_function(ctx, CFILE, 'table_to_source_list', [Tab()], kwargs={'src_type': SrcType()}, globals_={'np': npns})
    if out.kind != 'return':
        ctx.oblige("safe", "read_back.no_exception", False)
        return
    res = out.value
    ctx.oblige("post", "read_back.returns_one_source_per_row", Sym(Sym.lift(res.length) == n.e) if isinstance(res, SymList) else False)
    none = run_function(ctx, CFILE, 'table_to_source_list', [None], kwargs={'src_type': SrcType()}, globals_={'np': npns})
    ctx.oblige("post", "read_back.no_table_gives_an_empty_list", none.kind == 'return' and none.value == [])


# ---------------------------------------------------------------------------
# writeDB
# ---------------------------------------------------------------------------

class RowVal(PyObj):
    """the list returned by source.as_list(): attribute values in `names` order"""
    typename = 'list'

    def __init__(self, ci, k, n):
        self.ci, self.k, self.n = ci, k, n

    def iter_(self, ctx):
        return [Sym(ATTR(z3.IntVal(self.ci), Sym.lift(self.k), z3.IntVal(j)), True) for j in range(self.n)]

    def len_(self, ctx):
        return self.n

    def binop_(self, ctx, op, other, swapped):
        if op == 'Eq' and not isinstance(other, (list, RowVal)):
            return False          # a list never equals a number
        if op == 'NotEq' and not isinstance(other, (list, RowVal)):
            return True
        return NotImplemented


def t_write_db(ctx):
    CL = ['ComponentSource', 'IslandSource', 'SimpleSource']
    names = {c: class_names(c) for c in CL}
    present = [ctx.free_branch() for _ in range(3)]
    lists = []
    for ci, c in enumerate(CL):
        n = Sym(z3.Int('n_' + c))
        ctx.assume(n >= 1 if present[ci] else n == 0)

        def item(k, ci=ci, c=c):
            o = Obj(c, names=names[c])
            for j, nm in enumerate(names[c]):
                o.fields[nm] = Sym(ATTR(z3.IntVal(ci), Sym.lift(k), z3.IntVal(j)), True)
            o.methods['as_list'] = lambda c2, s, ci=ci, k=k, c=c: RowVal(ci, k, len(names[c]))
            return o
        lists.append(SeqList(ctx, n, item) if present[ci] else [])
    ex, many = [], []
    fs = []
    existed = ctx.free_branch()      # a database file of that name may be left over from an earlier save
    db = Obj('cursor')
    db.methods['execute'] = lambda c, s, stmt, *a: (ex.append((stmt, a)), Obj('result', fetchall=None))[1]
    db.methods['executemany'] = lambda c, s, stmt, data: many.append((stmt, data))
    res = Obj('result')
    res.methods['fetchall'] = lambda c, s: []
    db.methods['execute'] = lambda c, s, stmt, *a: (ex.append((stmt, a)), res)[1]
    conn = Obj('connection')
    conn.methods['cursor'] = lambda c, s: db
    conn.methods['commit'] = lambda c, s: ex.append(('COMMIT', ()))
    conn.methods['close'] = lambda c, s: None
    g = {'classify_catalog': Model(lambda c, cat: tuple(lists), 'classify_catalog'), 'log': Namespace('log'),
         'os': Namespace('os', path=Namespace('path', exists=Model(lambda c, f: (fs.append(('exists', f)), existed)[1])),
                         remove=Model(lambda c, f: fs.append(('remove', f)))),
         'sqlite3': Namespace('sqlite3', connect=Model(lambda c, f: (fs.append(('connect', f)), conn)[1])),
         'np': lib.std_np(int64=Namespace('int64'), int32=Namespace('int32'), float64=Namespace('float64'), float32=Namespace('float32'))}
    ctx.interp.inline.update(['sqlTypes', 'nulls'])
    from pyvc.engine import Closure
    g['nulls'] = None
    del g['nulls']
    fn_nulls = find_function(CFILE, 'nulls')
    out = None
    env_g = g

    def run():
        menv_holder = {}
        return run_function(ctx, CFILE, 'writeDB', ['cat.db', Opaque('catalog')], kwargs={'meta': {'PROGRAM': 'x'}}, globals_=env_g)
    # `nulls` is a module-level helper of catalogs.py: give the interpreter its real body
    from pyvc.engine import Env as _Env
    helper_env = _Env(dict(g))
    g['nulls'] = Closure(fn_nulls, helper_env, CFILE, 'nulls')
    out = run()
    if out.kind != 'return':
        ctx.oblige("safe", "db.no_exception", False)
        return
    # the database holds the same rows as the catalogue: nothing of an earlier file of that name may survive
    ops = [o for o in fs if o[0] in ('remove', 'connect')]
    stmts_ = [str(e[0]).upper() for e in ex]
    first_create = next((k for k, t_ in enumerate(stmts_) if t_.startswith('CREATE')), len(stmts_))
    dropped_all = all(any(t_.startswith('DROP TABLE IF EXISTS ' + tb) for t_ in stmts_[:first_create])
                      for tb in ('COMPONENTS', 'ISLANDS', 'SIMPLES', 'META'))
    ctx.oblige("post", "db.a_left_over_file_is_removed_or_emptied_before_the_tables_are_written",
               ops == ([('remove', 'cat.db')] if existed else []) + [('connect', 'cat.db')] or
               (ops == [('connect', 'cat.db')] and dropped_all))
    ctx.oblige("post", "db.one_insert_per_present_class_and_a_commit", len(many) == sum(present) and ('COMMIT', ()) in ex)
    it = iter(many)
    tabs = ['components', 'islands', 'simples']
    for ci, c in enumerate(CL):
        if not present[ci]:
            continue
        m = next(it, None)
        if m is None:
            break
        stmt, data = m
        want = 'INSERT INTO {0} ({1}) VALUES ({2})'.format(tabs[ci], ','.join(names[c]), ','.join('?' for _ in names[c]))
        ctx.oblige("post", "db.insert_statement_names_the_class_columns_in_order", stmt == want)
        created = [e[0] for e in ex if isinstance(e[0], str) and e[0].startswith('CREATE TABLE ' + tabs[ci] + ' ')]
        ctx.oblige("post", "db.table_is_created_with_one_column_per_name",
                   len(created) == 1 and [p.split(' ')[0] for p in created[0][created[0].index('(') + 1:-1].split(',')] == names[c])
        k = Sym(z3.Int('row'))
        ctx.assume(And(k >= 0, k < lists[ci].len_(ctx)))
        if not isinstance(data, SeqList):
            ctx.oblige("post", "db.row_k_holds_the_attributes_of_source_k", False)
            continue
        row = data.at(k)
        if isinstance(row, RowVal):
            ok = row.ci == ci and (row.k is k or Sym.lift(row.k).eq(k.e))
            ctx.oblige("post", "db.row_k_holds_the_attributes_of_source_k",
                       And(Sym(Sym.lift(data.len_(ctx)) == Sym.lift(lists[ci].len_(ctx))), ok))
        elif isinstance(row, list) and len(row) == len(names[c]):
            goods = [(v == Sym(ATTR(z3.IntVal(ci), k.e, z3.IntVal(j)), True)) if isinstance(v, Sym) else False for j, v in enumerate(row)]
            ctx.oblige("post", "db.row_k_holds_the_attributes_of_source_k", And(*goods) if all(g_ is not False for g_ in goods) else False)
        else:
            ctx.oblige("post", "db.row_k_holds_the_attributes_of_source_k", False)


def verify(S):
    targets = [("catalogs.writeDB", t_write_db),
               ("models.classify_catalog", t_classify), ("catalogs.write_catalog", t_write_catalog), ("catalogs.save_catalog", t_dispatch),
               ("catalogs.writeFITSTable", t_fits_types), ("catalogs.table_to_source_list", t_read_back)]
    for name, fn in targets:
        if S.only and S.only not in name:
            continue
        ctx = Ctx(S, name)
        if fn is t_write_db:
            ctx.max_paths = 300       # the real code has 8 paths; a per-value conversion would branch 2^27 times
        try:
            ctx.explore(fn)
        except Undecided as u:
            S.undecided.append("%s: %s" % (name, u))


REPLAY = {"*": "replay_roundtrip"}
NATIVE_CHECKS = [{"func": "crosscheck", "payload": {}, "timeout": 1500}]
