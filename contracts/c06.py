"""C06 — BANE background/noise maps obey the estimator contract (AegeanTools/BANE.py: sigma_filter, sigmaclip, filter_image,
get_step_size; AegeanTools/CLI/BANE.py: main from the parsed options on).

Decided: the index / dataflow contract of one stripe (contracts/bane.py): the loaded rows are the stripe plus half a box,
both passes clip boxes of `data` at 3 sigma, EVERY pixel that enters a pass-2 (noise) box has had the interpolated
background subtracted (so adding a constant to the image cannot leak into the noise map), subtraction / write / mask
slices are aligned between data coordinates and image rows, the interpolation grids are strictly increasing with >= 2
nodes and contain every query point (no exception, every own row written), masking blanks both maps on own rows;
and for sigmaclip: empty input -> (nan, nan); otherwise the result is (mean, std) of a non-empty sub-selection of the
finite input values, hence min <= mean <= max and 0 <= std <= max - min; a constant input gives (c, 0).
From these and the assumed contracts of numpy mean/std (affine equivariance, range) and RegularGridInterpolator
(bilinear, range preserving, exact for affine data) the algebraic clauses follow; they are cross-checked natively.
filter_image: the estimator is asked with the image's shape (rows first) and the caller's settings (defaults: grid from the header,
box = 6 grid steps, plane 0), the value handed back is the estimator's own pair of arrays, never touched by the file writing, and
the files hold map / BSCALE under the image's header.  get_step_size: a square grid of the least integer >= 4 beam widths in
pixels (16 without beam or pixel-scale keywords).  CLI: each parsed option reaches filter_image under its own keyword (the
parser itself -- argparse -- is exercised natively).
NOT decided: the stationary-Gaussian (statistical) clause.
"""
import z3

from pyvc.engine import (Ctx, PyObj, Model, Namespace, Obj, run_function, Undecided, PyRaise, ExcValue)
from pyvc.values import Sym, And, Or, Not, Implies, ite, NaN, NaNType
from pyvc import lib
from contracts.bane import explore_sigma_filter, FILE

PROPERTY = "C06"
ASSUMPTIONS = [
    "numpy: mean(c + k x) = c + k mean(x), std(c + k x) = |k| std(x), min <= mean <= max, 0 <= std <= max - min, "
    "std = 0 and mean = c for a constant selection; a[mask] keeps exactly the selected elements",
    "scipy RegularGridInterpolator (linear): requires strictly increasing grids (>= 2 nodes) and query points inside the hull; the "
    "result is bilinear per cell: range preserving, affine equivariant",
    "astropy fits section reads return the stored rows unscaled (do_not_scale_image_data=True)",
    "the stationary Gaussian clause (maps equal m and s within sampling error) is statistical: not decided",
    "floats as reals (exact equality for the constant image is subject to IEEE rounding of mean/std)",
]

R = z3.RealSort()
MEAN = z3.Function('sel_mean', z3.IntSort(), R)
STD = z3.Function('sel_std', z3.IntSort(), R)
NSEL = z3.Function('sel_count', z3.IntSort(), z3.IntSort())


class Bag(PyObj):
    """a selection of the finite input values, identified by a version number"""
    _v = [0]

    def __init__(self, ctx, parent=None, band=None):
        Bag._v[0] += 1
        self.v = z3.IntVal(Bag._v[0])
        self.parent = parent
        lo_v, hi_v = Sym(z3.Real('vmin'), True), Sym(z3.Real('vmax'), True)
        n = Sym(NSEL(self.v))
        ctx.assume(And(n >= 0, lo_v <= hi_v))
        m, s = Sym(MEAN(self.v), True), Sym(STD(self.v), True)
        # assumed numpy contract of mean/std on a non-empty selection of values in [vmin, vmax]
        ctx.assume(Implies(n >= 1, And(m >= lo_v, m <= hi_v, s >= 0, s <= hi_v - lo_v,
                                       Implies(lo_v == hi_v, And(m == lo_v, s == 0)))))
        if parent is not None:
            ctx.assume(n <= Sym(NSEL(parent.v)))
            if band is not None:
                a, b = band
                # an open band of zero (or negative) width selects nothing
                ctx.assume(Implies(a >= b, n == 0))

    def len_(self, ctx):
        return Sym(NSEL(self.v))

    def binop_(self, ctx, op, other, swapped):
        if op in ('Gt', 'Lt', 'GtE', 'LtE'):
            return Cmp(self, op, other, swapped)
        return NotImplemented

    def getitem_(self, ctx, key):
        if isinstance(key, Band):
            return Bag(ctx, parent=self, band=(key.lo, key.hi))
        if isinstance(key, Cmp) and key.kind == 'finite':
            return Bag(ctx, parent=None)
        raise Undecided("selection with an unmodelled mask")


class Cmp(PyObj):
    def __init__(self, bag, op, other, swapped, kind='cmp'):
        self.bag, self.op, self.other, self.swapped, self.kind = bag, op, other, swapped, kind

    def binop_(self, ctx, op, other, swapped):
        if op == 'and' and isinstance(other, Cmp) and other.bag is self.bag:
            lo = [c.other for c in (self, other) if (c.op in ('Gt', 'GtE')) != c.swapped]
            hi = [c.other for c in (self, other) if (c.op in ('Lt', 'LtE')) != c.swapped]
            if len(lo) == 1 and len(hi) == 1:
                ctx.ghost.setdefault('bands', []).append((lo[0], hi[0], self.op, other.op))
                return Band(lo[0], hi[0])
        return NotImplemented


class Band(PyObj):
    def __init__(self, lo, hi):
        self.lo, self.hi = lo, hi


def t_sigmaclip(ctx):
    Bag._v[0] = 0
    empty = ctx.free_branch()

    class Arr(PyObj):
        pass
    arr = Arr()

    def m_array(c, x):
        return ArrAll()

    class ArrAll(PyObj):
        def getitem_(s, c, key):
            b = Bag(c)
            if empty:
                c.assume(Sym(NSEL(b.v)) == 0)
            else:
                c.assume(Sym(NSEL(b.v)) >= 1)
            return b
    np_ = lib.std_np(array=Model(m_array), isfinite=Model(lambda c, x: Cmp(None, 'finite', None, False, kind='finite')),
                     std=Model(lambda c, b: Sym(STD(b.v), True)), mean=Model(lambda c, b: Sym(MEAN(b.v), True)))
    g = {'np': np_, 'logging': Namespace('logging')}
    lo, hi = 3, 3
    out = run_function(ctx, FILE, 'sigmaclip', [arr, lo, hi], globals_=g)
    if out.kind != 'return' or not isinstance(out.value, tuple) or len(out.value) != 2:
        ctx.oblige("post", "sigmaclip.returns_mean_std", False)
        return
    m, s = out.value
    if empty:
        ctx.oblige("post", "sigmaclip.empty_input_gives_nan_nan", isinstance(m, NaNType) and isinstance(s, NaNType))
        return
    vmin, vmax = Sym(z3.Real('vmin'), True), Sym(z3.Real('vmax'), True)
    ok = isinstance(m, Sym) and isinstance(s, Sym)
    ctx.oblige("post", "sigmaclip.result_is_mean_std_of_a_selection", ok)
    if not ok:
        return
    ctx.oblige("post", "sigmaclip.mean_in_range", And(m >= vmin, m <= vmax))
    ctx.oblige("post", "sigmaclip.std_in_range", And(s >= 0, s <= vmax - vmin))
    ctx.oblige("post", "sigmaclip.const_gives_c_and_zero", Implies(vmin == vmax, And(m == vmin, s == 0)))
    for (blo, bhi, o1, o2) in ctx.ghost.get('bands', []):
        ctx.oblige("post", "sigmaclip.clip_band_is_open_and_symmetric_in_lo_hi",
                   o1 in ('Gt', 'Lt') and o2 in ('Gt', 'Lt'))


# ---------------------------------------------------------------------------
# sigmaclip is affine-equivariant (relational: the real body is run on x and on k*x + c, k != 0)
# ---------------------------------------------------------------------------

class ABag(PyObj):
    """the selection number `v` of the finite values of x (aff=None) or of k*x + c (aff=(k, c))"""

    def __init__(self, v, aff, log):
        self.v, self.aff, self.log = v, aff, log

    def stats(self):
        m, s = Sym(MEAN(z3.IntVal(self.v)), True), Sym(STD(z3.IntVal(self.v)), True)
        if self.aff is None:
            return m, s
        k, c = self.aff
        return k * m + c, ite(k >= 0, k, -k) * s

    def len_(self, ctx):
        return Sym(NSEL(z3.IntVal(self.v)))

    def binop_(self, ctx, op, other, swapped):
        if op in ('Gt', 'Lt', 'GtE', 'LtE'):
            return ACmp(self, op, other, swapped)
        return NotImplemented

    def getitem_(self, ctx, key):
        if isinstance(key, ABand) and key.bag is self:
            self.log.append((self.v, key.lo, key.hi, key.ops))
            return ABag(self.v + 1, self.aff, self.log)
        if isinstance(key, ACmp) and key.kind == 'finite':
            return ABag(1, self.aff, self.log)
        raise Undecided("selection with an unmodelled mask")


class ACmp(PyObj):
    def __init__(self, bag, op, other, swapped, kind='cmp'):
        self.bag, self.op, self.other, self.swapped, self.kind = bag, op, other, swapped, kind

    def binop_(self, ctx, op, other, swapped):
        if op == 'and' and isinstance(other, ACmp) and other.bag is self.bag:
            lo = [c for c in (self, other) if (c.op in ('Gt', 'GtE')) != c.swapped]
            hi = [c for c in (self, other) if (c.op in ('Lt', 'LtE')) != c.swapped]
            if len(lo) == 1 and len(hi) == 1:
                return ABand(self.bag, lo[0].other, hi[0].other, (lo[0].op in ('GtE', 'LtE'), hi[0].op in ('GtE', 'LtE')))
        return NotImplemented


class ABand(PyObj):
    def __init__(self, bag, lo, hi, ops):
        self.bag, self.lo, self.hi, self.ops = bag, lo, hi, ops


def t_sigmaclip_affine(ctx):
    k, c0 = Sym(z3.Real('scale_k'), True), Sym(z3.Real('offset_c'), True)
    ctx.assume(k != 0)
    lo = hi = Sym(z3.Real('nsigma'), True)         # BANE clips symmetrically (sigmaclip(x, 3, 3)); needed for k < 0
    ctx.assume(lo > 0)
    for v in range(1, 14):
        vv = z3.IntVal(v)
        ctx.assume(And(Sym(NSEL(vv)) >= 0, Sym(STD(vv), True) >= 0))
    ctx.assume(Sym(NSEL(z3.IntVal(1))) >= 1)
    runs = []
    for aff in (None, (k, c0)):
        log = []

        class Arr(PyObj):
            pass

        class ArrAll(PyObj):
            def getitem_(s, c, key, aff=aff, log=log):
                return ABag(1, aff, log)

        def isclose(c, a, b, rtol=1e-05, atol=1e-08, **kw):
            d = a - b
            return ite(d >= 0, d, -d) <= atol + rtol * ite(b >= 0, b, -b)
        np_ = lib.std_np(array=Model(lambda c, x: ArrAll()), isfinite=Model(lambda c, x: ACmp(None, 'finite', None, False, kind='finite')),
                         std=Model(lambda c, b: b.stats()[1]), mean=Model(lambda c, b: b.stats()[0]), isclose=Model(isclose),
                         allclose=Model(isclose))
        out = run_function(ctx, FILE, 'sigmaclip', [Arr(), lo, hi], globals_={'np': np_, 'logging': Namespace('logging')})
        runs.append((out, log))
    (o1, l1), (o2, l2) = runs
    ok = o1.kind == 'return' and o2.kind == 'return' and isinstance(o1.value, tuple) and isinstance(o2.value, tuple)
    ctx.oblige("post", "sigmaclip.affine.both_runs_return_mean_std", ok)
    if not ok:
        return
    # every selection the scaled run makes is the affine image of the band the original run used at the same step
    same_steps = len(l1) == len(l2)
    ctx.oblige("post", "sigmaclip.affine.same_number_of_clipping_passes", same_steps)
    if not same_steps:
        return
    for (v1, a1, b1, ops1), (v2, a2, b2, ops2) in zip(l1, l2):
        img = Or(And(k > 0, a2 == k * a1 + c0, b2 == k * b1 + c0), And(k < 0, a2 == k * b1 + c0, b2 == k * a1 + c0))
        ctx.oblige("post", "sigmaclip.affine.clip_band_of_the_scaled_data_is_the_image_of_the_band", And(v1 == v2, img) if ops1 == ops2 and ops1[0] == ops1[1] else False)
    m1, s1 = o1.value
    m2, s2 = o2.value
    if isinstance(m1, NaNType) or isinstance(m2, NaNType):
        ctx.oblige("post", "sigmaclip.affine.nan_for_both_or_neither", isinstance(m1, NaNType) and isinstance(m2, NaNType))
        return
    ctx.oblige("post", "sigmaclip.affine.mean_scales_and_shifts_std_scales_by_abs_k", And(m2 == k * m1 + c0, s2 == ite(k >= 0, k, -k) * s1))


class MapArr(PyObj):
    """one of the two maps returned by the estimator; only `map / scalar` is allowed and gives a NEW array"""

    def __init__(self, name, derived=None):
        self.name, self.derived = name, derived

    def __repr__(self):
        return "<%s>" % self.name

    def binop_(self, ctx, op, other, swapped):
        if op == 'truediv' and not swapped and self.derived is None:
            return MapArr(self.name + "/s", derived=(self, other))
        # anything else (in particular the in-place forms) changes or replaces the caller's result
        ctx.ghost.setdefault('map_ops', []).append((self.name, op))
        return self


def t_filter_image(ctx):
    """BANE.filter_image: the maps handed back are the estimator's own arrays, untouched, whether or not files are written;
    the files hold map / BSCALE; the estimator is asked with the image's shape and the caller's settings"""
    from pyvc.engine import SymDict, Opaque
    n1, n2, naxis, n3 = (Sym(z3.Int(n)) for n in ('NAXIS1', 'NAXIS2', 'NAXIS', 'NAXIS3'))
    ctx.assume(And(n1 >= 1, n2 >= 1, naxis >= 2, naxis <= 4, n3 >= 1))
    has_bscale = ctx.fresh_bool('has_BSCALE')
    bscale = Sym(z3.Real('BSCALE'), True)
    ctx.assume(bscale != 0)
    header = SymDict('header', items={'NAXIS1': n1, 'NAXIS2': n2, 'NAXIS': naxis, 'NAXIS3': n3}, maybe={'BSCALE': (has_bscale, bscale)})
    writes, calls, gs_calls = [], [], []

    def m_estimator(c, im_name, **kw):
        calls.append((im_name, kw))
        return (MapArr('bkg'), MapArr('rms'))

    def m_get_step(c, h):
        gs_calls.append(h)
        g0, g1 = Sym(z3.Int('default_step0')), Sym(z3.Int('default_step1'))
        c.assume(And(g0 >= 1, g1 >= 1))
        return (g0, g1)

    class HDU(PyObj):
        def __init__(s, data):
            s.f = {'data': data, 'header': None}

        def getattr_(s, c, name):
            return s.f[name]

        def setattr_(s, c, name, v):
            s.f[name] = v

    def m_compress(c, hdulist, factor, outfile):
        hdu = hdulist[0] if isinstance(hdulist, list) else c.interp.getitem(hdulist, 0)
        writes.append((hdu.f['data'], hdu.f['header'], outfile, ('compress', factor)))

    def m_write(c, data, hdr, outfile):
        writes.append((data, hdr, outfile, None))
    g = {'fits': Namespace('fits', getheader=Model(lambda c, fn, **k: header), PrimaryHDU=Model(lambda c, d=None, **k: HDU(d)),
                           HDUList=Model(lambda c, l: list(l))),
         'get_step_size': Model(m_get_step), 'filter_mc_sharemem': Model(m_estimator), 'write_fits': Model(m_write),
         'compress': Model(m_compress), 'logging': Namespace('logging'),
         'copy': Namespace('copy', deepcopy=Model(lambda c, x: x.clone() if hasattr(x, 'clone') else x)),
         'os': Namespace('os', path=Namespace('path', expanduser=Model(lambda c, x: x))),
         '__version__': 'v', '__date__': 'd'}
    # arguments: every optional one either left out (None) or an arbitrary value
    out_base = 'OUT' if ctx.free_branch() else None
    step = (Sym(z3.Int('step0')), Sym(z3.Int('step1'))) if ctx.free_branch() else None
    box = (Sym(z3.Int('box0')), Sym(z3.Int('box1'))) if ctx.free_branch() else None
    if step is not None:
        ctx.assume(And(step[0] >= 1, step[1] >= 1))
    compressed = ctx.free_branch()
    mask = ctx.free_branch()
    cube = Sym(z3.Int('cube_index')) if ctx.free_branch() else None
    if cube is not None:
        ctx.assume(cube >= 0)
    cores, nslice = Opaque('cores'), Opaque('nslice')
    out = run_function(ctx, FILE, 'filter_image', ['IMG', out_base],
                       {'step_size': step, 'box_size': box, 'cores': cores, 'mask': mask, 'compressed': compressed, 'nslice': nslice,
                        'cube_index': cube}, globals_=g)
    ctx.oblige("safe", "filter_image.no_exception", out.kind == 'return')
    if out.kind != 'return':
        return
    cidx = cube if cube is not None else 0
    if not calls:
        # the only way out without estimating: a plane index beyond the cube
        ctx.oblige("post", "filter_image.gives_up_only_for_a_plane_index_beyond_the_cube",
                   And(naxis > 2, cidx >= n3) if out.value is None and not writes else False)
        return
    ctx.oblige("post", "filter_image.one_estimator_call", len(calls) == 1)
    ctx.oblige("post", "filter_image.plane_index_inside_the_cube", Implies(naxis > 2, cidx < n3))
    im_name, kw = calls[0]
    S = step if step is not None else ((Sym(z3.Int('default_step0')), Sym(z3.Int('default_step1'))) if gs_calls else None)
    ctx.oblige("post", "filter_image.default_step_comes_from_the_image_header", (step is not None) or (len(gs_calls) == 1 and gs_calls[0] is header))
    ok_kw = set(kw) == {'step_size', 'box_size', 'cores', 'shape', 'nslice', 'domask', 'cube_index'}
    ctx.oblige("post", "filter_image.estimator_gets_every_setting", ok_kw and im_name == 'IMG')
    if not ok_kw or S is None:
        return
    ctx.oblige("post", "filter_image.estimator_gets_the_image_shape_rows_first",
               isinstance(kw['shape'], tuple) and len(kw['shape']) == 2 and And(kw['shape'][0] == n2, kw['shape'][1] == n1))
    ctx.oblige("post", "filter_image.estimator_gets_the_callers_cores_stripes_mask_and_plane",
               kw['cores'] is cores and kw['nslice'] is nslice and kw['domask'] is mask and
               (kw['cube_index'] is cube if cube is not None else kw['cube_index'] == 0))
    st = kw['step_size']
    ok_t = isinstance(st, tuple) and len(st) == 2
    mn = ite(S[0] <= S[1], S[0], S[1])
    ctx.oblige("post", "filter_image.grid_is_the_callers_or_the_default_made_square_only_for_compressed_output",
               ok_t and (And(st[0] == ite(S[0] == S[1], S[0], mn), st[1] == ite(S[0] == S[1], S[1], mn)) if compressed
                         else And(st[0] == S[0], st[1] == S[1])))
    bx = kw['box_size']
    ok_b = isinstance(bx, tuple) and len(bx) == 2
    ctx.oblige("post", "filter_image.box_is_the_callers_or_six_grid_steps",
               ok_b and (And(bx[0] == box[0], bx[1] == box[1]) if box is not None else And(bx[0] == 6 * S[0], bx[1] == 6 * S[1])))
    # the value handed back: the estimator's own arrays, untouched
    v = out.value
    ok_v = isinstance(v, tuple) and len(v) == 2 and isinstance(v[0], MapArr) and isinstance(v[1], MapArr) and \
        v[0].name == 'bkg' and v[1].name == 'rms' and v[0].derived is None and v[1].derived is None
    ctx.oblige("post", "filter_image.returns_the_estimated_background_and_noise_in_that_order", ok_v)
    ctx.oblige("post", "filter_image.returned_maps_are_not_modified_by_writing_files", not ctx.ghost.get('map_ops'))
    # files
    if out_base is None:
        ctx.oblige("post", "filter_image.no_file_without_an_output_name", not writes)
        return
    names = sorted(w[2] for w in writes if isinstance(w[2], str))
    ctx.oblige("post", "filter_image.writes_exactly_bkg_and_rms_files", len(writes) == 2 and names == ['OUT_bkg.fits', 'OUT_rms.fits'])
    if len(writes) != 2:
        return
    k = ite(has_bscale, bscale, 1.0)
    for data, hdr, name, how in writes:
        want = 'bkg' if str(name).endswith('_bkg.fits') else 'rms'
        ok_d = isinstance(data, MapArr) and data.derived is not None and data.derived[0].name == want
        ctx.oblige("post", "filter_image.%s_file_holds_the_map_divided_by_bscale_iff_present" % want,
                   And(Sym(data.derived[1], True) == k) if ok_d and not isinstance(data.derived[1], Sym) else (data.derived[1] == k if ok_d else False))
        ok_h = isinstance(hdr, SymDict) and all(hdr.vals.get(kk) is header.vals[kk] for kk in ('NAXIS1', 'NAXIS2', 'NAXIS', 'NAXIS3', 'BSCALE')) \
            and hdr.present.get('BSCALE') is header.present.get('BSCALE')
        ctx.oblige("post", "filter_image.%s_file_carries_the_image_header" % want, ok_h)
        if compressed:
            ctx.oblige("post", "filter_image.%s_file_compressed_by_the_grid_step" % want,
                       how is not None and ok_t and how[1] == st[0])
        else:
            ctx.oblige("post", "filter_image.%s_file_written_uncompressed" % want, how is None)


def t_get_step_size(ctx):
    """BANE.get_step_size: a square grid of n >= 1 pixels with n the least integer >= 4 beam widths / pixel width
    (16 without beam keywords), whichever of CDELT / CD the header carries"""
    from pyvc.engine import SymDict
    names = ('BMAJ', 'BMIN', 'CDELT1', 'CDELT2', 'CD1_1', 'CD2_2', 'CD1_2', 'CD2_1')
    v = {n: Sym(z3.Real(n), True) for n in names}
    has = {n: ctx.fresh_bool('has_' + n) for n in names}
    # a usable header: positive beam, non-degenerate pixel scale in the keywords that are present
    ctx.assume(And(v['BMAJ'] * v['BMIN'] != 0, v['CDELT1'] * v['CDELT2'] != 0, v['CD1_1'] * v['CD2_2'] != 0))
    # CDELT2 accompanies CDELT1, CD2_2 accompanies CD1_1 (FITS WCS keyword pairs)
    ctx.assume(And(Implies(has['CDELT1'], has['CDELT2']), Implies(has['CD1_1'], has['CD2_2'])))
    header = SymDict('header', maybe={n: (has[n], v[n]) for n in names})
    out = run_function(ctx, FILE, 'get_step_size', [header], globals_={'np': lib.std_np(), 'logging': Namespace('logging')})
    ctx.oblige("safe", "get_step_size.no_exception_on_a_usable_header", out.kind == 'return')
    if out.kind != 'return':
        return
    r = out.value
    ok = isinstance(r, tuple) and len(r) == 2
    ctx.oblige("post", "get_step_size.gives_a_pair", ok)
    if not ok:
        return
    ctx.oblige("post", "get_step_size.square_grid_of_at_least_one_pixel", And(r[0] == r[1], r[0] >= 1), timeout_ms=30000)
    ctx.oblige("post", "get_step_size.sixteen_pixels_without_beam_keywords", Implies(Not(And(has['BMAJ'], has['BMIN'])), r[0] == 16))
    ctx.oblige("post", "get_step_size.sixteen_pixels_without_a_pixel_scale",
               Implies(And(has['BMAJ'], has['BMIN'], Not(has['CDELT1']), Not(has['CD1_1'])), r[0] == 16), timeout_ms=30000)
    # n is the least integer with n * pixel >= 4 * beam (squared to stay polynomial): n^2 |pix area| >= 16 |beam area| > (n-1)^2 |pix area|
    ab = lambda x: ite(x >= 0, x, -x)
    beam2 = ab(v['BMAJ'] * v['BMIN'])
    pix2 = ite(has['CDELT1'], ab(v['CDELT1'] * v['CDELT2']), ab(v['CD1_1'] * v['CD2_2']))
    n = r[0]
    ctx.oblige("post", "get_step_size.least_integer_covering_four_beam_widths",
               Implies(And(has['BMAJ'], has['BMIN'], Or(has['CDELT1'], has['CD1_1'])),
                       And(n * n * pix2 >= 16 * beam2, (n - 1) * (n - 1) * pix2 < 16 * beam2)), timeout_ms=60000)


CLI_FILE = "AegeanTools/CLI/BANE.py"


def t_cli(ctx):
    """CLI/BANE.py main, from the parsed options on: every option reaches filter_image under its own keyword"""
    import ast
    from pyvc.engine import run_stmts, find_function, Opaque
    fn = find_function(CLI_FILE, 'main')
    a = next((k for k, st in enumerate(fn.body) if isinstance(st, ast.Assign) and ast.unparse(st.targets[0]) == 'options'), None)
    if a is None:
        raise Undecided("CLI main: `options = ...` not found")
    stmts = fn.body[a + 1:]
    given_out = ctx.free_branch()
    marks = {k: Opaque('option ' + k) for k in ('step_size', 'box_size', 'cores', 'mask', 'compress', 'stripes', 'cube_index')}
    opts = Obj('options', cite=False, image='IMG.fits', debug=ctx.free_branch(), out_base='OUT' if given_out else None,
               clobber=ctx.free_branch(), **marks)
    exists = {}

    def m_exists(c, path):
        if path not in exists:
            exists[path] = c.free_branch()
        return exists[path]
    calls = []
    logging = Namespace('logging', DEBUG=10, INFO=20, basicConfig=Model(lambda c, **k: None), info=Model(lambda c, *a: None),
                        error=Model(lambda c, *a: None))
    g = {'os': Namespace('os', path=Namespace('path', exists=Model(m_exists), splitext=Model(lambda c, x: (x[:-5], x[-5:])))),
         'BANE': Namespace('BANE', logging=logging, __version__='v', __date__='d',
                           filter_image=Model(lambda c, *a, **k: calls.append((a, k)))),
         '__citation__': 'cite', 'print': Model(lambda c, *a: None)}
    out = run_stmts(ctx, CLI_FILE, 'main', stmts, {'options': opts, 'parser': Namespace('parser')}, globals_=g,
                    region_desc="from the parsed options to the end")
    ctx.oblige("safe", "cli.no_exception", out.kind in ('return', 'fallthrough'))
    if out.kind not in ('return', 'fallthrough'):
        return
    ob = 'OUT' if given_out else 'IMG'
    # the property is about the maps: it obliges a run whenever the image exists and nothing forbids overwriting; what
    # --noclobber does when some output exists, and the exit code for a missing image, are the CLI's own business
    if not exists.get('IMG.fits', False):
        ctx.oblige("post", "cli.missing_image_runs_nothing", not calls)
        return
    may_skip = opts.fields['clobber'] is False and (exists.get(ob + '_bkg.fits') or exists.get(ob + '_rms.fits'))
    if may_skip and not calls:
        return
    ctx.oblige("post", "cli.runs_the_filter_once_and_exits_0", len(calls) == 1 and out.value == 0)
    if len(calls) != 1:
        return
    args, kw = calls[0]
    want = {'im_name': 'IMG.fits', 'out_base': ob, 'step_size': marks['step_size'], 'box_size': marks['box_size'], 'cores': marks['cores'],
            'mask': marks['mask'], 'compressed': marks['compress'], 'nslice': marks['stripes'], 'cube_index': marks['cube_index']}
    # bind positionals against the real signature of filter_image
    sig = [x.arg for x in find_function(FILE, 'filter_image').args.args]
    bound = dict(zip(sig, args))
    bound.update(kw)
    for k_, v_ in want.items():
        got = bound.get(k_, '<missing>')
        ctx.oblige("post", "cli.option_%s_reaches_the_filter" % k_, (got is v_) if isinstance(v_, Opaque) else (got == v_))


def t_stripe(ctx):
    explore_sigma_filter(ctx, "C06")


def verify(S):
    for name, fn in (("BANE.sigma_filter", t_stripe), ("BANE.sigmaclip", t_sigmaclip), ("BANE.sigmaclip[affine]", t_sigmaclip_affine),
                     ("BANE.filter_image", t_filter_image), ("BANE.get_step_size", t_get_step_size), ("CLI.BANE.main", t_cli)):
        if S.only and S.only not in name:
            continue
        ctx = Ctx(S, name)
        try:
            ctx.explore(fn)
        except Undecided as u:
            S.undecided.append("%s: %s" % (name, u))


REPLAY = {"*": "replay_maps"}
NATIVE_CHECKS = [{"func": "crosscheck", "payload": {}, "timeout": 1500}]
