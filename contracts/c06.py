"""C06 — BANE background/noise maps obey the estimator contract (AegeanTools/BANE.py: sigma_filter, sigmaclip).

Decided: the index / dataflow contract of one stripe (contracts/bane.py): the loaded rows are the stripe plus half a box,
both passes clip boxes of `data` at 3 sigma, EVERY pixel that enters a pass-2 (noise) box has had the interpolated
background subtracted (so adding a constant to the image cannot leak into the noise map), subtraction / write / mask
slices are aligned between data coordinates and image rows, the interpolation grids are strictly increasing with >= 2
nodes and contain every query point (no exception, every own row written), masking blanks both maps on own rows;
and for sigmaclip: empty input -> (nan, nan); otherwise the result is (mean, std) of a non-empty sub-selection of the
finite input values, hence min <= mean <= max and 0 <= std <= max - min; a constant input gives (c, 0).
From these and the assumed contracts of numpy mean/std (affine equivariance, range) and RegularGridInterpolator
(bilinear, range preserving, exact for affine data) the algebraic clauses follow; they are cross-checked natively.
NOT decided: the stationary-Gaussian (statistical) clause.
"""
import z3

from pyvc.engine import (Ctx, PyObj, Model, Namespace, Obj, run_function, Undecided, PyRaise, ExcValue)
from pyvc.values import Sym, And, Or, Not, Implies, ite, NaN, NaNType
from pyvc import lib
from contracts.bane import explore_sigma_filter, FILE

PROPERTY = "C06"
ASSUMPTIONS = [
    "numpy: mean(c + k x) = c + k mean(x), std(c + k x) = |k| std(x), min <= mean <= max, 0 <= std <= max - min, "
    "std = 0 and mean = c for a constant selection; a[mask] keeps exactly the selected elements",
    "scipy RegularGridInterpolator (linear): requires strictly increasing grids (>= 2 nodes) and query points inside the hull; the "
    "result is bilinear per cell: range preserving, affine equivariant",
    "astropy fits section reads return the stored rows unscaled (do_not_scale_image_data=True)",
    "the stationary Gaussian clause (maps equal m and s within sampling error) is statistical: not decided",
    "floats as reals (exact equality for the constant image is subject to IEEE rounding of mean/std)",
]

R = z3.RealSort()
MEAN = z3.Function('sel_mean', z3.IntSort(), R)
STD = z3.Function('sel_std', z3.IntSort(), R)
NSEL = z3.Function('sel_count', z3.IntSort(), z3.IntSort())


class Bag(PyObj):
    """a selection of the finite input values, identified by a version number"""
    _v = [0]

    def __init__(self, ctx, parent=None, band=None):
        Bag._v[0] += 1
        self.v = z3.IntVal(Bag._v[0])
        self.parent = parent
        lo_v, hi_v = Sym(z3.Real('vmin'), True), Sym(z3.Real('vmax'), True)
        n = Sym(NSEL(self.v))
        ctx.assume(And(n >= 0, lo_v <= hi_v))
        m, s = Sym(MEAN(self.v), True), Sym(STD(self.v), True)
        # assumed numpy contract of mean/std on a non-empty selection of values in [vmin, vmax]
        ctx.assume(Implies(n >= 1, And(m >= lo_v, m <= hi_v, s >= 0, s <= hi_v - lo_v,
                                       Implies(lo_v == hi_v, And(m == lo_v, s == 0)))))
        if parent is not None:
            ctx.assume(n <= Sym(NSEL(parent.v)))
            if band is not None:
                a, b = band
                # an open band of zero (or negative) width selects nothing
                ctx.assume(Implies(a >= b, n == 0))

    def len_(self, ctx):
        return Sym(NSEL(self.v))

    def binop_(self, ctx, op, other, swapped):
        if op in ('Gt', 'Lt', 'GtE', 'LtE'):
            return Cmp(self, op, other, swapped)
        return NotImplemented

    def getitem_(self, ctx, key):
        if isinstance(key, Band):
            return Bag(ctx, parent=self, band=(key.lo, key.hi))
        if isinstance(key, Cmp) and key.kind == 'finite':
            return Bag(ctx, parent=None)
        raise Undecided("selection with an unmodelled mask")


class Cmp(PyObj):
    def __init__(self, bag, op, other, swapped, kind='cmp'):
        self.bag, self.op, self.other, self.swapped, self.kind = bag, op, other, swapped, kind

    def binop_(self, ctx, op, other, swapped):
        if op == 'and' and isinstance(other, Cmp) and other.bag is self.bag:
            lo = [c.other for c in (self, other) if (c.op in ('Gt', 'GtE')) != c.swapped]
            hi = [c.other for c in (self, other) if (c.op in ('Lt', 'LtE')) != c.swapped]
            if len(lo) == 1 and len(hi) == 1:
                ctx.ghost.setdefault('bands', []).append((lo[0], hi[0], self.op, other.op))
                return Band(lo[0], hi[0])
        return NotImplemented


class Band(PyObj):
    def __init__(self, lo, hi):
        self.lo, self.hi = lo, hi


def t_sigmaclip(ctx):
    Bag._v[0] = 0
    empty = ctx.free_branch()

    class Arr(PyObj):
        pass
    arr = Arr()

    def m_array(c, x):
        return ArrAll()

    class ArrAll(PyObj):
        def getitem_(s, c, key):
            b = Bag(c)
            if empty:
                c.assume(Sym(NSEL(b.v)) == 0)
            else:
                c.assume(Sym(NSEL(b.v)) >= 1)
            return b
    np_ = lib.std_np(array=Model(m_array), isfinite=Model(lambda c, x: Cmp(None, 'finite', None, False, kind='finite')),
                     std=Model(lambda c, b: Sym(STD(b.v), True)), mean=Model(lambda c, b: Sym(MEAN(b.v), True)))
    g = {'np': np_, 'logging': Namespace('logging')}
    lo, hi = 3, 3
    out = run_function(ctx, FILE, 'sigmaclip', [arr, lo, hi], globals_=g)
    if out.kind != 'return' or not isinstance(out.value, tuple) or len(out.value) != 2:
        ctx.oblige("post", "sigmaclip.returns_mean_std", False)
        return
    m, s = out.value
    if empty:
        ctx.oblige("post", "sigmaclip.empty_input_gives_nan_nan", isinstance(m, NaNType) and isinstance(s, NaNType))
        return
    vmin, vmax = Sym(z3.Real('vmin'), True), Sym(z3.Real('vmax'), True)
    ok = isinstance(m, Sym) and isinstance(s, Sym)
    ctx.oblige("post", "sigmaclip.result_is_mean_std_of_a_selection", ok)
    if not ok:
        return
    ctx.oblige("post", "sigmaclip.mean_in_range", And(m >= vmin, m <= vmax))
    ctx.oblige("post", "sigmaclip.std_in_range", And(s >= 0, s <= vmax - vmin))
    ctx.oblige("post", "sigmaclip.const_gives_c_and_zero", Implies(vmin == vmax, And(m == vmin, s == 0)))
    for (blo, bhi, o1, o2) in ctx.ghost.get('bands', []):
        ctx.oblige("post", "sigmaclip.clip_band_is_open_and_symmetric_in_lo_hi",
                   o1 in ('Gt', 'Lt') and o2 in ('Gt', 'Lt'))


# ---------------------------------------------------------------------------
# sigmaclip is affine-equivariant (relational: the real body is run on x and on k*x + c, k != 0)
# ---------------------------------------------------------------------------

class ABag(PyObj):
    """the selection number `v` of the finite values of x (aff=None) or of k*x + c (aff=(k, c))"""

    def __init__(self, v, aff, log):
        self.v, self.aff, self.log = v, aff, log

    def stats(self):
        m, s = Sym(MEAN(z3.IntVal(self.v)), True), Sym(STD(z3.IntVal(self.v)), True)
        if self.aff is None:
            return m, s
        k, c = self.aff
        return k * m + c, ite(k >= 0, k, -k) * s

    def len_(self, ctx):
        return Sym(NSEL(z3.IntVal(self.v)))

    def binop_(self, ctx, op, other, swapped):
        if op in ('Gt', 'Lt', 'GtE', 'LtE'):
            return ACmp(self, op, other, swapped)
        return NotImplemented

    def getitem_(self, ctx, key):
        if isinstance(key, ABand) and key.bag is self:
            self.log.append((self.v, key.lo, key.hi, key.ops))
            return ABag(self.v + 1, self.aff, self.log)
        if isinstance(key, ACmp) and key.kind == 'finite':
            return ABag(1, self.aff, self.log)
        raise Undecided("selection with an unmodelled mask")


class ACmp(PyObj):
    def __init__(self, bag, op, other, swapped, kind='cmp'):
        self.bag, self.op, self.other, self.swapped, self.kind = bag, op, other, swapped, kind

    def binop_(self, ctx, op, other, swapped):
        if op == 'and' and isinstance(other, ACmp) and other.bag is self.bag:
            lo = [c for c in (self, other) if (c.op in ('Gt', 'GtE')) != c.swapped]
            hi = [c for c in (self, other) if (c.op in ('Lt', 'LtE')) != c.swapped]
            if len(lo) == 1 and len(hi) == 1:
                return ABand(self.bag, lo[0].other, hi[0].other, (lo[0].op in ('GtE', 'LtE'), hi[0].op in ('GtE', 'LtE')))
        return NotImplemented


class ABand(PyObj):
    def __init__(self, bag, lo, hi, ops):
        self.bag, self.lo, self.hi, self.ops = bag, lo, hi, ops


def t_sigmaclip_affine(ctx):
    k, c0 = Sym(z3.Real('scale_k'), True), Sym(z3.Real('offset_c'), True)
    ctx.assume(k != 0)
    lo = hi = Sym(z3.Real('nsigma'), True)         # BANE clips symmetrically (sigmaclip(x, 3, 3)); needed for k < 0
    ctx.assume(lo > 0)
    for v in range(1, 14):
        vv = z3.IntVal(v)
        ctx.assume(And(Sym(NSEL(vv)) >= 0, Sym(STD(vv), True) >= 0))
    ctx.assume(Sym(NSEL(z3.IntVal(1))) >= 1)
    runs = []
    for aff in (None, (k, c0)):
        log = []

        class Arr(PyObj):
            pass

        class ArrAll(PyObj):
            def getitem_(s, c, key, aff=aff, log=log):
                return ABag(1, aff, log)

        def isclose(c, a, b, rtol=1e-05, atol=1e-08, **kw):
            d = a - b
            return ite(d >= 0, d, -d) <= atol + rtol * ite(b >= 0, b, -b)
        np_ = lib.std_np(array=Model(lambda c, x: ArrAll()), isfinite=Model(lambda c, x: ACmp(None, 'finite', None, False, kind='finite')),
                         std=Model(lambda c, b: b.stats()[1]), mean=Model(lambda c, b: b.stats()[0]), isclose=Model(isclose),
                         allclose=Model(isclose))
        out = run_function(ctx, FILE, 'sigmaclip', [Arr(), lo, hi], globals_={'np': np_, 'logging': Namespace('logging')})
        runs.append((out, log))
    (o1, l1), (o2, l2) = runs
    ok = o1.kind == 'return' and o2.kind == 'return' and isinstance(o1.value, tuple) and isinstance(o2.value, tuple)
    ctx.oblige("post", "sigmaclip.affine.both_runs_return_mean_std", ok)
    if not ok:
        return
    # every selection the scaled run makes is the affine image of the band the original run used at the same step
    same_steps = len(l1) == len(l2)
    ctx.oblige("post", "sigmaclip.affine.same_number_of_clipping_passes", same_steps)
    if not same_steps:
        return
    for (v1, a1, b1, ops1), (v2, a2, b2, ops2) in zip(l1, l2):
        img = Or(And(k > 0, a2 == k * a1 + c0, b2 == k * b1 + c0), And(k < 0, a2 == k * b1 + c0, b2 == k * a1 + c0))
        ctx.oblige("post", "sigmaclip.affine.clip_band_of_the_scaled_data_is_the_image_of_the_band", And(v1 == v2, img) if ops1 == ops2 and ops1[0] == ops1[1] else False)
    m1, s1 = o1.value
    m2, s2 = o2.value
    if isinstance(m1, NaNType) or isinstance(m2, NaNType):
        ctx.oblige("post", "sigmaclip.affine.nan_for_both_or_neither", isinstance(m1, NaNType) and isinstance(m2, NaNType))
        return
    ctx.oblige("post", "sigmaclip.affine.mean_scales_and_shifts_std_scales_by_abs_k", And(m2 == k * m1 + c0, s2 == ite(k >= 0, k, -k) * s1))


def t_stripe(ctx):
    explore_sigma_filter(ctx, "C06")


def verify(S):
    for name, fn in (("BANE.sigma_filter", t_stripe), ("BANE.sigmaclip", t_sigmaclip), ("BANE.sigmaclip[affine]", t_sigmaclip_affine)):
        if S.only and S.only not in name:
            continue
        ctx = Ctx(S, name)
        try:
            ctx.explore(fn)
        except Undecided as u:
            S.undecided.append("%s: %s" % (name, u))


REPLAY = {"*": "replay_maps"}
NATIVE_CHECKS = [{"func": "crosscheck", "payload": {}, "timeout": 1500}]
