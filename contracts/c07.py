"""C07 — BANE always terminates, is schedule-independent and fails cleanly (AegeanTools/BANE.py).

Contracts cannot quantify over interleavings.  Decided here are the arithmetic / structural facts termination rests on,
under the assumed contracts of multiprocessing.Barrier (wait returns only when `parties` distinct callers wait, or raises
BrokenBarrierError after abort) and Pool (at most `processes` tasks run concurrently; a slot is freed only when a task ends):
  * stripes tile the rows: len(ymins) = len(ymaxs) >= 1, ymins[0] = 0, ymaxs[-1] = rows, ymaxs[k] = ymins[k+1], ymins[k] < ymaxs[k];
  * one task per stripe, Barrier(parties) = number of tasks, number of tasks <= Pool(processes)  (else the surplus tasks never
    start while the running ones wait: deadlock);
  * every non-raising path of a worker performs exactly 1 + domask waits, independent of the data, and never resets the
    barrier (a reset issued after a faster party already waits again breaks that party: the observed hang);
  * a failing worker aborts the barrier before re-raising (else the others wait for ever);
  * both shared-memory segments are closed and unlinked on every exit path of filter_mc_sharemem.
NOT decided (scheduling): bit-identity across worker counts / interleavings, sensitivity to the stripe count, wall-clock promptness.
"""
import z3

from pyvc.engine import (Ctx, PyObj, Model, Namespace, Obj, run_function, find_function, Closure, Env, Undecided, PyRaise,
                         ExcValue, ExcClass, LoopSpec, SeqList, SymList, Opaque, seq_len)
from pyvc.values import Sym, And, Or, Not, Implies, ite
from pyvc import lib
from contracts.bane import explore_sigma_filter, I, FILE

PROPERTY = "C07"
ASSUMPTIONS = [
    "multiprocessing.Barrier(n).wait(): returns only when n distinct parties wait (cyclic: usable again without reset), raises "
    "BrokenBarrierError after abort()/reset() while parties wait; Pool(processes=k): at most k tasks run at once, a slot is freed "
    "only when a task returns or raises; map_async(...).get() re-raises the first worker exception",
    "SharedMemory.close()/unlink() release the segment",
    "interleavings, bit-identity across schedules and stripe-count sensitivity are NOT decided by contracts (would need a model "
    "of the scheduler); they are only exercised by the native cross-check (several cores/stripes configurations)",
]


class Shm(PyObj):
    def __init__(self, name):
        self.name, self.closed, self.unlinked = name, False, False

    def getattr_(self, ctx, name):
        if name == 'close':
            return Model(lambda c: setattr(self, 'closed', True), 'close')
        if name == 'unlink':
            return Model(lambda c: setattr(self, 'unlinked', True), 'unlink')
        if name == 'buf':
            return self
        raise Undecided("SharedMemory." + name)

    def fingerprint_(self):
        return ('shm', self.closed, self.unlinked), []


def t_layout(ctx):
    img_y, img_x = I('img_y'), I('img_x')
    s0, s1 = I('step0'), I('step1')
    cores = I('cores')
    ctx.assume(And(img_y >= 1, img_x >= 1, s0 >= 1, s1 >= 1, cores >= 1))
    nsel = ctx.choice(2)
    nslice = None if nsel == 0 else I('nslice')
    if nslice is not None:
        ctx.assume(nslice >= 1)
    rec = {'shm': [], 'barrier': None, 'pool': None, 'tasks': None, 'fail': None}

    def m_shm(c, name=None, create=False, size=None):
        if c.free_branch():
            raise PyRaise(ExcValue('OSError', ('cannot create shared memory',)))
        o = Shm(name)
        rec['shm'].append(o)
        return o

    class MPctx(PyObj):
        def getattr_(s, c, name):
            if name == 'Barrier':
                def mk(c2, parties=None, *a):
                    rec['barrier'] = parties if parties is not None else (a[0] if a else None)
                    return Obj('Barrier')
                return Model(mk, 'Barrier')
            if name == 'Pool':
                def mk(c2, processes=None, **kw):
                    rec['pool'] = processes
                    rec['pool_kw'] = kw
                    return Pool()
                return Model(mk, 'Pool')
            raise Undecided("mp context." + name)

    class Pool(PyObj):
        def getattr_(s, c, name):
            if name == 'map_async':
                def ma(c2, fn, args, chunksize=None):
                    rec['tasks'] = args
                    rec['fn'] = fn
                    return AsyncRes()
                return Model(ma, 'map_async')
            if name in ('close', 'join', 'terminate'):
                return Model(lambda c2, name=name: rec.setdefault('pool_calls', []).append(name), name)
            raise Undecided("pool." + name)

    class AsyncRes(PyObj):
        def getattr_(s, c, name):
            if name == 'get':
                def get(c2, timeout=None):
                    if c2.free_branch():
                        rec['fail'] = True
                        raise PyRaise(ExcValue('Exception', ('worker failed',)))
                    return None
                return Model(get, 'get')
            raise Undecided("async." + name)
    np_ = lib.std_np(prod=Model(lambda c, s: s[0] * s[1]), ndarray=Model(lambda c, *a, **k: Opaque('ndarray')))
    np_.members['float64'] = Model(lambda c, x=0: Obj('f64', nbytes=8), 'np.float64')
    g = {'np': np_, 'multiprocessing': Namespace('multiprocessing', cpu_count=Model(lambda c: I('ncpu')),
                                                 get_context=Model(lambda c, m: MPctx())),
         'SharedMemory': Model(m_shm), 'uuid': Namespace('uuid', uuid4=Model(lambda c: "UUID")),
         'sys': Namespace('sys', platform="linux", exit=Model(lambda c, code=0: (_ for _ in ()).throw(PyRaise(ExcValue('SystemExit'))))),
         'logging': Namespace('logging'), 'init': Model(lambda c, *a: None), '_sf2': Model(lambda c, a: None, '_sf2'),
         'KeyboardInterrupt': ExcClass('KeyboardInterrupt')}
    # the task loop:  for region in zip(ymins, ymaxs): args.append((filename, region, ...))
    st = {}

    class TaskList(SymList):
        def __init__(s, c):
            base = SymList.fresh(c, "args", sort='int')
            SymList.__init__(s, "args", base.length, base.elem)
            s.ok = True

        def getattr_(s, c, name):
            if name == 'append':
                def app(c2, task):
                    k = st.get('k')
                    good = isinstance(task, tuple) and len(task) == 7 and isinstance(task[1], tuple) and len(task[1]) == 2
                    c2.oblige("post", "tasks.one_task_per_stripe_with_its_row_range",
                              And(task[1][0] == st['ymins'].at(k), task[1][1] == st['ymaxs'].at(k)) if good else False)
                    s.writes.append((s.length, k))
                    s.length = s.length + 1
                return Model(app, 'append')
            return SymList.getattr_(s, c, name)

    def havoc(c, env):
        env.vars['args'] = TaskList(c)

    def before(c, env, k):
        st['k'] = k

    def inv(c, env, k):
        return [("one_task_per_stripe_so_far", Sym.lift(seq_len(env.lookup('args'))) == Sym.lift(k))]
    spec = LoopSpec(inv, havoc=havoc, label="tasks", modifies=lambda c, env: [env.vars['args']])
    spec.before_body = before
    ctx.interp.loops["for region in zip(ymins, ymaxs)"] = spec

    def hook(c, stn, env):
        if env.has('ymins') and env.has('ymaxs'):
            st['ymins'], st['ymaxs'] = env.lookup('ymins'), env.lookup('ymaxs')
    ctx.interp.stmt_hook = hook
    out = run_function(ctx, FILE, 'filter_mc_sharemem', ["f.fits", (s0, s1), (I('box0'), I('box1')), cores, (img_y, img_x)],
                       {'nslice': nslice, 'domask': True, 'cube_index': 0}, globals_=g)
    # ---- shared memory released on every exit path ----
    ctx.oblige("post", "shm.every_created_segment_closed_and_unlinked_on_every_path",
               all(s.closed and s.unlinked for s in rec['shm']))
    if rec['barrier'] is None:
        return          # left before the pool was made (segment creation failed): nothing else to check
    ymins, ymaxs = st.get('ymins'), st.get('ymaxs')
    if isinstance(ymins, list):
        n1, n2 = len(ymins), len(ymaxs)
        at1, at2 = (lambda k: ymins[k]), (lambda k: ymaxs[k])
        last = ymaxs[-1] if ymaxs else None
        first = ymins[0] if ymins else None
        ctx.oblige("post", "stripes.tile_the_rows", n1 == n2 and n1 == 1 and first == 0 and last is img_y)
        ntasks = len(rec['tasks']) if isinstance(rec['tasks'], list) else seq_len(rec['tasks'])
    else:
        L1, L2 = ymins.len_(ctx), ymaxs.len_(ctx)
        k = ctx.fresh_int("sk")
        ctx.oblige("post", "stripes.same_number_of_starts_and_ends", L1 == L2, timeout_ms=30000)
        ctx.oblige("post", "stripes.first_starts_at_row_0", And(L1 >= 1, ymins.at(0) == 0), timeout_ms=30000)
        ctx.oblige("post", "stripes.last_ends_at_last_row", ymaxs.at(L2 - 1) == img_y, timeout_ms=30000)
        ctx.oblige("post", "stripes.consecutive", Implies(And(k >= 0, k + 1 < L1), ymaxs.at(k) == ymins.at(k + 1)), timeout_ms=30000)
        ctx.oblige("post", "stripes.non_empty", Implies(And(k >= 0, k < L1), ymins.at(k) < ymaxs.at(k)), timeout_ms=30000)
        ntasks = seq_len(rec['tasks']) if rec['tasks'] is not None else None
        n1 = L1
    if ntasks is None:
        ctx.oblige("post", "tasks.submitted_to_the_pool", False)
        return
    ctx.oblige("post", "tasks.one_per_stripe", Sym.lift(ntasks) == Sym.lift(n1), timeout_ms=30000)
    ctx.oblige("post", "barrier.parties_equal_tasks", Sym.lift(rec['barrier']) == Sym.lift(ntasks), timeout_ms=30000)
    ctx.oblige("post", "pool.tasks_fit_workers", Sym.lift(ntasks) <= Sym.lift(rec['pool']), timeout_ms=30000)
    ctx.oblige("post", "pool.worker_wrapper_is_sf2", isinstance(rec.get('fn'), Model) and rec['fn'].name == '_sf2')
    calls = rec.get('pool_calls', [])
    if rec['fail']:
        ctx.oblige("post", "failure.worker_exception_propagates", out.kind == 'raise')
        # an abandoned multiprocessing.Pool can hang the interpreter on finalization (python docs): it must be stopped and joined
        ctx.oblige("post", "failure.pool_is_terminated_and_joined_before_the_exception_propagates",
                   'terminate' in calls and 'join' in calls and calls.index('terminate') < len(calls) - 1 - calls[::-1].index('join') + 1)
    else:
        ctx.oblige("post", "pool.closed_and_joined_after_the_map", calls[:2] == ['close', 'join'])


def t_worker(ctx):
    explore_sigma_filter(ctx, "C07")


def t_sf2(ctx):
    """_sf2: a failing stripe aborts the barrier before re-raising"""
    rec = {'aborted': False, 'order': []}

    class Barrier(PyObj):
        def getattr_(s, c, name):
            if name == 'abort':
                return Model(lambda c2: rec['order'].append('abort'), 'abort')
            raise Undecided("barrier." + name)

    def c_sigma(c, *a):
        rec['order'].append('sigma_filter')
        if c.free_branch():
            raise PyRaise(ExcValue('Exception', ('stripe failed',)))
        return None
    g = {'sigma_filter': Model(c_sigma, 'sigma_filter'), 'barrier': Barrier(), 'logging': Namespace('logging'),
         'sys': Namespace('sys', exc_info=Model(lambda c: (None, None, None))), 'Exception': ExcClass('Exception')}
    ctx.interp.st_Import = lambda st, env: env.vars.__setitem__('traceback', Namespace('traceback', format_exception=Model(lambda c, *a: ["tb"])))
    out = run_function(ctx, FILE, '_sf2', [("f", (0, 1), (1, 1), (1, 1), (1, 1), True, 0)], globals_=g)
    failed = out.kind == 'raise'
    if failed:
        ctx.oblige("post", "failure.worker_aborts_the_barrier_before_reraising", rec['order'] == ['sigma_filter', 'abort'])
    else:
        ctx.oblige("post", "success.no_abort", 'abort' not in rec['order'] and out.kind == 'return')


def verify(S):
    for name, fn in (("BANE.filter_mc_sharemem", t_layout), ("BANE.sigma_filter", t_worker), ("BANE._sf2", t_sf2)):
        if S.only and S.only not in name:
            continue
        ctx = Ctx(S, name)
        try:
            ctx.explore(fn)
        except Undecided as u:
            S.undecided.append("%s: %s" % (name, u))


REPLAY = {"*": "replay_config"}
NATIVE_CHECKS = [{"func": "crosscheck", "payload": {}, "timeout": 1500}]
