"""C04 — model derivatives and per-parameter 1-sigma errors are the true ones (AegeanTools/fitting.py).

Functions under contract: elliptical_gaussian (spec function = its own body), jacobian (whole body, loop
invariant, any number of components), lmfit_jacobian (whole), covar_errors (whole, loop invariant).

Spec, for n >= 0 components, parameters (amp != 0, xo, yo, sx > 0, sy > 0, theta) and any vary flags:
  jacobian(pars, x, y) returns rows R with len(R) = IDX(n) and, for every component i < n and p in
  (amp, xo, yo, sx, sy, theta) with vary(i,p):  R[IDX(i) + rank(i,p)] = dG_i/dp at the pixel, where G_i is the
  expression computed by elliptical_gaussian for component i's parameters, the derivative is the mathematical
  one (pyvc/diff.py; theta in DEGREES: d radians(theta)/d theta = pi/180), IDX(i) = number of varying
  parameters of components < i, rank(i,p) = number of varying parameters of component i before p.
  lmfit_jacobian = transpose((J / errs) . B).
  covar_errors: stderr(i,p) = onesigma[IDX(i) + rank(i,p)] for every varying (i,p); non-varying untouched;
  onesigma = sqrt(diag(inv(J^T inv(C) J)))  (C given)  or sqrt(diag(inv(J^T J))) with J built with B (no C).
"""
import z3

from pyvc.engine import (Ctx, PyObj, Model, Namespace, Obj, run_function, find_function, Closure, Env, Undecided,
                         PyRaise, ExcValue, LoopSpec, ExcClass)
from pyvc.values import Sym, And, Or, Not, Implies, ite, Opaque, NaN
from pyvc import lib
from pyvc.diff import diff
from contracts.models import Params, SymList, PNAMES, seq_len, seq_at

PROPERTY = "C04"
FILE = "AegeanTools/fitting.py"
FIT = PNAMES[:6]

ASSUMPTIONS = [
    "floats as reals (IEEE rounding of the derivative rows not modelled)",
    "numpy elementwise arithmetic on the pixel coordinate arrays is pointwise: rows are verified at a generic pixel (x, y)",
    "np.array / np.vstack of a list of rows keeps rows and their order; matrix /= errs divides every row elementwise; "
    ".dot, np.transpose, scipy.linalg.inv, np.diag, np.sqrt are the linear-algebra operations of those names "
    "(symbolic matrix terms, compared structurally)",
    "lmfit.Parameters: mapping name -> Parameter(value, vary, stderr); values are floats",
    "ghost functions IDX (cumulative count of varying parameters) and rank are defined by their recurrences; "
    "the instances used are listed in the loop `facts`",
]

IDX = z3.Function('IDX', z3.IntSort(), z3.IntSort())
DROW = z3.Function('DROW', z3.IntSort(), z3.IntSort(), z3.RealSort())


def vary_term(P, i, p):
    return Sym.lift(P.sym('vary', i, FIT[p]))


def NV(P, i):
    return z3.Sum([z3.If(vary_term(P, i, q), 1, 0) for q in range(6)])


def rank_concrete(P, i, p):
    return z3.Sum([z3.If(vary_term(P, i, q), 1, 0) for q in range(p)]) if p > 0 else z3.IntVal(0)


def rank_sym(P, i, p0):
    """rank for a symbolic parameter index p0 in [0,6)"""
    return z3.Sum([z3.If(z3.And(q < p0, vary_term(P, i, q)), 1, 0) for q in range(6)])


def vary_sym(P, i, p0):
    return z3.Or(*[z3.And(p0 == q, vary_term(P, i, q)) for q in range(6)])


def idx_facts(P, k, i0, n=None):
    """instances of the definition of IDX (recurrence + monotonicity) needed at iteration k for the witness i0"""
    k = Sym.lift(k)
    return [IDX(0) == 0,
            IDX(k + 1) == IDX(k) + NV(P, k),
            IDX(i0 + 1) == IDX(i0) + NV(P, i0),
            z3.Implies(i0 + 1 <= k, IDX(i0 + 1) <= IDX(k)),
            z3.Implies(i0 <= k, IDX(i0) <= IDX(k)),
            IDX(k) >= 0, IDX(i0) >= 0] + ([z3.Implies(k + 1 <= Sym.lift(n), IDX(k + 1) <= IDX(Sym.lift(n)))]
                                         if n is not None else [])


def genv(ctx, extra=None):
    g = {'np': lib.std_np(), 'math': lib.std_math(), 'ValueError': ExcClass('ValueError')}
    g['np'].members['array'] = Model(lambda c, x, *a, **k: x, 'np.array')
    g['np'].members['vstack'] = Model(lambda c, x, *a, **k: x, 'np.vstack')
    g['np'].members['nan_to_num'] = Model(lambda c, x, *a, **k: x, 'np.nan_to_num')
    menv = Env(g)
    for fn in ('elliptical_gaussian', 'jacobian', 'emp_jacobian', 'lmfit_jacobian', 'ntwodgaussian_lmfit'):
        g[fn] = Closure(find_function(FILE, fn), menv, FILE, fn)
    g.update(extra or {})
    return g


def gaussian_expr(ctx, g, x, y, pv):
    """the model expression: result of executing the real elliptical_gaussian"""
    ctx.interp.inline.add('elliptical_gaussian')
    out = run_function(ctx, FILE, 'elliptical_gaussian', [x, y] + pv, globals_=g)
    if out.kind != 'return' or not isinstance(out.value, Sym):
        raise Undecided("elliptical_gaussian did not return a scalar expression")
    return out.value


# ---------------------------------------------------------------------------
# elliptical_gaussian: closed form
# ---------------------------------------------------------------------------

def t_gaussian(ctx):
    x, y, amp, xo, yo, sx, sy, th = [Sym(z3.Real(n), True) for n in ('x', 'y', 'amp', 'xo', 'yo', 'sx', 'sy', 'theta')]
    ctx.assume(And(sx > 0, sy > 0))
    g = genv(ctx)
    G = gaussian_expr(ctx, g, x, y, [amp, xo, yo, sx, sy, th])
    t = lib.m_radians(ctx, th)
    s, c = lib.m_sin(ctx, t), lib.m_cos(ctx, t)
    u = (x - xo) * c + (y - yo) * s
    v = (x - xo) * s - (y - yo) * c
    E = Sym(lib.f_exp(Sym.lift((u * u / (sx * sx) + v * v / (sy * sy)) * Sym(z3.RealVal(-1) / 2))))
    # same exponent (as reals) => same value of exp: compare the arguments
    args = [a for a in _exp_args(G.e)]
    if len(args) != 1:
        raise Undecided("elliptical_gaussian no longer has the amp*exp(.) form")
    ctx.oblige("post", "closed_form.exponent", Sym(args[0]) == (u * u / (sx * sx) + v * v / (sy * sy)) * Sym(z3.RealVal(-1) / 2),
               focus=1)
    ctx.oblige("post", "closed_form.amplitude_factor", G == amp * Sym(lib.f_exp(args[0])), focus=1)
    ctx.oblige("post", "peak_value_at_centre",
               Sym(z3.substitute(args[0], (x.e, xo.e), (y.e, yo.e))) == 0, focus=1)


def _exp_args(e, seen=None):
    seen = set() if seen is None else seen
    if e.get_id() in seen:
        return
    seen.add(e.get_id())
    if z3.is_app(e) and e.decl().eq(lib.f_exp):
        yield e.arg(0)
    for c in e.children():
        yield from _exp_args(c, seen)


# ---------------------------------------------------------------------------
# jacobian
# ---------------------------------------------------------------------------

class JacList(SymList):
    """`matrix` inside jacobian's loop: every append is checked against the true derivative of the current component
    and stored as the ghost term DROW(i, p)"""

    def __init__(self, ctx, P, name="matrix"):
        base = SymList.fresh(ctx, name)
        SymList.__init__(self, name, base.length, base.elem)
        self.P = P
        self.cur = None        # (i, G_i, param syms, appended so far in this iteration)

    def getattr_(self, ctx, name):
        if name == 'append':
            return Model(self.append, 'list.append')
        return SymList.getattr_(self, ctx, name)

    def append(self, ctx, v):
        if self.cur is None:
            raise Undecided("append to the jacobian rows outside the component loop")
        i, G, pv, done = self.cur
        # which parameter is this row for?  the (done+1)-th varying parameter, in documented order
        cnt = 0
        target = None
        for p in range(6):
            if ctx.truth(Sym(vary_term(self.P, i, p))):
                if cnt == done:
                    target = p
                    break
                cnt += 1
        if target is None:
            ctx.oblige("post", "only_varying_rows", False)
            self.writes.append((self.length, v))
            self.length = self.length + 1
            return
        D = Sym(diff(G.e, pv[target].e))
        if isinstance(v, (Opaque,)) or not isinstance(v, Sym):
            ctx.oblige("post", "d_%s" % FIT[target], False)
        else:
            ctx.oblige("post", "d_%s" % FIT[target], v == D, focus=1, trig=True, ring=True, timeout_ms=10000)
        self.writes.append((self.length, Sym(DROW(Sym.lift(i), z3.IntVal(target)))))
        self.length = self.length + 1
        self.cur = (i, G, pv, done + 1)


def setup_params(ctx, n):
    P = Params('P', n)
    return P


def comp_values(P, i):
    return [P.sym('value', i, nm) for nm in FIT]


def jac_loop(ctx, P, g, x, y, witness):
    """LoopSpec of the component loop in jacobian"""
    i0, p0 = witness

    def havoc(c, env):
        env.vars['matrix'] = JacList(c, P)

    def facts(c, env, k):
        fs = idx_facts(P, k, i0)
        kk = Sym.lift(k)
        pv = comp_values(P, Sym(kk) if not isinstance(k, Sym) else k)
        fs += [Sym.lift(pv[3]) > 0, Sym.lift(pv[4]) > 0, Sym.lift(pv[0]) != 0]
        M = env.vars['matrix']
        if isinstance(M, JacList) and isinstance(k, Sym) and k is not P.ncomp:
            G = gaussian_expr(c, g, x, y, pv)
            M.cur = (k, G, pv, 0)
        return fs

    def inv(c, env, k):
        M = env.lookup('matrix')
        L = seq_len(M)
        kk = Sym.lift(k)
        j = IDX(i0) + rank_sym(P, i0, p0)
        if isinstance(L, int) and L == 0:
            claim = z3.Not(z3.And(i0 >= 0, i0 < kk))
        else:
            claim = z3.Implies(z3.And(i0 >= 0, i0 < kk, p0 >= 0, p0 < 6, vary_sym(P, i0, p0)),
                               z3.And(j < Sym.lift(L), Sym.lift(seq_at(M, Sym(j))) == DROW(i0, p0)))
        return [("length_is_IDX", Sym.lift(L) == IDX(kk)), ("rows_are_true_derivatives_in_order", claim)]
    return LoopSpec(inv, havoc=havoc, facts=facts, label="components", modifies=lambda c, env: [env.vars['matrix']])


def t_jacobian(ctx):
    n = Sym(z3.Int('n'))
    ctx.assume(n >= 0)
    P = setup_params(ctx, n)
    x, y = Sym(z3.Real('x'), True), Sym(z3.Real('y'), True)
    i0, p0 = z3.Int('i0'), z3.Int('p0')
    g = genv(ctx)
    ctx.interp.loops["for i in range(*"] = jac_loop(ctx, P, g, x, y, (i0, p0))
    ctx.assume(IDX(0) == 0)
    out = run_function(ctx, FILE, 'jacobian', [P, x, y], globals_=g)
    if out.kind != 'return':
        ctx.oblige("safe", "no_exception", False)
        return
    M = out.value
    if not isinstance(M, SymList):
        raise Undecided("jacobian does not return the list of rows built in its component loop")
    j = IDX(i0) + rank_sym(P, i0, p0)
    ctx.oblige("post", "row_count", M.length == Sym(IDX(n.e)))
    ctx.oblige("post", "row_order",
               Implies(Sym(z3.And(i0 >= 0, i0 < n.e, p0 >= 0, p0 < 6, vary_sym(P, i0, p0))),
                       Sym(Sym.lift(M.at(Sym(j))) == DROW(i0, p0))))
    ctx.cover("returns")


# ---------------------------------------------------------------------------
# symbolic matrices (assumed linear-algebra contracts, compared structurally)
# ---------------------------------------------------------------------------

class Mat(PyObj):
    def __init__(self, expr):
        self.expr = expr

    def __repr__(self):
        return "Mat%r" % (self.expr,)

    def getattr_(self, ctx, name):
        if name == 'dot':
            return Model(lambda c, o: Mat(('dot', self.expr, o.expr if isinstance(o, Mat) else ('?', repr(o)))), 'dot')
        if name == 'T':
            return Mat(('T', self.expr))
        raise Undecided("matrix attribute %s" % name)

    def len_(self, ctx):
        n = Sym(z3.Int('npix'))
        ctx.assume(n >= 0)
        return n

    def binop_(self, ctx, op, other, swapped):
        o = other.expr if isinstance(other, Mat) else ('scalar', repr(other))
        if op in ('itruediv', 'truediv') and not swapped:
            return Mat(('div', self.expr, o))
        if op in ('imul', 'mul'):
            return Mat(('mul', self.expr, o))
        return NotImplemented


def mat_models(ctx):
    def transpose(c, m):
        return Mat(('T', m.expr)) if isinstance(m, Mat) else Opaque('transpose')

    def vstack(c, m):
        return m

    def inv(c, m):
        c.session.trust("scipy.linalg.inv: matrix inverse; raises LinAlgError for singular input")
        if c.free_branch():
            raise PyRaise(ExcValue('LinAlgError'))
        return Mat(('inv', m.expr)) if isinstance(m, Mat) else Opaque('inv')

    def diag(c, m):
        return Mat(('diag', m.expr)) if isinstance(m, Mat) else Opaque('diag')

    def sqrt(c, m):
        if isinstance(m, Mat):
            return Mat(('sqrt', m.expr))
        return lib.m_sqrt(c, m)
    return transpose, vstack, inv, diag, sqrt


def t_lmfit_jacobian(ctx):
    P = Params('P', Sym(z3.Int('n')))
    has_errs, has_B = ctx.free_branch(), ctx.free_branch()
    emp = ctx.free_branch()
    errs = Mat(('errs',)) if has_errs else None
    B = Mat(('B',)) if has_B else None
    transpose, vstack, inv, diag, sqrt = mat_models(ctx)
    called = []

    def c_jac(c, pars, x, y):
        called.append('jacobian')
        return Mat(('J',))

    def c_emp(c, pars, x, y):
        called.append('emp_jacobian')
        return Mat(('Jemp',))
    g = genv(ctx)
    g['np'].members.update(vstack=Model(vstack), transpose=Model(transpose))
    ctx.interp.contracts['jacobian'] = Model(c_jac, 'jacobian')
    ctx.interp.contracts['emp_jacobian'] = Model(c_emp, 'emp_jacobian')
    out = run_function(ctx, FILE, 'lmfit_jacobian', [P, Mat(('x',)), Mat(('y',))],
                       {'errs': errs, 'B': B, 'emp': emp}, globals_=g)
    if out.kind != 'return' or not isinstance(out.value, Mat):
        ctx.oblige("post", "shape_and_scaling", False)
        return
    e = ('Jemp',) if emp else ('J',)
    if has_errs:
        e = ('div', e, ('errs',))
    if has_B:
        e = ('dot', e, ('B',))
    e = ('T', e)
    ctx.oblige("post", "shape_and_scaling", out.value.expr == e)
    ctx.oblige("post", "analytic_unless_emp", called == (['emp_jacobian'] if emp else ['jacobian']))


# ---------------------------------------------------------------------------
# covar_errors
# ---------------------------------------------------------------------------

class OneSigma(PyObj):
    """onesigma vector: element j is the ghost term ONE(j); remembers which matrix expression it came from"""

    def __init__(self, expr, length):
        self.expr, self.length = expr, length
        self.f = z3.Function('ONE', z3.IntSort(), z3.RealSort())

    def getitem_(self, ctx, k):
        ctx.oblige("safe", "onesigma_index_in_range", And(k >= 0, k < self.length))
        return Sym(self.f(Sym.lift(k)))


def t_covar_errors(ctx):
    n = Sym(z3.Int('n'))
    ctx.assume(n >= 0)
    P = Params('P', n, split_stderr=False)
    has_C = ctx.free_branch()
    C = Mat(('C',)) if has_C else None
    B = Mat(('B',))
    errs = Mat(('errs',))
    transpose, vstack, inv, diag, sqrt = mat_models(ctx)
    i0, p0 = z3.Int('i0'), z3.Int('p0')
    jac_calls = []

    def c_lmfit_jac(c, pars, x, y, errs=None, B=None, emp=False):
        jac_calls.append({'errs': errs, 'B': B, 'emp': emp, 'pars': pars})
        return Mat(('Jt', 'B' if B is not None else None, 'errs' if errs is not None else None))

    def m_sqrt(c, m):
        if isinstance(m, Mat):
            return OneSigma(m.expr, Sym(IDX(n.e)))
        return lib.m_sqrt(c, m)

    def m_where(c, cond):
        return (Mat(('x',)), Mat(('y',)))
    g = genv(ctx)
    linalg = Namespace('np.linalg', LinAlgError=ExcClass('LinAlgError'))
    g['np'].members.update(transpose=Model(transpose), diag=Model(diag), sqrt=Model(m_sqrt), where=Model(m_where),
                           isfinite=Model(lambda c, d: Mat(('finite', 'data'))), linalg=linalg)
    g['inv'] = Model(inv, 'inv')
    ctx.interp.contracts['lmfit_jacobian'] = Model(c_lmfit_jac, 'lmfit_jacobian')
    pre_stderr = lambda i, p: P.f['stderr'](i, p)

    def inv_(c, env, k):
        kk = Sym.lift(k)
        jv = env.lookup('j') if env.has('j') else None
        one = env.lookup('onesigma')
        claims = []
        claims.append(("only_stderr_written", all(len(P.writes[f]) == 0 for f in ('value', 'vary', 'min', 'max'))))
        if jv is not None and isinstance(jv, (int, Sym)) and c.ghost.get('j_hoisted', False):
            claims.append(("counter_is_IDX", Sym.lift(jv) == IDX(kk)))
        if isinstance(one, OneSigma):
            claim = z3.Implies(z3.And(i0 >= 0, i0 < kk, p0 >= 0, p0 < 6, vary_sym(P, i0, p0)),
                               z3.Or(*[z3.And(p0 == q, Sym.lift(P.sym('stderr', Sym(i0), FIT[q])) ==
                                              one.f(IDX(i0) + rank_sym(P, i0, p0))) for q in range(6)]))
            claims.append(("stderr_is_own_diagonal_entry", claim))
            frame = z3.Implies(z3.And(i0 >= 0, p0 >= 0, p0 < 6, z3.Or(i0 >= kk, z3.Not(vary_sym(P, i0, p0)))),
                               z3.Or(*[z3.And(p0 == q, Sym.lift(P.sym('stderr', Sym(i0), FIT[q])) == pre_stderr(i0, z3.IntVal(q)))
                                       for q in range(6)]))
            claims.append(("other_stderr_untouched", frame))
        return claims

    def facts(c, env, k):
        return idx_facts(P, k, i0, n)

    def havoc(c, env):
        # the loop writes params[...].stderr: havoc the stderr map (fresh function), keep everything else
        P.f['stderr_loop'] = z3.Function(c._fresh('P_stderr_loop'), z3.IntSort(), z3.IntSort(), z3.RealSort())
        P.writes['stderr'] = []
        P.f['stderr'], P.f['stderr_pre'] = P.f['stderr_loop'], P.f['stderr']
    nonlocal_pre = {}

    def inv_wrapped(c, env, k):
        # the frame/claims must talk about the *pre-loop* stderr map, whichever function currently holds the heap
        if isinstance(k, int) and k == 0 and 'stderr_pre' not in P.f:
            c.ghost['j_hoisted'] = env.has('j')
        pre = P.f.get('stderr_pre', P.f['stderr'])
        nonlocal pre_stderr
        pre_stderr = lambda i, p: pre(i, p)
        return inv_(c, env, k)
    ctx.interp.loops["for i in range(*"] = LoopSpec(inv_wrapped, facts=facts, havoc=havoc, label="components",
                                                      types={'j': 'int', 'p': 'keep', 'prefix': 'keep'},
                                                      modifies=lambda c, env: [P])
    ctx.assume(IDX(0) == 0)
    # requires (from the call sites): at least as many unmasked pixels as free parameters
    ctx.assume(Sym(IDX(n.e)) <= Sym(z3.Int('npix')))
    out = run_function(ctx, FILE, 'covar_errors', [P, Mat(('data',)), errs, B], {'C': C}, globals_=g)
    if out.kind != 'return':
        ctx.oblige("safe", "no_exception", False)
        return
    ctx.oblige("post", "returns_params", out.value is P)
    one = out.env.lookup('onesigma') if out.env.has('onesigma') else None
    if not isinstance(one, OneSigma):
        # LinAlgError fallback path: decided under C03 (error masking); here only the non-exceptional paths
        ctx.session.notes.append("covar_errors fallback path (onesigma = [-2]*npix) is judged by C03")
        return
    kk = n.e
    pre = P.f.get('stderr_pre', P.f['stderr'])
    claim = z3.Implies(z3.And(i0 >= 0, i0 < kk, p0 >= 0, p0 < 6, vary_sym(P, i0, p0)),
                       z3.Or(*[z3.And(p0 == q, Sym.lift(P.sym('stderr', Sym(i0), FIT[q])) ==
                                      one.f(IDX(i0) + rank_sym(P, i0, p0))) for q in range(6)]))
    ctx.oblige("post", "stderr_index", Sym(claim))
    # Fisher composition (structural)
    last = jac_calls[-1]
    used_C = has_C and not any(True for _ in [0] if len(jac_calls) > 1)
    if has_C and len(jac_calls) == 1:
        want = ('sqrt?',)
        J = ('Jt', None, 'errs')
        covar = ('dot', ('dot', ('T', J), ('inv', ('C',))), J)
    else:
        J = ('Jt', 'B', 'errs')
        covar = ('dot', ('T', J), J)
    ctx.oblige("post", "fisher_composition", one.expr == ('diag', ('inv', covar)))
    ctx.oblige("post", "jacobian_of_the_fitted_params", last['pars'] is P and last['emp'] is False)
    ctx.cover("returns")


def verify(S):
    targets = [("fitting.elliptical_gaussian", t_gaussian), ("fitting.jacobian", t_jacobian),
               ("fitting.lmfit_jacobian", t_lmfit_jacobian), ("fitting.covar_errors", t_covar_errors)]
    for name, fn in targets:
        if S.only and S.only not in name:
            continue
        ctx = Ctx(S, name)
        try:
            ctx.explore(fn)
        except Undecided as u:
            S.undecided.append("%s: %s" % (name, u))


REPLAY = {"d_%s" % p: "replay_jacobian" for p in FIT}
REPLAY.update({"row_order": "replay_jacobian", "row_count": "replay_jacobian", "only_varying_rows": "replay_jacobian",
               "components.length_is_IDX": "replay_jacobian", "components.rows_are_true_derivatives_in_order": "replay_jacobian",
               "stderr_index": "replay_covar", "components.stderr_is_own_diagonal_entry": "replay_covar",
               "components.other_stderr_untouched": "replay_covar", "fisher_composition": "replay_covar",
               "shape_and_scaling": "replay_lmfit_jacobian", "analytic_unless_emp": "replay_lmfit_jacobian",
               "closed_form.exponent": "replay_gaussian", "closed_form.amplitude_factor": "replay_gaussian",
               "peak_value_at_centre": "replay_gaussian"})
NATIVE_CHECKS = [{"func": "crosscheck", "payload": {}}]
