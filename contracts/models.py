"""Models of lmfit.Parameters and of python lists of symbolic length."""
import re

import z3

from pyvc.engine import PyObj, Model, StrFormat, Undecided, PyRaise, ExcValue
from pyvc.values import Sym, And, Or, Not, Implies, ite, Opaque, NaN, NaNType

PNAMES = ['amp', 'xo', 'yo', 'sx', 'sy', 'theta', 'flags']


def flatten_str(s):
    """StrFormat / str -> list of literal strings and values"""
    if isinstance(s, str):
        return [s]
    if isinstance(s, StrFormat):
        import string
        out = []
        auto = 0
        for lit, name, spec, conv in string.Formatter().parse(s.template):
            if lit:
                out.append(lit)
            if name is None:
                continue
            if name == "":
                idx = auto
                auto += 1
            else:
                idx = int(name)
            out.extend(flatten_str(s.args[idx]) if isinstance(s.args[idx], (str, StrFormat)) else [s.args[idx]])
        return out
    return [s]


def parse_key(key):
    """'components' | ('c', i, name)"""
    parts = flatten_str(key)
    if all(isinstance(p, str) for p in parts):
        k = "".join(parts)
        if k == 'components':
            return k
        m = re.fullmatch(r'c(\d+)_(\w+)', k)
        if m and m.group(2) in PNAMES:
            return (int(m.group(1)), m.group(2))
        raise PyRaise(ExcValue('KeyError', (k,)))
    # pattern: 'c', <int>, '_name'  (possibly split literals)
    lits = "".join(p if isinstance(p, str) else "\0" for p in parts)
    vals = [p for p in parts if not isinstance(p, str)]
    m = re.fullmatch(r'c\0_(\w+)', lits)
    if m and len(vals) == 1 and m.group(1) in PNAMES:
        v = vals[0]
        if isinstance(v, Sym) and not v.is_int:
            raise Undecided("parameter key with non-integer component index")
        return (v, m.group(1))
    raise Undecided("unrecognised lmfit parameter key %r" % (parts,))


class FlagWord(PyObj):
    """an integer used as a set of flag bits (16-bit vector)"""
    W = 16

    def __init__(self, bv):
        self.bv = bv

    @staticmethod
    def of(v):
        if isinstance(v, FlagWord):
            return v.bv
        if isinstance(v, bool):
            v = int(v)
        if isinstance(v, int):
            return z3.BitVecVal(v, FlagWord.W)
        if isinstance(v, float) and v == int(v):
            return z3.BitVecVal(int(v), FlagWord.W)
        raise Undecided("flag arithmetic with %r" % (v,))

    @staticmethod
    def fresh(name, within=0x7F):
        bv = z3.BitVec(name, FlagWord.W)
        return FlagWord(bv), (bv & z3.BitVecVal((~within) & 0xFFFF, FlagWord.W)) == 0

    def binop_(self, ctx, op, other, swapped):
        name = op[1:] if op.startswith('i') and op[1:] in ('or', 'and', 'xor', 'add') else op
        if name in ('or', 'and', 'xor'):
            o = FlagWord.of(other)
            return FlagWord({'or': self.bv | o, 'and': self.bv & o, 'xor': self.bv ^ o}[name])
        if name == 'add':
            return FlagWord(self.bv + FlagWord.of(other))
        if name in ('Eq', 'NotEq'):
            r = Sym(self.bv == FlagWord.of(other))
            return r if name == 'Eq' else Sym(z3.Not(r.e))
        return NotImplemented

    def truth_(self, ctx):
        return ctx.branch(Sym(self.bv != 0))

    def int_(self, ctx):
        return self

    def subset_of(self, mask):
        return Sym((self.bv & z3.BitVecVal((~mask) & 0xFFFF, FlagWord.W)) == 0)

    def has(self, bit):
        return Sym((self.bv & z3.BitVecVal(bit, FlagWord.W)) != 0)


class ParamRef(PyObj):
    def __init__(self, params, i, pname):
        self.params, self.i, self.pname = params, i, pname

    def getattr_(self, ctx, name):
        P = self.params
        if name == 'value' and self.pname == 'flags':
            fw = getattr(P, 'flagword', None)
            if fw is not None:
                return fw(self.i)
        if name in ('value', 'vary', 'stderr', 'min', 'max'):
            v = P.read(ctx, name, self.i, self.pname)
            return v
        if name == 'set':
            def _set(c, **kw):
                for k, v in kw.items():
                    if k in ('value', 'vary', 'min', 'max'):
                        if isinstance(v, Opaque):
                            continue
                        P.write(c, k, self.i, self.pname, v)
                    else:
                        raise Undecided("Parameter.set(%s=...)" % k)
            return Model(_set, 'Parameter.set')
        raise Undecided("Parameter.%s" % name)

    def setattr_(self, ctx, name, value):
        if name in ('value', 'vary', 'stderr', 'min', 'max'):
            self.params.write(ctx, name, self.i, self.pname, value)
            return
        raise Undecided("Parameter.%s assignment" % name)


class Params(PyObj):
    """lmfit.Parameters for a model of `ncomp` components c<i>_<amp|xo|yo|sx|sy|theta|flags> + 'components'.

    value/min/max are Real-sorted (lmfit stores floats), vary is Bool, stderr is
    Real or NaN/None (read splits on `stderr_finite`)."""
    typename = 'Parameters'

    def __init__(self, name, ncomp, split_stderr=True):
        self.name, self.ncomp = name, ncomp
        I = z3.IntSort()
        self.f = {
            'value': z3.Function(name + '_value', I, I, z3.RealSort()),
            'vary': z3.Function(name + '_vary', I, I, z3.BoolSort()),
            'stderr': z3.Function(name + '_stderr', I, I, z3.RealSort()),
            'stderr_finite': z3.Function(name + '_stderr_finite', I, I, z3.BoolSort()),
            'min': z3.Function(name + '_min', I, I, z3.RealSort()),
            'max': z3.Function(name + '_max', I, I, z3.RealSort()),
        }
        self.writes = {k: [] for k in self.f}
        self.split_stderr = split_stderr
        self.nan_values = []     # (i, pname) pairs whose value was set to NaN

    def sym(self, field, i, pname):
        """current term of field(i, pname) including writes (no branching)"""
        p = PNAMES.index(pname)
        ie = Sym.lift(i)
        v = Sym(self.f[field](ie, z3.IntVal(p)))
        for wi, wp, wv in self.writes[field]:
            if wp != p:
                continue
            c = (Sym(ie) == wi) if (isinstance(wi, Sym) or isinstance(i, Sym)) else (wi == i)
            if c is True:
                v = wv
            elif c is False:
                continue
            else:
                if isinstance(wv, (NaNType, Opaque)) or wv is None or isinstance(v, (NaNType, Opaque)) or v is None:
                    raise Undecided("symbolic aliasing of a NaN/None parameter write")
                v = ite(c, wv, v)
        return v

    def read(self, ctx, field, i, pname):
        if field == 'stderr':
            for wi, wp, wv in reversed(self.writes['stderr']):
                if wp == PNAMES.index(pname) and not isinstance(wi, Sym) and not isinstance(i, Sym) and wi == i:
                    return wv
            if self.split_stderr:
                fin = self.sym('stderr_finite', i, pname)
                if not ctx.truth(fin):
                    return NaN
            return self.sym('stderr', i, pname)
        return self.sym(field, i, pname)

    def write(self, ctx, field, i, pname, value):
        self.writes[field].append((i, PNAMES.index(pname), value))
        if field == 'stderr':
            fin = not isinstance(value, NaNType) and value is not None
            self.writes['stderr_finite'].append((i, PNAMES.index(pname), fin))

    def fingerprint_(self):
        return ('params', tuple((k, len(v)) for k, v in sorted(self.writes.items()))), []

    def getitem_(self, ctx, key):
        k = parse_key(key)
        if k == 'components':
            return _Components(self)
        return ParamRef(self, k[0], k[1])

    def contains_(self, ctx, key):
        k = parse_key(key)
        if k == 'components':
            return True
        i = k[0]
        return And(i >= 0, i < self.ncomp) if isinstance(i, Sym) or isinstance(self.ncomp, Sym) else 0 <= i < self.ncomp


class _Components(PyObj):
    def __init__(self, params):
        self.params = params

    def getattr_(self, ctx, name):
        if name == 'value':
            n = self.params.ncomp
            # lmfit returns a float: Real-sorted, integral valued
            return Sym(z3.ToReal(Sym.lift(n)), True) if isinstance(n, Sym) else float(n)
        raise Undecided("components.%s" % name)


from pyvc.engine import SymList, seq_len, seq_at  # noqa: E402,F401
