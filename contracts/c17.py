"""C17 — spherical geometry and sexagesimal primitives (AegeanTools/angle_tools.py).

Functions under contract (whole bodies): dec2dms, dec2hms, dec2dec, ra2dec, gcd, bear, translate.

Sexagesimal spec (from the property): every printed field is in range (minutes and
seconds below 60, hours below 24), and parse(format(x)) = x to within half a unit
of the last printed digit (mod 360 deg for RA); non-finite input prints the
documented placeholder.  The printed value of a '{:0w.pf}' field is c/10^p with
c = round-half-even(10^p * value) (assumed str.format contract).

Great circle spec: gcd symmetric, in [0,180], zero iff same point, and its haversine
argument equals |v1-v2|^2/4 for the unit vectors of the two points (the
independent vector formula); bear's arctan2 arguments are the standard
position-angle numerator/denominator; translate's output has sin(dec') equal to
the z-component of the rotated vector and lies at distance r.
"""
import z3

from pyvc.engine import (Ctx, Model, Namespace, run_function, Undecided, StrFormat)
from pyvc.values import Sym, And, Or, Not, Implies, ite, NaN, Opaque
from pyvc import lib
from contracts.common import format_fields, FieldStr, SexaStr

PROPERTY = "C17"
FILE = "AegeanTools/angle_tools.py"

ASSUMPTIONS = [
    "float arithmetic treated as real arithmetic (IEEE rounding not modelled): the 1e-9 deg agreement clause near 0/180 deg "
    "separation is NOT decided",
    "str.format('{:0w.pf}') prints round-half-even(10^p * v)/10^p; '{:0wd}' prints the integer (requires an int argument)",
    "str.replace/split/float on the printed string are modelled on its token structure (sign, D, M, S)",
    "sin/cos: only Pythagoras, the angle-addition formulas and sin(pi/2)=1 are used (pyvc/trig.py); arcsin/arctan2/sqrt "
    "by their defining axioms (pyvc/lib.py)",
    "cos(radians(dec)) >= 0 for |dec| <= 90 (lemma about cos, assumed)",
    "triangle inequality of gcd: NOT decided (needs the Lean/Mathlib lemma of DESIGN §4 C17; not built)",
    "array (broadcast) arguments: pointwise numpy contract assumed; only scalars are executed symbolically",
]


def genv():
    return {'np': lib.std_np(), 'math': lib.std_math()}


def inline_all(ctx):
    ctx.interp.inline.update(['dec2dec', 'ra2dec', 'gcd', 'bear', 'translate'])


def with_module_functions(g):
    from pyvc.engine import find_function, Closure, Env
    menv = Env(g)
    for fn in ('dec2dec', 'ra2dec', 'gcd', 'bear', 'translate', 'dec2dms', 'dec2hms'):
        g[fn] = Closure(find_function(FILE, fn), menv, FILE, fn)
    return g


# ---------------------------------------------------------------------------
# sexagesimal
# ---------------------------------------------------------------------------

def check_layout(fields, tail, kinds, lits):
    if [f.kind for f in fields] != kinds or [f.literal for f in fields] != lits or tail != "":
        raise Undecided("sexagesimal format string has a different layout than sDD:MM:SS.ss")


def t_dec2dms(ctx):
    x = Sym(z3.Real('x'), True)
    ctx.assume(And(x >= -360, x <= 360))
    out = run_function(ctx, FILE, 'dec2dms', [x], globals_=with_module_functions(genv()))
    if out.kind != 'return':
        ctx.oblige("safe", "no_exception_on_finite_input", False)
        return
    fields, tail = format_fields(ctx, out.value)
    check_layout(fields, tail, ['s', 'd', 'd', 'f'], ['', '', ':', ':'])
    sgn, D, M, S = fields
    p = S.prec
    ctx.oblige("safe", "format_d_requires_int", And(*[isinstance(f.value, int) or (isinstance(f.value, Sym) and f.value.is_int)
                                                      for f in (D, M)]))
    ctx.oblige("post", "sign_char", sgn.value == ('-' if ctx.truth(x < 0) else '+'))
    ctx.oblige("post", "degrees_nonnegative", D.printed >= 0)
    ctx.oblige("post", "minutes_field_in_range", And(M.printed >= 0, M.printed < 60))
    ctx.oblige("post", "seconds_field_in_range", And(S.printed >= 0, S.printed < 60 * 10 ** p))
    ctx.oblige("post", "degrees_le_90_for_declinations", Implies(And(x >= -90, x <= 90), D.printed <= 90))
    # parse the printed string with the real dec2dec
    printed = SexaStr([FieldStr(sgn.value, D.printed), FieldStr(None, M.printed),
                       FieldStr(None, Sym(z3.ToReal(Sym.num(S.printed)) / (10 ** p), True))])
    ctx.interp.inline.add('dec2dec')
    back = run_function(ctx, FILE, 'dec2dec', [printed], globals_=with_module_functions(genv()))
    if back.kind != 'return':
        ctx.oblige("lemma", "dms_roundtrip", False)
        return
    y = back.value
    tol = Sym(z3.RealVal(1) / (2 * 3600 * 10 ** p))
    ctx.oblige("lemma", "dms_roundtrip", And(y - x <= tol, x - y <= tol))
    ctx.cover("dec2dms.reachable")


def t_dec2hms(ctx):
    x = Sym(z3.Real('x'), True)
    ctx.assume(And(x >= -360, x < 360))
    out = run_function(ctx, FILE, 'dec2hms', [x], globals_=with_module_functions(genv()))
    if out.kind != 'return':
        ctx.oblige("safe", "no_exception_on_finite_input", False)
        return
    fields, tail = format_fields(ctx, out.value)
    check_layout(fields, tail, ['d', 'd', 'f'], ['', ':', ':'])
    H, M, S = fields
    p = S.prec
    ctx.oblige("safe", "format_d_requires_int", And(*[isinstance(f.value, int) or (isinstance(f.value, Sym) and f.value.is_int)
                                                      for f in (H, M)]))
    ctx.oblige("post", "hours_field_in_range", And(H.printed >= 0, H.printed < 24))
    ctx.oblige("post", "minutes_field_in_range", And(M.printed >= 0, M.printed < 60))
    ctx.oblige("post", "seconds_field_in_range", And(S.printed >= 0, S.printed < 60 * 10 ** p))
    printed = SexaStr([FieldStr(None, H.printed), FieldStr(None, M.printed),
                       FieldStr(None, Sym(z3.ToReal(Sym.num(S.printed)) / (10 ** p), True))])
    ctx.interp.inline.update(['dec2dec'])
    back = run_function(ctx, FILE, 'ra2dec', [printed], globals_=with_module_functions(genv()))
    if back.kind != 'return':
        ctx.oblige("lemma", "hms_roundtrip_mod_360", False)
        return
    y = back.value
    tol = Sym(z3.RealVal(15) / (2 * 3600 * 10 ** p))
    near = lambda d: And(y - x - d <= tol, x + d - y <= tol)
    ctx.oblige("lemma", "hms_roundtrip_mod_360", Or(near(0), near(360), near(-360)))
    ctx.cover("dec2hms.reachable")


def t_nonfinite(ctx):
    for fn in ('dec2dms', 'dec2hms'):
        out = run_function(ctx, FILE, fn, [NaN], globals_=with_module_functions(genv()))
        ctx.oblige("post", "%s.nonfinite_placeholder" % fn,
                   out.kind == 'return' and out.value == 'XX:XX:XX.XX')


def t_dec2dec_two_fields(ctx):
    """'hh:mm' (no seconds) parses as seconds = 0, both signs"""
    D = Sym(z3.Int('D'))
    M = Sym(z3.Int('M'))
    ctx.assume(And(D >= 0, M >= 0, M < 60))
    for sign in ('+', '-', None):
        s = SexaStr([FieldStr(sign, D), FieldStr(None, M)])
        out = run_function(ctx, FILE, 'dec2dec', [s], globals_=with_module_functions(genv()))
        if out.kind != 'return':
            ctx.oblige("post", "dec2dec.two_fields", False)
            continue
        mag = D + Sym(z3.ToReal(M.e) / 60)
        ctx.oblige("post", "dec2dec.two_fields.sign_%s" % {'+': 'plus', '-': 'minus', None: 'none'}[sign],
                   out.value == (-mag if sign == '-' else mag))


# ---------------------------------------------------------------------------
# great circles
# ---------------------------------------------------------------------------

def sky_syms(names):
    return [Sym(z3.Real(n), True) for n in names]


def unit_vec(ctx, ra, dec):
    cr, sr = lib.m_cos(ctx, lib.m_radians(ctx, ra)), lib.m_sin(ctx, lib.m_radians(ctx, ra))
    cd, sd = lib.m_cos(ctx, lib.m_radians(ctx, dec)), lib.m_sin(ctx, lib.m_radians(ctx, dec))
    return cd * cr, cd * sr, sd


def hav_arg(ctx):
    """the argument of sqrt in gcd's result = the haversine 'a' (recorded by the sqrt model)"""
    return ctx.ghost.get('sqrt_args', [None])[-1]


def recording_np(ctx):
    np_ = lib.std_np()
    ctx.ghost['sqrt_args'] = []
    ctx.ghost['atan2_args'] = []
    ctx.ghost['asin_args'] = []

    def sq(c, x):
        c.ghost['sqrt_args'].append(x)
        return lib.m_sqrt(c, x)

    def at2(c, y, x):
        c.ghost['atan2_args'].append((y, x))
        return lib.m_arctan2(c, y, x)

    def asn(c, x):
        c.ghost['asin_args'].append(x)
        return lib.m_arcsin(c, x)
    np_.members['sqrt'] = Model(sq, 'np.sqrt')
    np_.members['arctan2'] = Model(at2, 'np.arctan2')
    np_.members['arcsin'] = Model(asn, 'np.arcsin')
    return np_


def t_gcd(ctx):
    ra1, dec1, ra2, dec2 = sky_syms(['ra1', 'dec1', 'ra2', 'dec2'])
    ctx.assume(And(dec1 >= -90, dec1 <= 90, dec2 >= -90, dec2 <= 90))
    ctx.cover("gcd.reachable")
    # lemma about cos on [-pi/2, pi/2] (assumed, listed)
    c1 = lib.m_cos(ctx, lib.m_radians(ctx, dec1))
    c2 = lib.m_cos(ctx, lib.m_radians(ctx, dec2))
    ctx.assume(And(c1 >= 0, c2 >= 0))
    g = {'np': recording_np(ctx), 'math': lib.std_math()}
    o1 = run_function(ctx, FILE, 'gcd', [ra1, dec1, ra2, dec2], globals_=g)
    a12 = hav_arg(ctx)
    o2 = run_function(ctx, FILE, 'gcd', [ra2, dec2, ra1, dec1], globals_=g)
    a21 = hav_arg(ctx)
    if o1.kind != 'return' or o2.kind != 'return' or a12 is None:
        raise Undecided("gcd no longer has the haversine/sqrt structure")
    ctx.oblige("post", "gcd.symmetric.haversine_argument", a12 == a21, trig=True, focus=1, timeout_ms=40000)
    ctx.oblige("post", "gcd.symmetric", Implies(a12 == a21, o1.value == o2.value), focus=2)
    x1, y1, z1 = unit_vec(ctx, ra1, dec1)
    x2, y2, z2 = unit_vec(ctx, ra2, dec2)
    chord2 = (x1 - x2) ** 2 + (y1 - y2) ** 2 + (z1 - z2) ** 2
    ctx.oblige("post", "gcd.haversine_equals_vector_formula", a12 * 4 == chord2, trig=True, focus=1, timeout_ms=40000)
    ctx.oblige("post", "gcd.haversine_argument_nonnegative", a12 >= 0, focus=2, timeout_ms=40000)
    # range: result = degrees(2*arcsin(min(1, sqrt(a))))
    A = Sym(z3.Real('A'), True)       # name the haversine argument (keeps the queries small)
    ctx.assume(A == a12)
    ctx.oblige("post", "gcd.range_0_180", Implies(A >= 0, And(o1.value >= 0, o1.value <= 180)), focus=3)
    ctx.oblige("post", "gcd.zero_iff_haversine_zero", Implies(A >= 0, (o1.value == 0) == (A == 0)), focus=3)
    # zero iff same point, as a lemma chain over named quantities (each link is its own obligation):
    #   result = 0 <=> A = 0   (above);   4A = |v1-v2|^2   (above);   |d|^2 = 0 <=> d = 0   (pure algebra)
    dx, dy, dz, CH, RES = [Sym(z3.Real(n), True) for n in ('dx', 'dy', 'dz', 'CH', 'RES')]
    ctx.oblige("lemma", "gcd.sum_of_squares_zero_iff_all_zero",
               (dx * dx + dy * dy + dz * dz == 0) == And(dx == 0, dy == 0, dz == 0), nohyps=True)
    same = And(dx == 0, dy == 0, dz == 0)
    ctx.oblige("lemma", "gcd.zero_iff_same_point",
               Implies(And((RES == 0) == (A == 0), A * 4 == CH, CH == dx * dx + dy * dy + dz * dz,
                           (CH == 0) == same), (RES == 0) == same), nohyps=True)


def t_bear(ctx):
    ra1, dec1, ra2, dec2 = sky_syms(['ra1', 'dec1', 'ra2', 'dec2'])
    ctx.cover("bear.reachable")
    g = {'np': recording_np(ctx), 'math': lib.std_math()}
    o = run_function(ctx, FILE, 'bear', [ra1, dec1, ra2, dec2], globals_=g)
    if o.kind != 'return' or not ctx.ghost['atan2_args']:
        raise Undecided("bear no longer returns degrees(arctan2(y, x))")
    y, x = ctx.ghost['atan2_args'][-1]
    rad = lambda v: lib.m_radians(ctx, v)
    sdl, cdl = lib.m_sin(ctx, rad(ra2 - ra1)), lib.m_cos(ctx, rad(ra2 - ra1))
    s1, c1 = lib.m_sin(ctx, rad(dec1)), lib.m_cos(ctx, rad(dec1))
    s2, c2 = lib.m_sin(ctx, rad(dec2)), lib.m_cos(ctx, rad(dec2))
    ctx.oblige("post", "bear.pa_formula", And(y == sdl * c2, x == c1 * s2 - s1 * c2 * cdl), trig=True, focus=1)
    at = lib.f_atan2(Sym.lift(y), Sym.lift(x))
    ctx.oblige("post", "bear.is_degrees_of_arctan2", o.value == Sym(at * 180 / lib.PI), focus=2)
    ctx.oblige("post", "bear.range", And(o.value > -180, o.value <= 180), focus=2)
    # east of north: a target to the east (y > 0) has a positive bearing, to the west a negative one
    ctx.oblige("post", "bear.east_is_positive", And(Implies(y > 0, o.value > 0), Implies(y < 0, o.value < 0)), focus=2)
    ctx.oblige("post", "bear.north_is_zero", Implies(And(y == 0, x > 0), o.value == 0), focus=2)


def t_translate(ctx):
    ra, dec, r, th = sky_syms(['ra', 'dec', 'r', 'theta'])
    ctx.assume(And(dec >= -90, dec <= 90, r >= 0, r < 180))
    ctx.cover("translate.reachable")
    g = {'np': recording_np(ctx), 'math': lib.std_math()}
    o = run_function(ctx, FILE, 'translate', [ra, dec, r, th], globals_=g)
    if o.kind != 'return' or not isinstance(o.value, tuple) or len(o.value) != 2 or not ctx.ghost['asin_args']:
        raise Undecided("translate no longer has the (ra + arctan2, arcsin) structure")
    ra_out, dec_out = o.value
    rad = lambda v: lib.m_radians(ctx, v)
    sd, cd = lib.m_sin(ctx, rad(dec)), lib.m_cos(ctx, rad(dec))
    sr, cr = lib.m_sin(ctx, rad(r)), lib.m_cos(ctx, rad(r))
    st, ct = lib.m_sin(ctx, rad(th)), lib.m_cos(ctx, rad(th))
    factor = ctx.ghost['asin_args'][-1]
    # z-component of the point at distance r along bearing theta
    ctx.oblige("post", "translate.sin_dec_out_is_rotated_z", factor == sd * cr + cd * sr * ct, trig=True, focus=1)
    F = Sym(z3.Real('F'), True)
    ctx.assume(F == factor)
    ctx.oblige("safe", "translate.arcsin_argument_in_domain",
               Implies(F == sd * cr + cd * sr * ct, And(F >= -1, F <= 1)), focus=2, timeout_ms=40000)
    yy, xx = ctx.ghost['atan2_args'][-1]
    sdo = lib.m_sin(ctx, rad(dec_out))
    ctx.oblige("post", "translate.dec_out_is_degrees_of_arcsin",
               Implies(And(F >= -1, F <= 1), sdo == F), trig=True, focus=3)
    ctx.oblige("post", "translate.dra_arguments", And(yy == st * sr * cd, xx == cr - sd * sdo), trig=True, focus=1)
    ctx.oblige("post", "translate.ra_out_is_ra_plus_dra",
               ra_out == ra + Sym(lib.f_atan2(Sym.lift(yy), Sym.lift(xx)) * 180 / lib.PI), focus=2)
    # distance: with sin(dec') = F and cos(dec') cos(dec) cos(dra) = xx (spherical law of cosines),
    # cos(separation) = sin(dec) sin(dec') + xx must equal cos(r)
    ctx.oblige("post", "translate.distance_is_r", sd * sdo + xx == cr, trig=True, focus=1)


def t_array_args(ctx):
    """array arguments: results are elementwise, and the caller's arrays are not modified (frame)"""
    from contracts.arrays import SArr
    n = Sym(z3.Int('n'))
    ctx.assume(n >= 1)
    for fn, nargs in (('gcd', 4), ('bear', 4), ('translate', 4)):
        args = [SArr.fresh("%s_a%d" % (fn, k), (n,)) for k in range(nargs)]
        before = [(a.elem, list(a.writes)) for a in args]
        g = {'np': lib.std_np(), 'math': lib.std_math()}
        out = run_function(ctx, FILE, fn, list(args), globals_=g)
        ok = out.kind == 'return'
        ctx.oblige("frame", "%s.array_arguments_not_modified" % fn,
                   ok and all(a.elem is b[0] and a.writes == b[1] for a, b in zip(args, before)))
        res = out.value if ok else None
        outs = list(res) if isinstance(res, tuple) else [res]
        ctx.oblige("post", "%s.array_result_elementwise_shape" % fn,
                   ok and all(isinstance(r, SArr) and len(r.shape_) == 1 and r.shape_[0] is n for r in outs))


def verify(S):
    targets = [("angle_tools.arrays", t_array_args),("angle_tools.dec2dms", t_dec2dms), ("angle_tools.dec2hms", t_dec2hms),
               ("angle_tools.sexagesimal", t_nonfinite), ("angle_tools.dec2dec", t_dec2dec_two_fields),
               ("angle_tools.gcd", t_gcd), ("angle_tools.bear", t_bear), ("angle_tools.translate", t_translate)]
    for name, fn in targets:
        if S.only and S.only not in name:
            continue
        ctx = Ctx(S, name)
        try:
            ctx.explore(fn)
        except Undecided as u:
            S.undecided.append("%s: %s" % (name, u))
    ctx = Ctx(S, "angle_tools.dec2dms")

    def canary(c):
        x = Sym(z3.Real('x'), True)
        c.assume(And(x >= 0, x <= 90))
        out = run_function(c, FILE, 'dec2dms', [x], globals_=with_module_functions(genv()))
        fields, _ = format_fields(c, out.value)
        c.oblige("canary", "minutes_always_zero", fields[2].printed == 0, expect="fail")
    ctx.explore(canary)


REPLAY = {
    "seconds_field_in_range": "replay_fields", "minutes_field_in_range": "replay_fields",
    "hours_field_in_range": "replay_fields", "dms_roundtrip": "replay_fields", "hms_roundtrip_mod_360": "replay_fields",
    "sign_char": "replay_fields", "degrees_nonnegative": "replay_fields", "degrees_le_90_for_declinations": "replay_fields",
    "format_d_requires_int": "replay_fields", "no_exception_on_finite_input": "replay_fields",
    "dec2dms.nonfinite_placeholder": "replay_fields", "dec2hms.nonfinite_placeholder": "replay_fields",
    "gcd.symmetric": "replay_sphere", "gcd.haversine_equals_vector_formula": "replay_sphere",
    "gcd.range_0_180": "replay_sphere", "gcd.zero_iff_same_point": "replay_sphere", "gcd.sum_of_squares_zero_iff_all_zero": "replay_sphere",
    "gcd.zero_iff_haversine_zero": "replay_sphere", "gcd.haversine_argument_nonnegative": "replay_sphere",
    "bear.pa_formula": "replay_sphere", "bear.is_degrees_of_arctan2": "replay_sphere", "bear.range": "replay_sphere",
    "bear.east_is_positive": "replay_sphere",
    "translate.sin_dec_out_is_rotated_z": "replay_sphere", "translate.distance_is_r": "replay_sphere",
    "translate.dra_arguments": "replay_sphere", "translate.ra_out_is_ra_plus_dra": "replay_sphere",
    "translate.dec_out_is_degrees_of_arcsin": "replay_sphere", "translate.arcsin_argument_in_domain": "replay_sphere",
    "gcd.array_arguments_not_modified": "replay_arrays", "bear.array_arguments_not_modified": "replay_arrays",
    "translate.array_arguments_not_modified": "replay_arrays", "gcd.array_result_elementwise_shape": "replay_arrays",
    "bear.array_result_elementwise_shape": "replay_arrays", "translate.array_result_elementwise_shape": "replay_arrays",
}

NATIVE_CHECKS = [{"func": "crosscheck", "payload": {}}]
