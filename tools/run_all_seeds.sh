#!/bin/sh
# tools/run_all_seeds.sh : apply every stored seeded change to a scratch copy, run its property's quick check, write seeded/RESULTS.tsv
cd /verif
OUT=/verif/seeded/RESULTS.tsv
printf "seed\tdeductive\tnative\tnoinput\tundecided\texit_is_violation\tfirst\n" > $OUT.new
for d in seeded/C*-*; do
  P=$(basename $d | cut -d- -f1)
  out=$(tools/seedtest.sh $P /verif/$d 2>&1)
  ded=$(echo "$out" | grep "^VIOLATION" | grep -v "crosscheck.native" | wc -l)
  nat=$(echo "$out" | grep "^VIOLATION" | grep "crosscheck.native" | wc -l)
  noin=$(echo "$out" | grep "^VIOLATION" | grep -c "no-failing-input-found")
  und=$(echo "$out" | grep -c "^UNDECIDED")
  first=$(echo "$out" | grep "^VIOLATION" | grep -v "crosscheck.native" | head -1 | sed 's/.*replays.C[0-9]*.//; s/.json.*//' | cut -c1-120)
  [ -z "$first" ] && first=$(echo "$out" | grep "^VIOLATION" | head -1 | sed 's/.*replays.C[0-9]*.//; s/.json.*//' | cut -c1-120)
  caught=no; [ $((ded+nat)) -gt 0 ] && caught=yes
  printf "%s\t%s\t%s\t%s\t%s\t%s\t%s\n" "$(basename $d)" "$ded" "$nat" "$noin" "$und" "$caught" "$first" >> $OUT.new
done
mv $OUT.new $OUT
