#!/usr/bin/env python3
"""regenerate the generated tables of DESIGN.md (§9.1 from evidence, §9.3 from seeded/RESULTS.tsv)"""
import os, re, subprocess
V = os.path.dirname(os.path.dirname(os.path.abspath(__file__)))
p = os.path.join(V, 'DESIGN.md')
s = open(p).read()
for tag, script in (("TABLE91", "gen_design_tables.py"), ("SEEDTABLE", "gen_seed_table.py")):
    t = subprocess.run(['python3', os.path.join(V, 'tools', script)], capture_output=True, text=True).stdout.strip()
    s = re.sub(r"<!-- %s -->.*?<!-- /%s -->" % (tag, tag), lambda m: "<!-- %s -->\n%s\n<!-- /%s -->" % (tag, t, tag), s, flags=re.S)
open(p, 'w').write(s)
