#!/usr/bin/env python3
"""print the §9.3 table of DESIGN.md from seeded/RESULTS.tsv and the seeds' meta.json"""
import json, os
V = os.path.dirname(os.path.dirname(os.path.abspath(__file__)))
rows = [l.rstrip("\n").split("\t") for l in open(os.path.join(V, "seeded", "RESULTS.tsv"))][1:]
rows.sort(key=lambda r: (r[0].split('-')[0], int(r[0].split('-')[1])))
print("| seed | change (one line) | failed obligations | native labels | without input | undecided | first reported |")
print("|------|-------------------|--------------------|---------------|---------------|-----------|----------------|")
for r in rows:
    meta = json.load(open(os.path.join(V, "seeded", r[0], "meta.json")))
    summ = (meta.get('summary') or meta.get('description') or '').replace('|', '/').replace('\n', ' ')
    summ = summ[:150] + ('…' if len(summ) > 150 else '')
    print("| %s | %s | %s | %s | %s | %s | `%s` |" % (r[0], summ, r[1], r[2], r[3], r[4], r[6][:90]))
caught = sum(1 for r in rows if r[5] == 'yes')
ded = sum(1 for r in rows if int(r[1]) > 0)
print()
print("%d of %d stored seeds are caught (exit 1); %d by at least one failed deductive obligation, the others by the native "
      "cross-check of the same contract (the deductive side then reports *undecided*: the changed code left the modelled subset)." % (caught, len(rows), ded))
