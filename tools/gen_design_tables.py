#!/usr/bin/env python3
"""print the §9.1 table of DESIGN.md from MANIFEST.json and evidence/*.json (run after refreshing the evidence on /repo)"""
import json, os
V = os.path.dirname(os.path.dirname(os.path.abspath(__file__)))
m = json.load(open(os.path.join(V, 'MANIFEST.json')))
print("| id | functions / regions under contract | VCs (named) | discharged | back ends (VCs) | quick wall s | native evaluations | known findings |")
print("|----|------------------------------------|-------------|------------|-----------------|--------------|--------------------|----------------|")
for c in m['checks']:
    i = c['property_id']
    e = json.load(open(os.path.join(V, 'evidence', i + '.json')))
    cov = e['coverage']
    fns = sorted({f['qualname'] + ('[region]' if f.get('mode') == 'region' else '') for f in cov['functions_under_contract']})
    be = ", ".join("%s %d" % (k, v['vcs']) for k, v in sorted(cov['per_backend'].items()))
    nat = sum(n.get('evaluations', 0) or 0 for n in cov.get('native_checks', []))
    print("| %s | %s | %d (%d) | %d | %s | %.0f | %d | %d |" % (i, ", ".join("`%s`" % f for f in fns), cov['obligations'], cov['named_obligations'],
                                                      cov['discharged'], be, e['wall_s'], nat, len(cov.get('known_finding_obligations', []))))
