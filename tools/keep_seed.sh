#!/bin/sh
# tools/keep_seed.sh <PROP> <k> : confirm seed /tmp/seedout_PROP/k on a scratch copy of current /repo HEAD (tests pass, demo fails/passes) and store under /verif/seeded/PROP-k
P="$1"; K="$2"; D="/tmp/seedout_$P/$K"; OUT="/verif/seeded/$P-$K"
SCR=$(mktemp -d /tmp/keep.XXXXXX)
trap 'rm -rf "$SCR"' EXIT
git -C /repo archive HEAD | tar -x -C "$SCR"
cp -r "$SCR" "$SCR.orig"
if ! (cd "$SCR" && patch -p1 -s --fuzz=3 < "$D/patch.diff" >/dev/null 2>&1); then echo "$P-$K PATCH-DOES-NOT-APPLY"; rm -rf "$SCR.orig"; exit 9; fi
find "$SCR" -name "*.orig" -delete; find "$SCR" -name "*.rej" -delete
(cd "$SCR" && PYTHONPATH="$SCR" timeout 600 /venv/bin/python "$D/demo.py" >/dev/null 2>&1); DW=$?
(cd "$SCR.orig" && PYTHONPATH="$SCR.orig" timeout 600 /venv/bin/python "$D/demo.py" >/dev/null 2>&1); DO=$?
T=$(cd "$SCR" && PYTHONPATH="$SCR" timeout 1500 /venv/bin/python -m pytest -q -p no:cacheprovider --timeout=600 tests 2>&1 | tail -1)
mkdir -p "$OUT"
(cd /tmp && diff -ruN --exclude=__pycache__ "$SCR.orig/AegeanTools" "$SCR/AegeanTools" | sed "s#$SCR.orig#a#g; s#$SCR#b#g" > "$OUT/patch.diff")
cp "$D/demo.py" "$OUT/demo.py"
python3 - "$D/meta.json" "$OUT/meta.json" "$DW" "$DO" "$T" <<'PY'
import json,sys
m=json.load(open(sys.argv[1]))
m["confirmed"]={"demo_exit_with_patch":int(sys.argv[3]),"demo_exit_without":int(sys.argv[4]),"test_suite_with_patch":sys.argv[5],
 "how":"tools/keep_seed.sh: git archive of /repo HEAD into a scratch dir, patch applied, demo run on both trees, full pytest suite on the patched tree"}
json.dump(m,open(sys.argv[2],'w'),indent=1)
PY
rm -rf "$SCR.orig"
echo "$P-$K demo_with=$DW demo_without=$DO tests: $T"
