#!/bin/sh
# tools/mut.sh <PROP> <file-relative-to-repo> <sed-expression> : run a check against a scratch copy with one edit
set -e
SCR=$(mktemp -d /tmp/mut.XXXXXX)
trap 'rm -rf "$SCR"' EXIT
cp -r /repo/AegeanTools "$SCR/AegeanTools"
sed -i -E "$3" "$SCR/$2"
if diff -q /repo/$2 "$SCR/$2" >/dev/null; then echo "MUTATION DID NOT APPLY"; exit 9; fi
diff /repo/$2 "$SCR/$2" | head -6 || true
set +e
PYVC_REPO="$SCR" /verif/check "$1" 2>&1 | grep -E "VIOLATION|UNDECIDED|ERROR|KNOWN|discharged" | head -8
echo "exit=$?"
