#!/usr/bin/env python3
"""tools/src.py <file> <qualname>... : print function sources without docstrings"""
import ast, sys
src = open(sys.argv[1]).read()
tree = ast.parse(src)
def find(node, parts):
    for ch in ast.walk(node):
        if isinstance(ch, (ast.FunctionDef, ast.ClassDef)) and ch.name == parts[0] and ch is not node:
            return ch if len(parts) == 1 else find(ch, parts[1:])
for q in sys.argv[2:]:
    n = find(tree, q.split('.'))
    if n is None:
        print("## not found", q); continue
    for sub in ast.walk(n):
        if isinstance(sub, (ast.FunctionDef, ast.ClassDef)) and sub.body and isinstance(sub.body[0], ast.Expr) and isinstance(getattr(sub.body[0], 'value', None), ast.Constant) and isinstance(sub.body[0].value.value, str):
            sub.body = sub.body[1:] or [ast.Pass()]
    print("## %s (line %d)" % (q, n.lineno)); print(ast.unparse(n)); print()
