#!/bin/sh
# tools/seedtest.sh <PROP> <dir-with-patch.diff-and-demo.py> : apply patch to a scratch copy, run demo + check
P="$1"; D="$2"
SCR=$(mktemp -d /tmp/seedt.XXXXXX)
trap 'rm -rf "$SCR"' EXIT
rsync -a --exclude .git /repo/ "$SCR/"
if ! (cd "$SCR" && patch -p1 -s --fuzz=3 < "$D/patch.diff" >/dev/null 2>&1); then echo "PATCH-DOES-NOT-APPLY $D"; exit 9; fi
(cd "$SCR" && PYTHONPATH="$SCR" timeout 300 /venv/bin/python "$D/demo.py" >/dev/null 2>&1); echo "demo_exit_with_patch=$?"
(cd /repo && PYTHONPATH=/repo timeout 300 /venv/bin/python "$D/demo.py" >/dev/null 2>&1); echo "demo_exit_on_repo=$?"
PYVC_REPO="$SCR" timeout 1500 /verif/check "$P" 2>&1 | grep -E "^VIOLATION|^UNDECIDED|ERROR|discharged" | cut -c1-200 | sort -r | head -40
