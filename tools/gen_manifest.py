#!/usr/bin/env python3
"""regenerate /verif/MANIFEST.json from the table below (single place to edit claims)"""
import json, os
V = os.path.dirname(os.path.dirname(os.path.abspath(__file__)))
TECH = "contract-based deductive verification: VCs generated from the real Python AST (pyvc) against sidecar contracts, discharged by z3/cvc5; counterexamples replayed natively"
CLAIMS = {
 "C02": dict(ref="§4 C02",
   text="Conditional proof (scipy label/find_objects contracts) for arbitrary images/backgrounds/noise (symbolic shape, NaN flags, rms>0, 0<flood<=seed): the mask given to label() is exactly finite AND |snr|>=flood; label called with the 3x3 structure; a label yields an island iff one of its OWN pixels has |snr|>seed (both directions, via witnesses of np.any); the island's bounding box is the label's tight box and its mask is False exactly on own pixels (hence disjoint islands, blanks excluded); one island per accepted label in label order (loop invariant over the ghost count ACC); inputs unmodified; accept rule antitone in seed.",
   note="scipy.ndimage.label / find_objects contracts, numpy any/where/mask semantics assumed; floats as reals"),
 "C04": dict(ref="§4 C04",
   text="Proof (any number of components, every subset of free parameters): each row appended by jacobian equals the mathematical partial derivative of elliptical_gaussian's own expression w.r.t. that parameter (theta per degree), rows are in component-major documented order (loop invariant over the ghost index IDX), only varying parameters get rows; lmfit_jacobian = transpose((J/errs).B); covar_errors assigns stderr(i,p) = onesigma[IDX(i)+rank(i,p)] (loop invariant), leaves other stderr untouched, and composes the Fisher matrix as J^T inv(C) J or (JB)^T(JB).",
   note="floats as reals; numpy elementwise ops pointwise (generic pixel); linear algebra calls as structural matrix terms (inv/dot/diag/sqrt contracts assumed); derivative identities decided by the pyvc ring normaliser + z3"),
 "C06": dict(ref="§4 C06",
   text="Proof of the index/dataflow contract of a BANE stripe (row-interval abstract domain over the real sigma_filter): loaded rows = stripe +- half a box, plane/BSCALE handling, both passes 3-sigma clip boxes of the loaded data that lie inside it, EVERY row entering a pass-2 (noise) box has had the background subtracted with aligned slices, the interpolation grids are strictly increasing with >= 2 nodes and contain every query point, own rows of both maps are written exactly once, masking blanks both maps on own rows for every non-finite pixel; sigmaclip returns (nan,nan) for empty input, otherwise mean/std of a non-empty selection of the finite values (hence range bounds) and (c,0) for a constant input. The +c / *k / range / constant-image clauses follow with the assumed numpy mean/std and RegularGridInterpolator contracts and are cross-checked on real BANE runs.",
   note="numpy mean/std, RegularGridInterpolator, fits section contracts assumed; statistical (Gaussian) clause not decided; floats as reals"),
 "C07": dict(ref="§4 C07",
   text="Proof of the structural preconditions of termination under the assumed Barrier/Pool contracts: stripes tile the rows (symbolic rows/grid/cores/stripes, nonlinear layout arithmetic), one task per stripe (loop invariant), Barrier(parties) = tasks <= Pool(processes), each worker path waits exactly 1+domask times independent of data and never resets the barrier, a failing worker aborts the barrier before re-raising, both shared-memory segments are closed and unlinked on every exit path (incl. creation failures), the rows a stripe loads depend on the layout only through stripe +- half a box. Interleavings are not decided by contracts; a watchdogged native run covers stripes>cores, surplus stripes, fault injection per stripe and bit-identity across worker counts.",
   note="multiprocessing Barrier/Pool/SharedMemory contracts assumed; schedule-quantified clauses (bit-identity, stripe-count sensitivity, promptness) only exercised natively"),
 "C08": dict(ref="§4 C08",
   text="Proof by induction over the representation invariant WF (valid integer ids, coherent demoted cache, no shared set objects): for an arbitrary well-formed region state with fully symbolic pixel sets, every public Region operation (add_pixels, get_demoted, _renorm, union incl. finer/coarser operands, without, intersect, symmetric_difference, get_area, __init__) preserves WF, has its set-algebra postcondition on the deepest-level view, leaves the other operand's view unchanged, and normalising operations leave no patch of sky represented twice. Set-iteration loops are cut by functional invariants over a ghost done-set. The depth is enumerated (1..3 quick, 1..4 thorough), contents are unbounded.",
   note="bounded in depth (maxdepth enumerated), unbounded in content; python set semantics, healpy returns valid ids, pickle identity assumed; get_area = card(V)*A(D) not decided deductively (native cross-check only)"),
 "C09": dict(ref="§4 C09",
   text="Conditional proof (relative to healpy's geometric guarantees): insert side and query side use the same, correct conversion (ra, dec) -> (theta, phi) = (pi/2 - dec, ra) -> vector / NESTED pixel: radec2sky, sky2ang (input unchanged), sky2vec, vec2sky (inverse, degrees flag); sky_within answers, per position, finite(ra,dec) AND membership of its own pixel at nside 2**maxdepth nest=True, with degin converting both columns, scalar and vector (symbolic length, NaN flags) forms, view unchanged; add_circles issues exactly one inclusive nested disc query per circle with the right centre vector/radius at depth clamped to maxdepth and the view becomes the union with the descendants of the returned pixels (then normalised); add_poly likewise, vertices in order, fewer than 3 vertices rejected.",
   note="healpy query_disc/query_polygon coverage and 3-pixel margin, ang2vec/vec2ang/ang2pix consistency assumed (the cover/margin/area clauses themselves are only cross-checked natively); number of vector-form circles enumerated (1, 2); depth enumerated"),
 "C10": dict(ref="§4 C10",
   text="Proof for every image shape, WCS, region and negate flag: mask_plane blanks pixel (row r, col c) iff it was blank or its centre W(c+1, r+1) is outside the region (inside with negate) -- via the loop invariant on the (col,row) index table, the origin argument of wcs_pix2world, row-major reshape and boolean-mask assignment; other pixel values, the region and the identity of the array are unchanged; negate is the complement. mask_file masks every plane of a cube with the same wcs/region/negate and writes the result; mask_table keeps row k iff not inside(k) (inside with negate) using the named columns in (ra, dec) order with degin=True.",
   note="astropy WCS pix2world contract (origin semantics), Region.sky_within contract (C08/C09), numpy indexing/reshape, astropy Table row selection assumed; floats as reals"),
 "C11": dict(ref="§4 C11",
   text="Conditional proof: with a region, a label is kept iff it passes the seed rule AND one of its own pixels (row r, col c) has within(W(c+1, r+1)) -- own pixels only, axis order and origin of the pixel->sky call verified via the np.where enumeration contract; kept islands have the same box/mask as without region; order preserved; region and inputs unmodified.",
   note="as C02 plus astropy wcs_pix2world and Region.sky_within contracts (C09/C10); 'identical fitted values' relies on the fitter receiving the same island list (not re-verified)"),
 "C12": dict(ref="§4 C12",
   text="Proof for every well-formed region state (symbolic sets, cache filled or not, depth 1..3/4): _uniq lists 4*4^d+p for all levels 1..maxdepth (encoding injective across levels), write_fits stores that list as int64 column NPIX in extension 1 with MOCORDER=maxdepth, ORDERING=NUNIQ; write_reg prints exactly one polygon per stored pixel built from healpy.boundaries(2**d, p, step=1, nest=True) with (ra/15, dec) per corner (set-loop invariant on the output multiset); save dumps the whole object and load returns it.",
   note="bounded in depth; astropy fits writer, healpy.boundaries, SkyCoord formatting, pickle, sorted/map contracts assumed"),
 "C14": dict(ref="§4 C14",
   text="Proof at an arbitrary pixel of an arbitrary-shape image (1 and 2 symbolic sources): make_model calls sky2pix_ellipse once per source with (ra,dec), a/3600, b/3600, pa; sources centred off the image are skipped and nothing raises; each remaining source writes exactly its box (integer box of half-width 5(|sx cos|+|sy sin|), floor/ceil outwards, clipped to the image) with previous value + G(i,j; peak, X-1, Y-1, sx*FWHM2CC, sy*FWHM2CC, theta), G being fitting.elliptical_gaussian's own body (so the model is the sum of the catalogue Gaussians and is additive); mask mode blanks exactly the box pixels with G >= frac*peak (or sigma*local_rms); FWHM2CC*2sqrt(2ln2)=1; make_residual writes data -/+ model and the model; (d+m)-m=d.",
   note="sky2pix_ellipse by its C16 contract; numpy mgrid/fancy-index/where contracts; number of sources enumerated (1, 2); 5-sigma extent and numeric tolerances cross-checked natively only"),
 "C15": dict(ref="§4 C15",
   text="Proof for all shapes>=2 and factors>=1 (CDELT or CD headers): compress stores the decimation rows/cols and the documented header; expand∘compress never violates a RegularGridInterpolator precondition, restores shape, CRPIX, CDELT/CD, removes BN_*, and places every stored row k<nx at its true original row k*f (⇒ exact at nodes, complete cells interpolated between true corners); invalid factor ⇒ None; uncompressed input returned unchanged.",
   note="RegularGridInterpolator exactness/range/bilinearity, numpy slicing algebra, astropy header mapping assumed; float32 cast not modelled; floats as reals"),
 "C16": dict(ref="§4 C16",
   text="Conditional proof (astropy WCS contract): pix2sky((x,y)) = W(y,x) with origin 1 for (row, column) pixels, sky2pix = swap(W^-1), so position round trips are exact given W^-1 o W = id; psf_sky2pix same convention on the psf WCS (None without one); the reference beam is evaluated at the reference pixel in (row, col) order; pix2sky_vec/ellipse step along (cos theta, sin theta) in (row, col) space with lengths = gcd and angles = bear from the centre, minor axis at theta-90 with |cos(defect)| correction; sky2pix_vec/ellipse use translate(ra,dec,r,pa), arctan2(dy,dx), minor at pa-90. Round-trip tolerances of lengths/angles are only cross-checked natively (5 projections).",
   note="astropy all_pix2world/all_world2pix contract; gcd/bear/translate by their C17 contracts; local-linearity clauses (1e-3, 0.01 deg) not decided deductively"),
 "C17": dict(ref="§4 C17",
   text="Proof over the reals of: sexagesimal field ranges, sign, format/parse round trip to half a unit of the last digit (mod 360 for RA), non-finite placeholder (dec2dms, dec2hms, dec2dec, ra2dec); gcd symmetric, in [0,180], zero iff same point, haversine argument = |v1-v2|^2/4; bear = degrees(arctan2) of the standard PA numerator/denominator, East positive; translate lands at distance r with the rotated z-component. Not decided: triangle inequality, 1e-9 float agreement (a known finding is reported from the native cross-check).",
   note="floats as reals; sin/cos via Pythagoras+addition formulas only; arcsin/arctan2/sqrt by defining axioms; str.format rounding contract"),
 "C19": dict(ref="§4 C19",
   text="Proof (all inputs): regroup_dbscan embeds each source as the unit vector of its (ra, dec), passes the n x 3 array to DBSCAN(eps, min_samples=1) unchanged; squared chord = 4 x haversine argument (chord = 2 sin(sep/2), monotone), both callers convert the linking length theta to 2 sin(theta/2); resize(ratio=1) is the identity, ratio>=1 never shrinks, and catalogues without / with NaN psf columns raise nothing. Bounded stand-in (labelled, not counted as proved): grouping + flux-ordered relabelling executed symbolically for 3-source catalogues under all 5 label patterns; greedy regroup only natively.",
   note="sklearn DBSCAN(min_samples=1) = connected components at distance <= eps assumed (gives chain-connectedness and permutation invariance); grouping/relabelling bounded to 3 sources; regroup_vectorized not under contract"),
 "C20": dict(ref="§4 C20",
   text="Proof: every path of load_image_band (real AST) satisfies validation, tiling (first/last/consecutive/in-range), data-selection and header-shift postconditions for all rows/bands/NAXIS/BSCALE/compressed; integers unbounded.",
   note="astropy.io.fits getheader/open/section contracts and fits_tools.expand contract assumed; float arithmetic real except inside int() (relative error model)"),
}
NA = {
 "C18": "third-party table writers/readers (astropy ascii/votable/fits, sqlite3) decide the property; no contract on Aegean's own functions can express it without assuming the property itself (DESIGN §6)",
}
def main():
    props = [json.loads(l) for l in open(os.path.join(V, 'properties.jsonl'))]
    base = "cd /repo && /venv/bin/python -m pytest -ra -q -p no:cacheprovider --timeout=900 --continue-on-collection-errors"
    m = {"version": 1,
         "setup_cmd": "python3-vt -c 'import z3; print(z3.get_version_string())' && /venv/bin/python -c 'import AegeanTools'",
         "hooks": {"guard": "AEGEAN_VERIF", "enable": "no hooks: contracts are sidecar files under /verif/contracts; /repo is read as is",
                   "baseline_off_cmd": base, "source_commits": [], "add_only": True},
         "engines": [{"name": "pyvc", "path": "/verif/pyvc", "serves_properties": sorted(CLAIMS),
                      "kind_free_text": "home-made deductive verifier: symbolic execution of the real Python AST against sidecar contracts, VCs discharged by z3 5.1 / cvc5 1.0; native replay of counterexamples under /venv/bin/python"}],
         "checks": [], "notes": "see DESIGN.md", "not_applicable": []}
    for p in props:
        i = p['id']
        if i in CLAIMS:
            c = CLAIMS[i]
            m["checks"].append({"property_id": i, "quick_cmd": "./check %s --tier quick" % i,
                                "thorough_cmd": "./check %s --tier thorough" % i,
                                "evidence_file": "/verif/evidence/%s.json" % i,
                                "replay_cmd_template": "./check %s --replay {path}" % i, "engine": "pyvc",
                                "level_claimed": {"category": "proof", "text": c["text"], "design_ref": c["ref"]},
                                "level_note": c["note"], "technique": c.get("tech", TECH)})
        else:
            m["not_applicable"].append({"property_id": i, "reason": NA.get(i, "contracts for this property are not built yet (work in progress; plan in DESIGN.md §4)")})
    json.dump(m, open(os.path.join(V, 'MANIFEST.json'), 'w'), indent=1)
main()
