"""python3-vt tools/dbg.py C17 <target-substring> <label-substring> : dump/try one obligation"""
import sys, importlib, time
sys.path.insert(0, '/verif')
import z3
from pyvc.engine import Session
from pyvc import solve
prop, tsub, lsub = sys.argv[1], sys.argv[2], sys.argv[3]
mod = importlib.import_module('contracts.' + prop.lower())
S = Session(prop); S.tier = 'quick'; S.seed = 0; S.only = tsub
mod.verify(S)
print("undecided:", S.undecided)
for ob in S.obligations:
    if lsub in ob.name:
        txt = solve.to_smt2(ob.hyps, ob.goal)
        open('/tmp/dbg.smt2', 'w').write(txt)
        print(ob.name, len(txt), "bytes, hyps:", len(ob.hyps))
        if '-p' in sys.argv:
            print(txt)
        for tac in [None, 'qfnra-nlsat', 'nlsat']:
            t0 = time.time()
            try:
                r = solve._z3_check(txt, 20000, tac)
            except Exception as e:
                r = ('exc', str(e))
            print("  ", tac, r[0], r[3] if len(r) > 3 else '', round(time.time() - t0, 2))
        r = solve._cvc5_check(txt, 20)
        print("   cvc5", r[0], r[3])
