#!/bin/sh
# append one seed's result to RESULTS.tsv (same columns as tools/run_all_seeds.sh)
cd /verif
d=$1
P=$(basename $d | cut -d- -f1)
out=$(tools/seedtest.sh $P /verif/$d 2>&1)
ded=$(echo "$out" | grep "^VIOLATION" | grep -v "crosscheck.native" | wc -l)
nat=$(echo "$out" | grep "^VIOLATION" | grep "crosscheck.native" | wc -l)
noin=$(echo "$out" | grep "^VIOLATION" | grep -c "no-failing-input-found")
und=$(echo "$out" | grep -c "^UNDECIDED")
first=$(echo "$out" | grep "^VIOLATION" | grep -v "crosscheck.native" | head -1 | sed 's/.*replays.C[0-9]*.//; s/.json.*//' | cut -c1-120)
[ -z "$first" ] && first=$(echo "$out" | grep "^VIOLATION" | head -1 | sed 's/.*replays.C[0-9]*.//; s/.json.*//' | cut -c1-120)
caught=no; [ $((ded+nat)) -gt 0 ] && caught=yes
(
flock 9
grep -v "^$(basename $d)	" seeded/RESULTS.tsv > seeded/RESULTS.tsv.tmp; mv seeded/RESULTS.tsv.tmp seeded/RESULTS.tsv
printf "%s\t%s\t%s\t%s\t%s\t%s\t%s\n" "$(basename $d)" "$ded" "$nat" "$noin" "$und" "$caught" "$first" >> seeded/RESULTS.tsv
) 9>/verif/seeded/.results.lock
echo "$(basename $d) $ded $nat $caught"
